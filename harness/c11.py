"""C11 - execution-strategy arguments never change results.

TLC:  Strategy  - (a) presorted: sorted sequences are fixpoints of the stable sort (all sequences up to the
                  bound); independence from buffersize/cache/pass is ExtSort (C05), re-checked here;
                  (b) the cache clause as a state machine over an editable source: all histories of
                  edit / full pass / partial pass up to MaxSteps.
G:    (a) every sort-backed operator x TLC-generated inputs (from the C05-C10 generators) x strategy variants
          (buffersize 1..n+1, petl.config.sort_buffersize, tempdir, cache, presorted on pre-sorted inputs):
          full output sequence must equal the default call;
      (b) every maximal behaviour of Strategy.tla replayed on real views over ProbeTables (source version and
          pull counts observed), memory and file path.
V:    random longer histories on the real sort(), recorded and validated by StrategyTrace.
"""
import json
import random
from collections import OrderedDict

from harness import tlc, common, joinlib
from harness.core import Check
from harness.concretize import PROFILES
from harness.probe import ProbeTable, InjectedFailure

PID = 'C11'
ACTIONS = ['Edit', 'FullPass', 'PartialPass', 'FailPass']


# ---- (a) differential over strategies --------------------------------------------------------------

def _ops():
    import petl as etl
    G = ['k', 'j', 'n']
    ops = []

    def add(name, kind, fn, keys, accepts=('presorted', 'buffersize', 'tempdir', 'cache')):
        ops.append(dict(name=name, kind=kind, fn=fn, keys=keys, accepts=accepts))
    for o, f in joinlib.MERGE_FN.items():
        add(f, 'join', (lambda f: lambda ts, **kw: getattr(etl, f)(ts[0], ts[1], key='k', **kw))(f), ['k', 'k'])
    add('complement', 'setop', lambda ts, **kw: etl.complement(ts[0], ts[1], **kw), [None, None])
    add('complement(strict)', 'setop', lambda ts, **kw: etl.complement(ts[0], ts[1], strict=True, **kw), [None, None])
    add('intersection', 'setop', lambda ts, **kw: etl.intersection(ts[0], ts[1], **kw), [None, None])
    add('diff', 'setop', lambda ts, **kw: etl.diff(ts[0], ts[1], **kw), [None, None])
    add('recordcomplement', 'setop', lambda ts, **kw: etl.recordcomplement(ts[0], ts[1], **kw), [None, None],
        accepts=('buffersize', 'tempdir', 'cache'))
    add('recorddiff', 'setop', lambda ts, **kw: etl.recorddiff(ts[0], ts[1], **kw), [None, None],
        accepts=('buffersize', 'tempdir', 'cache'))
    for f in ('duplicates', 'unique', 'distinct'):
        add(f, 'dedup', (lambda f: lambda ts, **kw: getattr(etl, f)(ts[0], 'k', **kw))(f), ['k'])
        add(f + '(key=None)', 'dedup', (lambda f: lambda ts, **kw: getattr(etl, f)(ts[0], **kw))(f), [None])
    add('distinct(count)', 'dedup', lambda ts, **kw: etl.distinct(ts[0], 'k', count='n', **kw), ['k'])
    add('conflicts', 'dedup', lambda ts, **kw: etl.conflicts(ts[0], 'k', **kw), ['k'])
    add('aggregate(len)', 'group', lambda ts, **kw: etl.aggregate(ts[0], 'k', len, **kw), ['k'])
    add('aggregate(dict)', 'group', lambda ts, **kw: etl.aggregate(ts[0], ('k', 'j'), OrderedDict([('c', len), ('s', ('n', sum)), ('l', 'n')]), **kw), [('k', 'j')])
    add('rowreduce', 'group', lambda ts, **kw: etl.rowreduce(ts[0], 'k', lambda k, rows: [k, [r[2] for r in rows]], header=['k', 'ns'], **kw), ['k'])
    add('rowgroupmap', 'group', lambda ts, **kw: etl.rowgroupmap(ts[0], 'k', lambda k, rows: [[k, r[1], r[2]] for r in rows], header=G, **kw), ['k'])
    add('fold', 'group', lambda ts, **kw: etl.fold(ts[0], 'k', lambda a, b: a + b, 'n', **kw), ['k'])
    for f in ('groupselectfirst', 'groupselectlast'):
        add(f, 'group', (lambda f: lambda ts, **kw: getattr(etl, f)(ts[0], 'k', **kw))(f), ['k'])
    for f in ('groupselectmin', 'groupselectmax'):
        add(f, 'group', (lambda f: lambda ts, **kw: getattr(etl, f)(ts[0], 'k', 'n', **kw))(f), ['k'])
    add('mergeduplicates', 'group', lambda ts, **kw: etl.mergeduplicates(ts[0], 'k', **kw), ['k'])
    add('pivot', 'group', lambda ts, **kw: etl.pivot(ts[0], 'k', 'n', 'n', sum, **kw), [('k', 'n')])
    add('unjoin', 'group', lambda ts, **kw: etl.unjoin(ts[0], 'n', key='k', **kw), ['n'])
    add('mergesort', 'group2', lambda ts, **kw: etl.mergesort(ts[0], ts[1], key='k', **kw), ['k', 'k'],
        accepts=('presorted', 'buffersize', 'tempdir', 'cache'))
    return ops


def _materialise(res):
    if isinstance(res, tuple):
        return [[tuple(r) for r in t] for t in res]
    return [tuple(r) for r in res]


def _inputs(kind, case, prof, occ):
    if kind == 'join':
        l, r = joinlib.tables(case, prof, occ)
        return [l, r]
    if kind == 'setop':
        return [[['f', 'g']] + [prof.row(r, occ + i) for i, r in enumerate(case['a'])],
                [['f', 'g']] + [prof.row(r, occ + 5 + i) for i, r in enumerate(case['b'])]]
    if kind == 'dedup':
        return [[['k', 'v']] + [prof.row(r, occ + i) for i, r in enumerate(case['rows'])]]
    rows = [[prof.conc(r[0], occ + i), prof.conc(r[1], occ + i + 1), r[2]] for i, r in enumerate(case['rows'])]
    if kind == 'group':
        return [[['k', 'j', 'n']] + rows]
    h = (len(rows) + 1) // 2
    return [[['k', 'j', 'n']] + rows[:h], [['k', 'j', 'n']] + rows[h:]]


def strategy_variants(nmax, tmp, rng, full):
    vs = [{'buffersize': b} for b in range(1, nmax + 2)]
    vs += [{'config': 1}, {'config': 2}, {'tempdir': tmp}, {'cache': False}, {'buffersize': 1, 'cache': False, 'tempdir': tmp},
           {'presorted': True}]
    if not full:
        keep = [v for v in vs if 'presorted' in v] + rng.sample([v for v in vs if 'presorted' not in v], 3)
        return keep
    return vs


def run_differential(op, tables, variant):
    """Returns (message or None). Default call vs strategy variant on identical inputs."""
    import petl as etl
    import petl.config
    kw = {}
    tabs = tables
    if variant.get('presorted'):
        if 'presorted' not in op['accepts']:
            return None
        # pre-sorted inputs; rows of the first input as lists, of the others as tuples (any row container is a row)
        tabs = [[(list(r) if ti == 0 else tuple(r)) for r in etl.sort(t, k)] for ti, (t, k) in enumerate(zip(tables, op['keys']))]
        kw['presorted'] = True
    for k in ('buffersize', 'tempdir', 'cache'):
        if k in variant:
            kw[k] = variant[k]
    saved = petl.config.sort_buffersize
    try:
        base = _materialise(op['fn'](tabs))
        if 'config' in variant:
            petl.config.sort_buffersize = variant['config']
        got = _materialise(op['fn'](tabs, **kw))
        got2 = None
        if kw.get('cache', True):
            v = op['fn'](tabs, **kw)
            _materialise(v)
            got2 = _materialise(v)     # second pass (from the cache when there is one)
    except Exception as e:
        return 'raised %r' % (e,)
    finally:
        petl.config.sort_buffersize = saved
    if got != base:
        return 'result %r differs from the default call %r' % (got, base)
    if got2 is not None and got2 != base:
        return 'second pass %r differs from the default call %r' % (got2, base)
    return None


def _diff_job(j):
    opname, opkind, case, pname, ci, variants = j
    op = [o for o in _ops() if o['name'] == opname][0]
    tables = _inputs(opkind, case, PROFILES[pname], ci)
    out = []
    with common.private_tmp() as tmp:
        for variant in variants:
            v = {k: (tmp if k == 'tempdir' else val) for k, val in variant.items()}
            out.append(run_differential(op, tables, v))
    return tables, out


def check_differential(chk, gens, profiles, full, rng):
    jobs = []
    for op in _ops():
        cases = gens[op['kind'] if op['kind'] != 'group2' else 'group']
        step = 1 if full else max(1, len(cases) // 60)
        for ci in range(rng.randrange(step), len(cases), step):
            case = cases[ci]
            pname = profiles[ci % len(profiles)]
            tables = _inputs(op['kind'], case, PROFILES[pname], ci)
            nmax = max(len(t) - 1 for t in tables)
            variants = strategy_variants(nmax, '<private tmp>', rng, full)
            jobs.append((op['name'], op['kind'], case, pname, ci, variants))
    for (opname, opkind, case, pname, ci, variants), (tables, msgs) in zip(jobs, common.pmap(_diff_job, jobs)):
        for variant, msg in zip(variants, msgs):
            chk.count(('diff', opname, ci, json.dumps({k: (v if k != 'tempdir' else 'tmp') for k, v in variant.items()}, sort_keys=True)))
            chk.replayed += 1
            if msg:
                chk.violation({'op': opname, 'strategy': sorted(variant)},
                              '%s inputs=%r strategy=%r: %s' % (opname, tables, variant, msg),
                              {'kind': 'diff', 'op': opname, 'opkind': opkind, 'case': case,
                               'profile': pname, 'occ': ci, 'variant': variant})
    chk.sample({'kind': 'strategy-differential', 'op': 'leftjoin', 'variant': {'buffersize': 1},
                'inputs': _inputs('join', gens['join'][len(gens['join']) // 2], PROFILES['ints'], 0)})


def check_scale(chk, rng):
    """The same differential on LARGE inputs: hundreds of rows with many duplicate keys, buffersizes that spill into
    more than 64 / 128 chunk files, and chunks of more than 256 rows (batch / fan-in thresholds inside the sort)."""
    import petl as etl
    ops = [o for o in _ops() if o['kind'] in ('join', 'setop', 'dedup', 'group', 'group2')]
    for n, bsizes in ((343, (3, 5)), (700, (300, 2)), (130, (1,))):
        keys = [rng.choice([None, 1, 2, 3, 'x', 2.5]) for _ in range(n)]
        base_tabs = {
            'join': [[['k', 'a']] + [[k, i] for i, k in enumerate(keys)], [['k', 'b']] + [[k, -i] for i, k in enumerate(keys[: n // 7])]],
            'setop': [[['f', 'g']] + [[k, i % 3] for i, k in enumerate(keys)], [['f', 'g']] + [[k, i % 2] for i, k in enumerate(keys[: n // 2])]],
            'dedup': [[['k', 'v']] + [[k, i % 4] for i, k in enumerate(keys)]],
            'group': [[['k', 'j', 'n']] + [[k, i % 2, i] for i, k in enumerate(keys)]],
        }
        base_tabs['group2'] = [[['k', 'j', 'n']] + base_tabs['group'][0][1: n // 2], [['k', 'j', 'n']] + base_tabs['group'][0][n // 2:]]
        for op in ops:
            if op['kind'] == 'join' and n > 400:
                continue
            tables = base_tabs[op['kind']]
            with common.private_tmp() as tmp:
                for B in bsizes:
                    msg = run_differential(op, tables, {'buffersize': B, 'tempdir': tmp})
                    chk.count(('scale', op['name'], n, B))
                    chk.replayed += 1
                    if msg:
                        chk.violation({'op': op['name'], 'strategy': ['buffersize'], 'scale': n},
                                      '%s on %d rows with buffersize=%d: %s' % (op['name'], n, B, msg[:600]),
                                      {'kind': 'scale', 'op': op['name'], 'n': n, 'B': B})


# ---- (b) cache clause: behaviours of Strategy.tla on real views ------------------------------------

def _mk_views():
    import petl as etl

    def rows(v):
        return [[2, v * 100 + 1], [1, v * 100 + 2], [2, v * 100 + 3], [None, v * 100 + 4]]

    def rows_b(v):
        return [[1, v * 100 + 11], [2, v * 100 + 12]]
    vs = []

    def add(name, fn, nsrc=1):
        vs.append((name, fn, nsrc))
    add('sort(mem)', lambda s, cache: etl.sort(s[0], 'k', cache=cache))
    add('sort(file)', lambda s, cache: etl.sort(s[0], 'k', buffersize=2, cache=cache))
    add('join', lambda s, cache: etl.join(s[0], s[1], key='k', cache=cache), 2)
    add('leftjoin(file)', lambda s, cache: etl.leftjoin(s[0], s[1], key='k', buffersize=1, cache=cache), 2)
    add('complement', lambda s, cache: etl.complement(s[0], s[1], cache=cache), 2)
    add('distinct', lambda s, cache: etl.distinct(s[0], 'k', cache=cache))
    add('duplicates', lambda s, cache: etl.duplicates(s[0], 'k', cache=cache))
    add('aggregate', lambda s, cache: etl.aggregate(s[0], 'k', list, 'v', cache=cache))
    add('rowreduce', lambda s, cache: etl.rowreduce(s[0], 'k', lambda k, rs: [k, [r[1] for r in rs]], header=['k', 'vs'], cache=cache))
    add('mergesort', lambda s, cache: etl.mergesort(s[0], s[1], key='k', cache=cache), 2)
    add('mergeduplicates', lambda s, cache: etl.mergeduplicates(s[0], 'k', cache=cache))
    add('rowgroupmap', lambda s, cache: etl.rowgroupmap(s[0], 'k', lambda k, rs: [[k, r[1]] for r in rs], header=['k', 'v'], cache=cache))
    add('unique', lambda s, cache: etl.unique(s[0], 'v', cache=cache))
    add('conflicts', lambda s, cache: etl.conflicts(s[0], 'k', cache=cache))
    add('fold', lambda s, cache: etl.fold(s[0], 'k', lambda x, y: (x if isinstance(x, tuple) else (x,)) + (y,), 'v', cache=cache))
    add('groupselectfirst', lambda s, cache: etl.groupselectfirst(s[0], 'k', cache=cache))
    add('groupselectmax', lambda s, cache: etl.groupselectmax(s[0], 'k', 'v', cache=cache))
    add('pivot', lambda s, cache: etl.pivot(s[0], 'k', 'v', 'v', sum, cache=cache))
    add('outerjoin', lambda s, cache: etl.outerjoin(s[0], s[1], key='k', cache=cache), 2)
    add('antijoin', lambda s, cache: etl.antijoin(s[0], [['k', 'w'], [99, 0]], key='k', cache=cache))
    add('lookupjoin', lambda s, cache: etl.lookupjoin(s[0], s[1], key='k', cache=cache), 2)
    add('intersection', lambda s, cache: etl.intersection(s[0], s[0], cache=cache))
    add('recordcomplement', lambda s, cache: etl.recordcomplement(s[0], s[1], cache=cache), 2)
    add('diff', lambda s, cache: etl.diff(s[0], s[1], cache=cache)[1], 2)
    add('unjoin', lambda s, cache: etl.unjoin(s[0], 'k', key='v', cache=cache)[0])
    return vs, rows, rows_b


def check_edit_consistency(chk):
    """One view, iterated, then the (mutable) sources are edited IN PLACE - new data with other key / column-value sets, or
    the same data with the fields in another order (keys are given by name) - then iterated again.  cache=False: the
    second pass is exactly what a fresh default call delivers now.  Otherwise (cache=True, presorted=True): it is either
    that or a replay of the first pass, never a mixture of old structure and new data."""
    import petl as etl
    v1 = [[1, 'a', 1], [1, 'b', 2], [2, 'a', 3]]
    v2 = [[1, 'a', 10], [2, 'c', 20], [3, 'a', 30], [3, 'd', 40]]
    w1 = [[1, 'x'], [2, 'y']]
    w2 = [[2, 'y2'], [3, 'z']]
    ops = [('sort', 1, lambda s, kw: etl.sort(s[0], 'k', **kw), False),
           ('distinct(key)', 1, lambda s, kw: etl.distinct(s[0], 'k', **kw), True),
           ('distinct(key,count)', 1, lambda s, kw: etl.distinct(s[0], 'k', count='n', **kw), True),
           ('distinct', 1, lambda s, kw: etl.distinct(s[0], **kw), True),
           ('unique', 1, lambda s, kw: etl.unique(s[0], 'k', **kw), True),
           ('duplicates', 1, lambda s, kw: etl.duplicates(s[0], 'k', **kw), True),
           ('conflicts', 1, lambda s, kw: etl.conflicts(s[0], 'k', **kw), True),
           ('aggregate', 1, lambda s, kw: etl.aggregate(s[0], 'k', list, 'v', **kw), True),
           ('aggregate(multi)', 1, lambda s, kw: etl.aggregate(s[0], 'k', OrderedDict([('c', len), ('vs', ('v', list))]), **kw), True),
           ('rowreduce', 1, lambda s, kw: etl.rowreduce(s[0], 'k', lambda k, rs: [k, [tuple(r) for r in rs]], header=['k', 'rs'], **kw), True),
           ('rowgroupmap', 1, lambda s, kw: etl.rowgroupmap(s[0], 'k', lambda k, rs: [[k, tuple(r)] for r in rs], header=['k', 'r'], **kw), True),
           ('fold', 1, lambda s, kw: etl.fold(s[0], 'k', lambda a, b: a + b, 'v', **kw), True),
           ('groupselectfirst', 1, lambda s, kw: etl.groupselectfirst(s[0], 'k', **kw), True),
           ('groupselectmax', 1, lambda s, kw: etl.groupselectmax(s[0], 'k', 'v', **kw), True),
           ('mergeduplicates', 1, lambda s, kw: etl.mergeduplicates(s[0], 'k', **kw), True),
           ('pivot', 1, lambda s, kw: etl.pivot(s[0], 'k', 'f', 'v', sum, **kw), True),
           ('recast', 1, lambda s, kw: etl.recast(etl.cut(s[0], 'k', 'f', 'v'), key='k', variablefield='f', valuefield='v', reducers={'a': sum, 'b': sum, 'c': sum, 'd': sum}), False),
           ('join', 2, lambda s, kw: etl.join(s[0], s[1], key='k', **kw), True),
           ('leftjoin', 2, lambda s, kw: etl.leftjoin(s[0], s[1], key='k', **kw), True),
           ('outerjoin', 2, lambda s, kw: etl.outerjoin(s[0], s[1], key='k', **kw), True),
           ('antijoin', 2, lambda s, kw: etl.antijoin(s[0], s[1], key='k', **kw), True),
           ('lookupjoin', 2, lambda s, kw: etl.lookupjoin(s[0], s[1], key='k', **kw), True),
           ('complement', 1, lambda s, kw: etl.complement(s[0], [['k', 'f', 'v'], [1, 'a', 1], [3, 'a', 30]], **kw), True),
           ('intersection', 1, lambda s, kw: etl.intersection(s[0], [['k', 'f', 'v'], [1, 'a', 1], [3, 'a', 30]], **kw), True),
           ('mergesort', 2, lambda s, kw: etl.mergesort(s[0], s[0], key='k', **kw), True)]
    for name, nsrc, mk, has_presorted in ops:
        strategies = [('cache=False', {'cache': False}), ('default', {}), ('buffersize=1', {'buffersize': 1})]
        if has_presorted:
            strategies.append(('presorted=True', {'presorted': True}))
        if name == 'recast':
            strategies = [('default', {})]
        for sname, kw in strategies:
            for edit in ('data', 'fields'):
                if edit == 'fields' and ('presorted' in kw or name in ('complement', 'intersection')):
                    continue              # permuted fields are no longer sorted by the whole row / differ from the other table
                s0 = [['k', 'f', 'v']] + [list(r) for r in v1]
                s1 = [['k', 'w']] + [list(r) for r in w1]
                try:
                    view = mk([s0, s1], dict(kw))
                    p1 = [tuple(r) for r in view]
                    if edit == 'data':
                        s0[1:] = [list(r) for r in v2]
                        s1[1:] = [list(r) for r in w2]
                    else:
                        s0[:] = [['f', 'k', 'v']] + [[r[1], r[0], r[2]] for r in s0[1:]]
                    p2 = [tuple(r) for r in view]
                    fresh = [tuple(r) for r in mk([s0, s1], {})]
                except Exception as e:
                    chk.violation({'op': name, 'kind': 'edit-consistency'}, '%s %s, %s edited in place between two passes: raised %r' % (name, sname, edit, e),
                                  {'kind': 'edit-consistency', 'op': name, 'strategy': sname, 'edit': edit})
                    continue
                chk.count(('edit-consistency', name, sname, edit))
                chk.replayed += 1
                strict = kw.get('cache') is False
                if p2 != fresh and (strict or p2 != p1):
                    chk.violation({'op': name, 'kind': 'edit-consistency'},
                                  '%s %s, %s edited in place between two passes of one view: second pass %r; a fresh default call delivers %r%s'
                                  % (name, sname, edit, p2, fresh, '' if strict else '; the first pass was %r' % (p1,)),
                                  {'kind': 'edit-consistency', 'op': name, 'strategy': sname, 'edit': edit})


def _versions_in(rows):
    vs = set()

    def walk(x):
        if isinstance(x, (list, tuple)):
            for y in x:
                walk(y)
        elif isinstance(x, int) and not isinstance(x, bool) and x >= 100:
            vs.add(x // 100)
    for r in rows:
        walk(r)
    return vs


def replay_behaviour(beh, view):
    """Returns (violation message, drift message)."""
    name, mk, nsrc = view
    _, rows_a, rows_b = _mk_views()
    same_hdr = name in ('complement', 'mergesort', 'recordcomplement', 'diff')     # set operations / mergesort need equal headers
    srcs = [ProbeTable(['k', 'v'], rowfn=rows_a), ProbeTable(['k', 'v' if same_hdr else 'w'], rowfn=rows_b)][:nsrc]
    with common.private_tmp() as tmp:
        v = mk(srcs, beh['cache'])
        ver = 1
        first_done = 0
        drift = None
        for i, ev in enumerate(beh['hist']):
            if ev['a'] == 'edit':
                ver += 1
                for s in srcs:
                    s.version = ver
                continue
            before = sum(s.pulls for s in srcs)
            if ev['a'] == 'fail':
                # the first source raises at its 3rd data row during this pass only
                srcs[0].fail_at = 3
                raised = False
                try:
                    out = [tuple(r) for r in v][1:]
                except InjectedFailure:
                    raised = True
                except Exception as e:
                    return 'step %d (failing source) raised %r instead of the injected failure' % (i + 1, e), None
                finally:
                    srcs[0].fail_at = None
                if raised:
                    if not ev['raised'] and drift is None:
                        drift = '%s: step %d: source failure surfaced, model serves the pass from the cache' % (name, i + 1)
                    continue
                if ev['raised'] and drift is None:
                    drift = '%s: step %d: the armed source failure never surfaced, model expects it to' % (name, i + 1)
                ev = dict(ev, a='full', have_out=True)
            try:
                if ev.get('have_out'):
                    pass
                elif ev['a'] == 'full':
                    out = [tuple(r) for r in v][1:]
                else:
                    it = iter(v)
                    next(it)
                    out = []
                    if ev['k']:
                        try:
                            out = [tuple(next(it))]
                        except StopIteration:
                            pass
                    del it
            except Exception as e:
                return 'step %d (%s) raised %r' % (i + 1, ev['a'], e), None
            pulled = sum(s.pulls for s in srcs) > before
            shown = _versions_in(out)
            if ev['a'] == 'full':
                # property level
                if len(shown) != 1:
                    return 'step %d: full pass mixes source versions %r' % (i + 1, sorted(shown)), None
                sv = shown.pop()
                # the pass must deliver the COMPLETE result for the version it shows
                rs = [ProbeTable(x.hdr, rowfn=x.rowfn) for x in srcs]
                for x in rs:
                    x.version = sv
                ref = [tuple(r) for r in mk(rs, False)][1:]
                if out != ref:
                    return ('step %d: the pass delivered %r, a fresh view on version %d delivers %r' % (i + 1, out, sv, ref)), None
                if not beh['cache'] and (sv != ver or not pulled):
                    return ('step %d: cache=False but the pass shows version %d (current %d), sources read: %s'
                            % (i + 1, sv, ver, pulled)), None
                if beh['cache'] and first_done and (pulled or sv != first_done):
                    return ('step %d: cache=True, a pass had completed (version %d) but this pass shows version %d, '
                            'sources read: %s' % (i + 1, first_done, sv, pulled)), None
                if pulled and sv != ver:
                    return 'step %d: the pass read the sources but shows version %d, current %d' % (i + 1, sv, ver), None
                if not first_done:
                    first_done = sv
                if (sv != ev['shown'] or pulled != ev['pulled']) and drift is None:
                    drift = '%s: step %d full pass shown=%d pulled=%s, model shown=%d pulled=%s' % (name, i + 1, sv, pulled, ev['shown'], ev['pulled'])
            else:
                if pulled != ev['pulled'] and drift is None:
                    drift = '%s: step %d partial(%d) pulled=%s, model %s' % (name, i + 1, ev['k'], pulled, ev['pulled'])
        del v
    return None, drift


def _beh_job(j):
    beh, vname = j
    view = [v for v in _mk_views()[0] if v[0] == vname][0]
    return replay_behaviour(beh, view)


def check_behaviours(chk, behaviours, full, rng):
    views, _, _ = _mk_views()
    jobs = []
    for bi, beh in enumerate(behaviours):
        # sort() memory + file path on every behaviour; the other sort-backed views on a rotating subset
        sel = views[:2] + ([views[2 + bi % (len(views) - 2)]] if not full else views[2:])
        jobs += [(bi, beh, view) for view in sel]
    for (bi, beh, view), (msg, drift) in zip(jobs, common.pmap(_beh_job, [(b_, v_[0]) for _i, b_, v_ in jobs])):
        if True:
            chk.count(('beh', bi, view[0]))
            chk.replayed += 1
            if msg:
                chk.violation({'op': view[0], 'kind': 'cache-history'},
                              '%s cache=%s history=%r: %s' % (view[0], beh['cache'], [(e['a'], e['k']) for e in beh['hist']], msg),
                              {'kind': 'behaviour', 'view': view[0], 'behaviour': beh})
            elif drift:
                chk.add_drift(drift)
    chk.sample({'kind': 'cache-behaviour', 'behaviour': behaviours[len(behaviours) // 2]})


# ---- V: random histories on sort(), validated by TLC -----------------------------------------------

def record_traces(n, seed):
    import petl as etl
    rng = random.Random(seed)
    traces = []
    _, rows_a, _ = _mk_views()
    for _ in range(n):
        cache = rng.random() < 0.6
        bs = rng.choice([None, 1, 2, 3, 4, 5])
        src = ProbeTable(['k', 'v'], rowfn=rows_a)
        evs = []
        with common.private_tmp() as tmp:
            v = etl.sort(src, 'k', buffersize=bs, cache=cache, tempdir=tmp)
            for _s in range(rng.randrange(3, 12)):
                a = rng.choice(['edit', 'full', 'full', 'partial0', 'partial1', 'fail'])
                if a == 'edit':
                    src.version += 1
                    evs.append({'a': 'edit', 'k': 0, 'shown': 0, 'pulled': False, 'raised': False, 'complete': True})
                    continue
                before = src.pulls
                raised = False
                if a == 'fail':
                    src.fail_at = rng.choice([1, 2, 3, 4, 5])
                    try:
                        out = [tuple(r) for r in v][1:]
                    except InjectedFailure:
                        raised, out = True, []
                    finally:
                        src.fail_at = None
                elif a == 'full':
                    out = [tuple(r) for r in v][1:]
                else:
                    it = iter(v)
                    next(it)
                    out = [tuple(next(it))] if a == 'partial1' else []
                    del it
                shown = _versions_in(out)
                sv = shown.pop() if len(shown) == 1 else (0 if not shown else 99)
                complete = True
                if a in ('full', 'fail') and not raised and 0 < sv < 99:
                    complete = out == [tuple(r) for r in etl.sort(rows_a(sv) and [['k', 'v']] + rows_a(sv), 'k')][1:]
                evs.append({'a': a if a in ('full', 'fail') else 'partial', 'k': 1 if a == 'partial1' else 0,
                            'shown': sv, 'pulled': src.pulls > before, 'raised': raised, 'complete': complete})
            del v
        traces.append({'cache': cache, 'B': bs or 0, 'events': evs})
    return traces


def validate_traces(chk, traces, seed):
    r, verdicts = common.validate('StrategyTrace', traces)
    chk.add_tlc(r, 'StrategyTrace')
    for tid, (bad, why, drift) in sorted(verdicts.items()):
        if bad:
            chk.violation({'op': 'sort', 'kind': 'cache-trace'},
                          'recorded sort() history rejected by StrategyTrace at event %d (clause %s): %r' % (bad, why, traces[tid - 1]),
                          {'kind': 'trace', 'seed': seed, 'trace': traces[tid - 1]})
        elif drift:
            chk.add_drift('sort() history deviates from the implementation-shaped model at event %d: %r' % (drift, traces[tid - 1]))
    chk.validated += len(traces)
    chk.sample({'kind': 'cache-trace', 'trace': traces[0]})
    # binding demo: a cached replay that claims to have read the source
    cand = [i for i, t in enumerate(traces) if t['cache'] and sum(1 for e in t['events'] if e['a'] == 'full') >= 2]
    if cand:
        bad = json.loads(json.dumps([traces[cand[0]]]))
        fulls = [e for e in bad[0]['events'] if e['a'] == 'full']
        fulls[1]['pulled'] = True
        r2, v2 = common.validate('StrategyTrace', bad, name='StrategyTraceBad')
        ok = v2[1][0] != 0
        chk.binding_demo = {'corrupted': 'second full pass of a cache=True history marked as having read the source',
                            'verdict': list(v2[1]), 'rejected_as_expected': ok}
        if not ok and not chk.violations:
            raise tlc.MachineryError('binding demo failed: corrupted strategy trace accepted')


def run(tier, seed):
    chk = Check(PID, tier, seed)
    full = tier == 'thorough'
    rng = random.Random(seed)
    r = tlc.require_ok(tlc.run('Strategy', cfg='StrategyMC', timeout=900), 'Strategy')
    tlc.check_coverage(r, ACTIONS, 'Strategy')
    chk.add_tlc(r, 'Strategy', 'StrategyMC', ACTIONS)
    # sensitivity: the design that publishes the chunk list before the sort has finished must violate completeness
    rneg = tlc.run('Strategy', cfg='StrategyEager', timeout=900, coverage=False)
    if not rneg.violated or 'PassesAreComplete' not in str(rneg.violated) + rneg.stdout:
        if not rneg.violated:
            raise tlc.MachineryError('Strategy (eager variant) was expected to violate PassesAreComplete / CacheIsWhole')
    chk.note('negative test: Strategy with CVariant="eager" violates %s' % rneg.violated)
    # unbounded layer: histories of any length / any number of versions (Apalache), Strategy implements StrategyInt (TLC)
    from harness import apalache
    rr = tlc.require_ok(tlc.run('StrategyRef', cfg='StrategyRef', timeout=900), 'StrategyRef')
    chk.add_tlc(rr, 'StrategyRef', 'StrategyRef')
    apalache.inductive(chk, 'StrategyInt', negative=[('CVariant = "atomic"', 'CVariant = "eager"')])
    ra = apalache.check('StrategyInt', 'IndInit', 'CacheReplays', 1, 'ConstInit')
    if not ra.ok:
        raise tlc.MachineryError('apalache: action invariant CacheReplays fails from IndInv: %s' % ra.violated)
    chk.note('apalache: action invariant StrategyInt!CacheReplays holds on every step from IndInv')
    r2 = tlc.require_ok(tlc.run('ExtSort', cfg='ExtSortMCq', timeout=900), 'ExtSort')
    chk.add_tlc(r2, 'ExtSort', 'ExtSortMCq')
    # behaviours for replay
    rg = tlc.run('Strategy', cfg='StrategyGen', timeout=900, workers=1, coverage=False)
    if rg.error or rg.violated:
        raise tlc.MachineryError('StrategyGen: %s' % (rg.error or rg.violated))
    behaviours = [json.loads(json.loads(l)) for l in rg.prints if l.startswith('"{')]
    if len(behaviours) < 100:
        raise tlc.MachineryError('StrategyGen emitted only %d behaviours' % len(behaviours))
    if not full:
        behaviours = [b for i, b in enumerate(behaviours) if i % 4 == seed % 4]
    check_behaviours(chk, behaviours, full, rng)
    # strategy differential on generated inputs
    jc, _x, _l = common.gen('JoinGen', 'JoinGen', outs=('OUT', 'OUT2', 'OUT3'))
    gens = {'join': [c for c in jc if c['lay'] == 'same' and c['op'] == 'join' and c['missing'] == 0],
            'setop': common.gen('SetOpsGen'), 'dedup': common.gen('DedupGen', 'DedupGenq'), 'group': common.gen('GroupGen')}
    profiles = ['ints', 'mixed', 'equalreps'] if not full else ['ints', 'mixed', 'text', 'compound', 'equalreps']
    check_differential(chk, gens, profiles, full, rng)
    check_scale(chk, rng)
    check_edit_consistency(chk)
    traces = record_traces(3000 if full else 400, seed)
    validate_traces(chk, traces, seed)
    chk.exhaustive = full
    chk.assumptions = ['the default call itself is checked against the specifications by C05-C10',
                       'cache clause observed through source version stamps and pull counts of an instrumented source']
    return chk.finish(rule='G(a): 38 sort-backed operator forms x TLC-generated inputs x strategy variants vs the default call '
                           '(2 passes); G(b): maximal behaviours of Strategy.tla (5 steps) on sort (memory, file) and 10 '
                           'sort-backed views over version-stamped probes; V: random sort() histories validated by StrategyTrace')


def replay(path):
    with open(path) as f:
        rp = json.load(f)['replay']
    if rp['kind'] == 'behaviour':
        views, _, _ = _mk_views()
        view = [v for v in views if v[0] == rp['view']][0]
        msg, _ = replay_behaviour(rp['behaviour'], view)
        print(msg or 'holds')
        return 1 if msg else 0
    if rp['kind'] == 'diff':
        op = [o for o in _ops() if o['name'] == rp['op']][0]
        tables = _inputs(rp['opkind'], rp['case'], PROFILES[rp['profile']], rp['occ'])
        with common.private_tmp() as tmp:
            variant = {k: (tmp if k == 'tempdir' else v) for k, v in rp['variant'].items()}
            msg = run_differential(op, tables, variant)
        print(msg or 'holds')
        return 1 if msg else 0
    print('trace replay: rerun ./check C11 with VERIF_SEED=%s' % rp['seed'])
    return 0
