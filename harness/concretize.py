"""Order-embedding profiles: abstract cell (natural, 0 = None) <-> concrete Python value.

Every profile is monotone w.r.t. the ordering of C04 (None < numbers by value < date < bytes <
sequences < text); that the real Comparable orders these representatives this way is itself
established by the C04 check (the ladders below only use classes/ranks C04 covers)."""
import datetime as dt
from decimal import Decimal

ID_BASE = 1000   # row identifiers are ints >= ID_BASE, never mapped


class Unknown(str):
    """What abs() returns for a delivered value that is no representative of the profile: never equal to an
    abstract value (so the comparison with the specification fails and is reported as a violation, not as a
    harness crash), hashable, JSON-serialisable, and ordered after everything else."""

    def __lt__(self, other):
        return isinstance(other, Unknown) and str.__lt__(self, other)

    def __gt__(self, other):
        return not isinstance(other, Unknown) or str.__gt__(self, other)

    def __le__(self, other):
        return self == other or self.__lt__(other)

    def __ge__(self, other):
        return self == other or self.__gt__(other)

    __hash__ = str.__hash__


class Profile(object):
    def __init__(self, name, ladder, variants=None):
        self.name = name
        self.ladder = ladder          # ladder[n] = concrete value for abstract n (ladder[0] is None)
        self.variants = variants      # optional: n -> list of equal representatives
        self._inv = {}
        for n, v in enumerate(ladder):
            self._inv[self._k(v)] = n
        if variants:
            for n, vs in variants.items():
                for v in vs:
                    self._inv[self._k(v)] = n

    @staticmethod
    def _k(v):
        if isinstance(v, list):
            v = tuple(v)
        return (type(v).__name__, repr(v))

    def conc(self, n, occurrence=0):
        if isinstance(n, int) and n >= ID_BASE:
            return n
        if self.variants and n in self.variants:
            vs = self.variants[n]
            return vs[occurrence % len(vs)]
        return self.ladder[n]

    def abs(self, v):
        if isinstance(v, int) and not isinstance(v, bool) and v >= ID_BASE:
            return v
        k = self._k(v)
        if k not in self._inv:
            return Unknown('?unexpected value %s %s' % k)
        return self._inv[k]

    def row(self, cells, occurrence=0):
        return [self.conc(c, occurrence + i) for i, c in enumerate(cells)]

    def absrow(self, row):
        return [self.abs(c) for c in row]


PROFILES = {
    'ints': Profile('ints', [None, 1, 2, 3, 4, 5, 6]),
    'mixed': Profile('mixed', [None, -2.5, True, 3, dt.date(2020, 1, 1), b'b', u'a']),
    'text': Profile('text', [None, u'A', u'a', u'b', u'\xe9', u'中', u'\U0001f600']),
    'compound': Profile('compound', [None, (1, u'x'), (1, u'y'), (2, None), (2, 0), (3,), (3, 1)]),
    'equalreps': Profile('equalreps', [None, 1, 2, 3, 4, 5, 6],
                         variants={1: [1, 1.0, True, Decimal(1)], 2: [2, 2.0, Decimal(2)],
                                   3: [3, 3.0], 4: [4, Decimal(4)]}),
    # -1 and -2 (and -1.0 / -2.0) have the SAME hash in CPython: distinct keys that collide in every hash table
    'collide': Profile('collide', [None, -2, -1, 1, 2, 3, 4], variants={1: [-2, -2.0], 2: [-1, -1.0]}),
}
# profiles whose values are hashable and usable as dictionary keys (hash joins, lookups): all of them
QUICK_PROFILES = ['ints', 'mixed']
ALL_PROFILES = ['ints', 'mixed', 'text', 'compound', 'equalreps', 'collide']


def profile_for(i, names):
    return PROFILES[names[i % len(names)]]
