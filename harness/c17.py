"""C17 - database loads round-trip and are all-or-nothing when the source fails.

TLC:  DbLoad      - todb/appenddb as the DB-API protocol (header pull, DELETE, one INSERT per source pull, commit,
                    connection close for a file-name handle) with explicit transaction semantics; for every prior
                    contents x new rows x failure point (header, each row, exhaustion) x handle kind x commit flag:
                    AllOrNothing, FailureKeepsOld, SuccessIsFinal, NoCommitLeavesPending, durable changes only by Commit.
G:    every terminal behaviour TLC emits is replayed on a real sqlite file with failure injection in the source and a
      recording proxy; a fresh connection reads the table after the call (property level) and after every DB-API call;
      the call sequence is compared with the model's (model level -> DRIFT).
V:    random loads (more rows, random failure points) recorded through the proxy and validated by DbLoadTrace, which
      drives DbLoad's own actions with the logged DB-API events.
"""
import json
import os
import random
import sqlite3

from harness import tlc, common
from harness.core import Check
from harness.probe import ProbeTable, InjectedFailure
from harness.dbproxy import Recorder, Conn

PID = 'C17'
ACTIONS = ['PullHeader', 'Delete', 'InsertNext', 'SourceExhausted', 'Commit', 'Return']


def setup_db(path, prev):
    if os.path.exists(path):
        os.remove(path)
    con = sqlite3.connect(path)
    con.execute('create table t (v integer)')
    con.executemany('insert into t values (?)', [(v,) for v in prev])
    con.commit()
    con.close()


class InjectedTypeError(TypeError):
    """the source pipeline may fail with any exception type, e.g. a TypeError from a converter"""


FAILURES = (InjectedFailure, InjectedTypeError)


def run_load(case, path):
    """Execute one load on a real sqlite file. Returns (outcome, durable, events, extra) where durable is what
    a fresh connection sees after petl's call has returned control."""
    import petl as etl
    setup_db(path, case['prev'])
    rec = Recorder(path)
    fail = case['failAt']
    exc = FAILURES[case.get('exc', 0)]
    src = ProbeTable(['v'], rows=[[v] for v in case['new']], fail_at=(fail - 1) if fail else None, exc=exc)
    fn = etl.todb if case['op'] == 'todb' else etl.appenddb
    h = case['handle']
    conn = None
    real_connect = sqlite3.connect
    try:
        if h == 'filename':
            # petl opens the connection itself: route its sqlite3.connect through the recording proxy
            def connect(p, *a, **k):
                return Conn(rec, real_connect(p, *a, **k))
            sqlite3.connect = connect
            dbo = path
        else:
            conn = Conn(rec)
            dbo = conn if h == 'connection' else (conn.cursor() if h == 'cursor' else (lambda: conn.cursor()))
        try:
            rec_start = len(rec.events)
            fn(src, dbo, 't', commit=case['commit'])
            outcome = 'returned'
        except FAILURES:
            outcome = 'raised'
        except Exception as e:
            outcome = 'error: %r' % (e,)
    finally:
        sqlite3.connect = real_connect
    durable = rec.durable()
    events = [e for e in rec.events if e['ev'] != 'cursor' or True]
    pending_after_user_commit = None
    if conn is not None:
        # the caller owns the connection: with commit=False a later commit by the caller must produce the load
        if outcome == 'returned' and not case['commit']:
            conn._real.commit()
            pending_after_user_commit = rec.durable()
        conn._real.close()
    return outcome, durable, events, pending_after_user_commit


def final_of(case):
    return case['new'] if case['op'] == 'todb' else case['prev'] + case['new']


def check_case(chk, case, path):
    outcome, durable, events, after_commit = run_load(case, path)
    final = final_of(case)
    sig = {'op': case['op'], 'handle': case['handle'], 'commit': case['commit'],
           'fail': 'none' if not case['failAt'] else ('header' if case['failAt'] == 1 else ('exhaustion' if case['failAt'] == len(case['new']) + 2 else 'row'))}
    what = '%s handle=%s commit=%s prev=%r new=%r failAt=%d' % (case['op'], case['handle'], case['commit'], case['prev'], case['new'], case['failAt'])
    msg = None
    if outcome.startswith('error'):
        msg = 'unexpected %s' % outcome
    elif outcome != case['ret']:
        msg = 'call %s, spec %s' % (outcome, case['ret'])
    elif durable != case['durable']:
        msg = 'a fresh connection sees %r after the call, spec %r' % (durable, case['durable'])
    else:
        for e in events:
            if e['durable'] != case['prev'] and e['durable'] != final:
                # visible intermediate state; property-level only if it survives the call (checked above)
                chk.add_drift('%s: intermediate durable state %r after %s' % (what, e['durable'], e['ev']))
                break
        if after_commit is not None and after_commit != final:
            msg = 'commit=False on a caller-owned handle: after the caller commits a fresh connection sees %r, spec %r' % (after_commit, final)
    if msg:
        chk.violation(sig, what + ': ' + msg, {'kind': 'load', 'case': case})
        return
    # model level: DB-API call sequence (without the proxy-only events)
    got = [e['ev'] for e in events if e['ev'] in ('execute_delete', 'insert_row', 'source_exhausted', 'commit')]
    want = [e['ev'] for e in case['hist'] if e['ev'] in ('execute_delete', 'insert_row', 'source_exhausted', 'commit')]
    if got != want:
        chk.add_drift('%s: DB-API call sequence %r, model %r' % (what, got, want))


def _handles(con):
    return [('connection', lambda: con), ('cursor', lambda: con.cursor()), ('mkcurs', lambda: (lambda: con.cursor()))]


def check_extra(chk, tmp):
    """Property-level checks outside the small model's bounds, on real sqlite files read back through a FRESH
    connection: (1) loads of 1000-2100 rows whose source fails far into the table (batch boundaries) - all or nothing;
    (2) schema= naming a table that also exists unqualified (ATTACHed database) - only the named table changes;
    (3) sequences of loads into one table with permuted / different headers - every row lands in its named columns."""
    import petl as etl

    def fresh(path, q):
        c = sqlite3.connect(path)
        try:
            return list(c.execute(q))
        finally:
            c.close()
    # (1) large loads
    n_case = 0
    for n in (1000, 1001, 2100):
        for fail in (0, 1000, 1001, 1002, 2001, n + 1, n + 2):
            if fail > n + 2:
                continue
            for hname in ('filename', 'connection', 'cursor', 'mkcurs'):
                op = ('todb', 'appenddb')[n_case % 2]
                n_case += 1
                if (n_case % 3) and fail not in (1001, 1002):
                    continue                      # rotate; the boundary failures on every handle
                path = os.path.join(tmp, 'big.db')
                prev = [7, 8, 7]
                setup_db(path, prev)
                src = ProbeTable(['v'], rows=[[v] for v in range(1, n + 1)], fail_at=(fail - 1) if fail else None)
                con = None
                try:
                    if hname == 'filename':
                        dbo = path
                    else:
                        con = sqlite3.connect(path)
                        dbo = dict((k, f) for k, f in _handles(con))[hname]()
                    try:
                        getattr(etl, op)(src, dbo, 't')
                        outcome = 'returned'
                    except InjectedFailure:
                        outcome = 'raised'
                    except Exception as e:
                        outcome = 'error %r' % (e,)
                    durable = [r[0] for r in fresh(path, 'select v from t')]
                finally:
                    if con is not None:
                        con.close()
                final = (prev if op == 'appenddb' else []) + list(range(1, n + 1))
                want_out, want = ('raised', prev) if fail else ('returned', final)
                chk.count(('large-load', n, fail, hname, op))
                chk.replayed += 1
                if outcome != want_out or durable != want:
                    chk.violation({'op': op, 'handle': hname, 'commit': True, 'kind': 'large-load'},
                                  '%s handle=%s of %d rows, source failing at pull %d: call %s, a fresh connection sees %d rows %r..; spec: %s, %d rows'
                                  % (op, hname, n, fail, outcome, len(durable), durable[:5], want_out, len(want)),
                                  {'kind': 'large-load', 'n': n, 'fail': fail, 'handle': hname, 'op': op})
    # (2) schema= with an unqualified namesake, (3) header permutations in sequence
    for hname in ('connection', 'cursor', 'mkcurs'):
        for op in ('todb', 'appenddb'):
            pm, px = os.path.join(tmp, 'm.db'), os.path.join(tmp, 'x.db')
            for f in (pm, px):
                if os.path.exists(f):
                    os.remove(f)
            con = sqlite3.connect(pm)
            try:
                con.execute("attach database '%s' as aux" % px)
                con.execute('create table main.t (a integer, b integer)')
                con.execute('create table aux.t (a integer, b integer)')
                con.execute('insert into main.t values (1, 1)')
                con.execute('insert into aux.t values (2, 2)')
                con.commit()
                H = dict(_handles(con))
                msg = None
                try:
                    getattr(etl, op)([['a', 'b'], [5, 6]], H[hname](), 't', schema='aux')
                    getattr(etl, 'appenddb')([['b', 'a'], [7, 8]], H[hname](), 't', schema='aux')
                    getattr(etl, 'appenddb')(etl.cut([['a', 'b'], [9, 10]], 'b', 'a'), H[hname](), 't', schema='aux')
                    getattr(etl, 'appenddb')([['b', 'a'], [11, 12]], H[hname](), 't')
                except Exception as e:
                    msg = 'raised %r' % (e,)
                main_rows, aux_rows = fresh(pm, 'select a, b from t'), fresh(px, 'select a, b from t')
                back = [tuple(r) for r in etl.fromdb(con, 'select a, b from aux.t')][1:]
            finally:
                con.close()
            want_aux = ([(2, 2)] if op == 'appenddb' else []) + [(5, 6), (8, 7), (9, 10)]
            want_main = [(1, 1), (12, 11)]
            chk.count(('schema', hname, op))
            chk.replayed += 1
            if msg is None and (main_rows != want_main or aux_rows != want_aux or back != want_aux):
                msg = 'main.t holds %r (spec %r), aux.t holds %r / fromdb %r (spec %r)' % (main_rows, want_main, aux_rows, back, want_aux)
            if msg:
                chk.violation({'op': op, 'handle': hname, 'commit': True, 'kind': 'schema-sequence'},
                              "%s(.., 't', schema='aux') with a namesake main.t, then appenddb with headers (b, a), cut(b, a) and an unqualified load, handle=%s: %s"
                              % (op, hname, msg), {'kind': 'schema-sequence', 'handle': hname, 'op': op})
    # (4) a load that FAILED leaves nothing behind that a LATER successful load (same file name, another table) could commit
    for op in ('todb', 'appenddb'):
        path = os.path.join(tmp, 'later.db')
        if os.path.exists(path):
            os.remove(path)
        c = sqlite3.connect(path)
        c.execute('create table t1 (v integer)')
        c.execute('create table t2 (v integer)')
        c.executemany('insert into t1 values (?)', [(7,), (8,)])
        c.commit()
        c.close()
        msg = None
        try:
            try:
                getattr(etl, op)(ProbeTable(['v'], rows=[[1], [2], [3]], fail_at=2), path, 't1')
                msg = 'the failing load returned normally'
            except InjectedFailure:
                pass
            mid = [r[0] for r in fresh(path, 'select v from t1')]
            etl.todb([['v'], [100]], path, 't2')
            etl.appenddb([['v'], [101]], path, 't2')
        except Exception as e:
            msg = 'raised %r' % (e,)
        t1_rows = [r[0] for r in fresh(path, 'select v from t1')]
        t2_rows = [r[0] for r in fresh(path, 'select v from t2')]
        chk.count(('later-load', op))
        chk.replayed += 1
        if msg or mid != [7, 8] or t1_rows != [7, 8] or t2_rows != [100, 101]:
            chk.violation({'op': op, 'handle': 'filename', 'commit': True, 'kind': 'later-load'},
                          '%s into t1 fails at its 2nd row, then todb / appenddb into t2 through the same file name: %s t1 holds %r (right after the failure %r), t2 %r; '
                          'spec: t1 [7, 8] throughout, t2 [100, 101]' % (op, msg or '', t1_rows, mid if not msg else '?', t2_rows),
                          {'kind': 'later-load', 'op': op})
    # (5) table names with characters that are special to %-formatting or quoting
    # (4b) megabytes of data through a file-name handle, the source failing near the end: the old (multi-page) contents survive
    for op in ('todb', 'appenddb'):
        path = os.path.join(tmp, 'wide.db')
        if os.path.exists(path):
            os.remove(path)
        c = sqlite3.connect(path)
        c.execute('create table t (v integer, s text)')
        old_rows = [(i, u'o%d' % i + u'x' * 1000) for i in range(300)]
        c.executemany('insert into t values (?, ?)', old_rows)
        c.commit()
        c.close()
        src = ProbeTable(['v', 's'], rows=[[i, u'n%d' % i + u'y' * 1000] for i in range(4000)], fail_at=3900)
        try:
            getattr(etl, op)(src, path, 't')
            outcome = 'returned'
        except InjectedFailure:
            outcome = 'raised'
        except Exception as e:
            outcome = 'error %r' % (e,)
        try:
            got = fresh(path, 'select v, s from t order by rowid')
            ok = got == old_rows
            descr = '%d rows' % len(got)
        except Exception as e:
            ok, descr = False, 'unreadable: %r' % (e,)
        chk.count(('wide-load', op))
        chk.replayed += 1
        if outcome != 'raised' or not ok:
            chk.violation({'op': op, 'handle': 'filename', 'commit': True, 'kind': 'large-load'},
                          '%s of 4000 rows of 1 kB through a file name, source failing at pull 3900: call %s, a fresh connection finds the table %s '
                          '(spec: the 300 old rows unchanged)' % (op, outcome, 'unchanged' if ok else descr), {'kind': 'wide-load', 'op': op})
    # (4c) todb(.., drop=True) without create=True: documented as having no effect
    for fail in (0, 1, 2):
        path = os.path.join(tmp, 'dropflag.db')
        if os.path.exists(path):
            os.remove(path)
        c = sqlite3.connect(path)
        c.execute('create table t (v integer)')
        c.executemany('insert into t values (?)', [(7,), (8,)])
        c.commit()
        c.close()
        try:
            etl.todb(ProbeTable(['v'], rows=[[1], [2]], fail_at=(fail - 1) if fail else None), path, 't', drop=True)
            outcome = 'returned'
        except InjectedFailure:
            outcome = 'raised'
        except Exception as e:
            outcome = 'error %r' % (e,)
        try:
            got = [r[0] for r in fresh(path, 'select v from t')]
        except Exception as e:
            got = 'unreadable: %r' % (e,)
        want_out, want = ('raised', [7, 8]) if fail else ('returned', [1, 2])
        chk.count(('drop-flag', fail))
        chk.replayed += 1
        if outcome != want_out or got != want:
            chk.violation({'op': 'todb', 'handle': 'filename', 'commit': True, 'kind': 'drop-flag'},
                          'todb(.., drop=True) (create left False), source failing at pull %d: call %s, table holds %r; spec %s, %r' % (fail, outcome, got, want_out, want),
                          {'kind': 'drop-flag', 'fail': fail})
    for tname in (u'growth %', u'100%', u'a%%b', u'x%sy', u'we"ird', u'sp ace', u'%(n)s', u'"t"', u'[t]', u"'t'"):
        for hname in ('filename', 'connection', 'cursor', 'mkcurs'):
            path = os.path.join(tmp, 'names.db')
            if os.path.exists(path):
                os.remove(path)
            q = '"%s"' % tname.replace('"', '""')
            c = sqlite3.connect(path)
            c.execute('create table %s (a integer, b integer)' % q)
            neighbour = {u'a%%b': u'a%b', u'"t"': u't', u'[t]': u't', u"'t'": u't'}.get(tname, u'other')
            c.execute('create table "%s" (a integer, b integer)' % neighbour)
            c.execute('insert into %s values (0, 0)' % q)
            c.commit()
            msg = None
            try:
                dbo = path if hname == 'filename' else dict(_handles(c))[hname]()
                etl.todb([['a', 'b'], [1, 2]], dbo, tname)
                etl.appenddb([['b', 'a'], [4, 3]], dbo, tname)
            except Exception as e:
                msg = 'raised %r' % (e,)
            c.close()
            got = fresh(path, 'select a, b from %s' % q)
            others = fresh(path, 'select count(*) from "%s"' % neighbour)[0][0]
            chk.count(('table-name', tname, hname))
            chk.replayed += 1
            if msg or got != [(1, 2), (3, 4)] or others:
                chk.violation({'op': 'todb', 'handle': hname, 'commit': True, 'kind': 'table-name'},
                              'todb then appenddb into the table named %r, handle=%s: %s the table holds %r (spec [(1, 2), (3, 4)]), a neighbouring table %d rows (spec 0)'
                              % (tname, hname, msg or '', got, others), {'kind': 'table-name', 'name': tname, 'handle': hname})
    # (6) fromdb delivers every row of a result beyond any fetch block size, on every handle kind, twice
    path = os.path.join(tmp, 'many.db')
    if os.path.exists(path):
        os.remove(path)
    c = sqlite3.connect(path)
    c.execute('create table t (v integer, w text)')
    c.executemany('insert into t values (?, ?)', [(i, 'r%d' % i) for i in range(2501)])
    c.commit()
    want = [('v', 'w')] + [(i, 'r%d' % i) for i in range(2501)]
    for hname, dbo in (('connection', c), ('mkcurs', lambda: c.cursor()), ('filename', path)):
        for q, n in (('select * from t order by v', 2501), ('select * from t where v < 1000 order by v', 1000), ('select * from t where v < 1001 order by v', 1001),
                     ('select * from t where v < 999 order by v', 999), ('select * from t where v < 0', 0)):
            try:
                v = etl.fromdb(dbo, q)
                p1 = [tuple(r) for r in v]
                p2 = [tuple(r) for r in v]
            except Exception as e:
                p1 = p2 = 'raised %r' % (e,)
            chk.count(('fromdb', hname, n))
            chk.replayed += 1
            if p1 != want[:n + 1] or p2 != want[:n + 1]:
                chk.violation({'op': 'fromdb', 'handle': hname, 'kind': 'fromdb-large'},
                              'fromdb(%s, %r): pass 1 delivered %s rows, pass 2 %s, the query has %d' % (
                                  hname, q, len(p1) - 1 if isinstance(p1, list) else p1, len(p2) - 1 if isinstance(p2, list) else p2, n),
                              {'kind': 'fromdb-large', 'handle': hname, 'n': n})
    c.close()
    # file-name handle: permuted headers in sequence
    path = os.path.join(tmp, 'seq.db')
    if os.path.exists(path):
        os.remove(path)
    c = sqlite3.connect(path)
    c.execute('create table t (a integer, b integer, c integer)')
    c.commit()
    c.close()
    loads = [(['a', 'b', 'c'], [1, 2, 3]), (['c', 'a', 'b'], [6, 4, 5]), (['b', 'c', 'a'], [8, 9, 7]), (['a', 'b', 'c'], [10, 11, 12])]
    msg = None
    try:
        for hdr, row in loads:
            etl.appenddb([hdr, row], path, 't')
    except Exception as e:
        msg = 'raised %r' % (e,)
    got = fresh(path, 'select a, b, c from t')
    chk.count(('sequence', 'filename'))
    chk.replayed += 1
    if msg or got != [(1, 2, 3), (4, 5, 6), (7, 8, 9), (10, 11, 12)]:
        chk.violation({'op': 'appenddb', 'handle': 'filename', 'commit': True, 'kind': 'schema-sequence'},
                      'appenddb of one-row tables with headers (a,b,c), (c,a,b), (b,c,a), (a,b,c) into one table: %s' % (msg or 'table holds %r' % (got,)),
                      {'kind': 'schema-sequence', 'handle': 'filename', 'op': 'appenddb'})


def to_trace(case, outcome, events):
    evs = [{'ev': 'pull_header', 'durable': case['prev']}] if case['failAt'] != 1 else []
    evs += events
    if outcome == 'raised':
        evs = [e for e in evs]
        # where the failure surfaced: after the last proxy event
        last = evs[-1]['durable'] if evs else case['prev']
        # connection close (file-name handle) is logged by the proxy after the failure; keep order: fail event goes
        # right before a trailing close_conn
        if evs and evs[-1]['ev'] == 'close_conn':
            evs.insert(len(evs) - 1, {'ev': 'fail', 'durable': evs[-2]['durable'] if len(evs) > 1 else case['prev']})
        else:
            evs.append({'ev': 'fail', 'durable': last})
    else:
        tail = []
        if evs and evs[-1]['ev'] == 'close_conn':
            tail = [evs.pop()]
        if not case['commit']:
            evs.append({'ev': 'no_commit', 'durable': evs[-1]['durable'] if evs else case['prev']})
        evs.append({'ev': 'return', 'durable': (tail[0]['durable'] if tail else (evs[-1]['durable'] if evs else case['prev']))})
        evs += tail
    return {'prev': case['prev'], 'new': case['new'], 'op': case['op'], 'handle': case['handle'], 'commit': case['commit'],
            'failAt': case['failAt'], 'events': evs}


def record_traces(n, seed, path):
    rng = random.Random(seed)
    traces = []
    for ti in range(n):
        big = ti % 25 == 0          # a few large loads: failures far into the table (batching / chunked commits)
        new = list(range(1, (rng.randrange(150, 320) if big else rng.randrange(0, 9)) + 1))
        case = {'prev': [rng.choice([7, 8]) for _ in range(rng.randrange(0, 4))], 'new': new,
                'op': rng.choice(['todb', 'appenddb']), 'handle': rng.choice(['filename', 'connection', 'cursor', 'mkcurs']),
                'commit': rng.random() < 0.7,
                'failAt': (rng.choice([0, rng.randrange(100, len(new) + 3), len(new) + 2]) if big else rng.choice([0, 0, rng.randrange(1, len(new) + 3)]))}
        case['exc'] = rng.randrange(2)
        outcome, durable, events, _ = run_load(case, path)
        tr = to_trace(case, outcome, events)
        tr['outcome'] = outcome
        tr['final_durable'] = durable
        traces.append(tr)
    return traces


def validate_traces(chk, traces, seed):
    r, verdicts = common.validate('DbLoadTrace', traces)
    chk.add_tlc(r, 'DbLoadTrace')
    for tid, (bad, why, drift) in sorted(verdicts.items()):
        t = traces[tid - 1]
        if bad or t['outcome'].startswith('error'):
            chk.violation({'op': t['op'], 'handle': t['handle'], 'kind': 'trace'},
                          'recorded load rejected by DbLoadTrace at event %d (%s): %r' % (bad, why, t),
                          {'kind': 'trace', 'seed': seed, 'trace': t})
        elif drift:
            chk.add_drift('DB-API trace deviates from DbLoad at event %d: %s %s commit=%s failAt=%d events=%r'
                          % (drift, t['op'], t['handle'], t['commit'], t['failAt'], [e['ev'] for e in t['events']]))
    chk.validated += len(traces)
    chk.sample({'kind': 'db-trace', 'trace': traces[0]})
    cand = [i for i, t in enumerate(traces) if t['outcome'] == 'raised' and t['prev'] and any(e['ev'] == 'fail' for e in t['events'])]
    if cand:
        bad = json.loads(json.dumps([traces[cand[0]]]))
        for e in bad[0]['events']:
            if e['ev'] == 'fail':
                e['durable'] = []          # the failure left an emptied table behind
        r2, v2 = common.validate('DbLoadTrace', bad, name='DbLoadTraceBad')
        ok = v2[1][0] != 0
        chk.binding_demo = {'corrupted': 'durable contents at the failure event replaced by an empty table', 'verdict': list(v2[1]),
                            'rejected_as_expected': ok}
        if not ok and not chk.violations:
            raise tlc.MachineryError('binding demo failed: corrupted db trace accepted')


def run(tier, seed):
    chk = Check(PID, tier, seed)
    full = tier == 'thorough'
    r = tlc.require_ok(tlc.run('DbLoad', cfg='DbLoadMC', timeout=900), 'DbLoad')
    tlc.check_coverage(r, ACTIONS, 'DbLoad')
    chk.add_tlc(r, 'DbLoad', 'DbLoadMC', ACTIONS)
    # unbounded layer: DbLoad implements the integer abstraction DbLoadInt (TLC), whose inductive invariant holds for
    # EVERY number of new rows and every failure point (Apalache); a commit reachable mid-load must break the proof
    from harness import apalache
    rr = tlc.require_ok(tlc.run('DbLoadRef', cfg='DbLoadRef', timeout=900), 'DbLoadRef')
    chk.add_tlc(rr, 'DbLoadRef', 'DbLoadRef')
    apalache.inductive(chk, 'DbLoadInt', cinit=None,
                       negative=[('Commit ==\n  /\\ pc = "commit"', 'Commit ==\n  /\\ pc \\in {"commit", "insert"}')])
    rg = tlc.run('DbLoad', cfg='DbLoadGen', timeout=900, workers=1, coverage=False)
    if rg.error or rg.violated:
        raise tlc.MachineryError('DbLoadGen: %s' % (rg.error or rg.violated))
    cases = [json.loads(json.loads(l)) for l in rg.prints if l.startswith('"{')]
    if len(cases) < 1000:
        raise tlc.MachineryError('DbLoadGen emitted only %d behaviours' % len(cases))
    with common.private_tmp() as tmp:
        path = os.path.join(tmp, 'c17.db')
        for ci, case in enumerate(cases):
            case['exc'] = ci % 2           # alternate the exception type the source fails with
            check_case(chk, case, path)
            chk.count(('load', ci))
            chk.replayed += 1
        chk.sample({'kind': 'load-behaviour', 'case': cases[len(cases) // 2]})
        check_extra(chk, tmp)
        traces = record_traces(2000 if full else 300, seed, path)
        validate_traces(chk, traces, seed)
    chk.exhaustive = True
    chk.assumptions = ['sqlite3 (stdlib) only: no SQLAlchemy / server drivers installed; create=True/drop=True (DDL) outside the statement',
                       'rollback-journal sqlite: a fresh connection can read while another connection holds an uncommitted write']
    return chk.finish(rule='G: every terminal behaviour of DbLoad (prev <= 2 rows x new <= 3 rows x failure at none/header/each row/'
                           'exhaustion x 4 handle kinds x commit flag x todb/appenddb) on a real sqlite file with failure '
                           'injection; V: random loads (<= 8 rows) recorded through the proxy and validated by DbLoadTrace')


def replay(path):
    with open(path) as f:
        rp = json.load(f)['replay']
    if rp['kind'] != 'load':
        print('trace replay: rerun ./check C17 with VERIF_SEED=%s' % rp['seed'])
        return 0
    chk = Check(PID, 'quick', 0)
    with common.private_tmp() as tmp:
        check_case(chk, rp['case'], os.path.join(tmp, 'r.db'))
    return 1 if chk.violations else 0
