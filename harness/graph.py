"""State-graph edge cover (DESIGN.md 2.4 `gen`): TLC dumps the labelled state graph of an implementation-shaped model
(-dump dot,actionlabels); for every transition of the model one shortest behaviour that takes it is extracted, so the
driver can push the real object through EVERY transition the model has."""
import os
import re
from collections import deque

from harness import tlc

_INIT = re.compile(r'^(-?\d+) \[label=.*style = filled\]\s*$', re.M)
_EDGE = re.compile(r'^(-?\d+) -> (-?\d+) \[label="([^"]*)"', re.M)


def edge_cover(module, cfg, timeout=600):
    """Returns (list of action-label paths, TLCResult). Each path is a list like ['Iter(1)', 'NextNoCache(1)', ...]."""
    base = os.path.join(tlc.scratch(), 'graph_%s_%s' % (module, cfg))
    r = tlc.run(module, cfg=cfg, timeout=timeout, dump=base, workers=1, coverage=False)
    if r.error or r.violated:
        raise tlc.MachineryError('%s/%s: %s' % (module, cfg, r.error or r.violated))
    with open(base + '.dot') as f:
        s = f.read()
    os.remove(base + '.dot')
    inits = _INIT.findall(s)
    edges = {}
    for u, v, a in _EDGE.findall(s):
        edges.setdefault(u, []).append((a, v))
    if not inits or not edges:
        raise tlc.MachineryError('%s/%s: empty state graph dump' % (module, cfg))
    # BFS tree
    path = {i: [] for i in inits}
    q = deque(inits)
    while q:
        u = q.popleft()
        for a, v in edges.get(u, []):
            if v not in path:
                path[v] = path[u] + [a]
                q.append(v)
    cover = []
    seen = set()
    for u, outs in edges.items():
        if u not in path:
            continue
        for a, v in outs:
            if (u, a, v) in seen or u == v:
                continue
            seen.add((u, a, v))
            cover.append(path[u] + [a])
    return cover, r


def to_schedule(labels):
    sched = []
    for lab in labels:
        name, _, arg = lab.partition('(')
        i = int(arg.rstrip(')')) if arg else 1
        op = 'iter' if name.startswith('Iter') else ('drop' if name.startswith('Drop') else 'next')
        sched.append([i, op])
    return sched
