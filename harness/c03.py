"""C03 - transformations never modify their inputs or rows already delivered.

TLC:  Heap      - object/heap model of petl's row-assembly idioms (alias, copy-then-edit, private carry row): the action
                  property Immutable (no step changes a frozen object) and SourcesIntact hold; the two defective idioms
                  (edit in place, reused row buffer) are kept as negative tests that TLC must refute.
G+V:  TLC generates every ragged table shape (<= 3 rows, row lengths 0/2/4/5) x prefix length; for each the driver runs
      every catalogue operator over sources made of MUTABLE lists, fully or partially, and after construction and after
      every next() snapshots identity + content digest of all tracked objects (containers, header, source rows, every row
      delivered so far).  The snapshot sequences are validated by TLC (HeapTrace = Heap!Immutable on the recorded heap).
"""
import json
import random
import zlib

from harness import tlc, common, catalogue
from harness.core import Check

PID = 'C03'


def digest(o):
    try:
        s = repr(list(o)) if isinstance(o, (list, tuple)) else repr(o)
    except Exception:
        s = '<unrepr>'
    return zlib.crc32(s.encode('utf-8', 'replace')) & 0x7fffffff


def make_sources(shape):
    """a: ragged mutable rows following the TLC shape; b: rectangular mutable rows."""
    a = [list(catalogue.AH)]
    for i, ln in enumerate(shape, 1):
        full = catalogue.arow(i) + ['extra%d' % i]
        a.append(full[:ln])
    b = [list(catalogue.BH)] + [catalogue.brow(i) for i in range(1, 4)]
    return a, b


def extra_entries():
    """Operators that need mutable CELLS (dicts, lists) in the source: the source table is replaced by one whose third
    column holds dict / list cells with heterogeneous keys / lengths."""
    import petl as etl

    def with_cells(a, kind):
        out = [a[0]]
        for i, r in enumerate(a[1:]):
            r2 = list(r)
            if len(r2) >= 3:
                r2[2] = ({'p': i, 'q': i + 1} if i % 2 == 0 else {'p': i}) if kind == 'dict' else ([i, i + 1, i + 2][:1 + i % 3])
            out.append(r2)
        return out
    E = []

    def add(name, kind, fn):
        E.append({'name': name, 'cells': kind, 'fn': fn})
    add('unpackdict(keys)', 'dict', lambda a, b: etl.unpackdict(a, 'n', keys=['p', 'q', 'r']))
    add('unpackdict(sampled)', 'dict', lambda a, b: etl.unpackdict(a, 'n'))
    add('unpackdict(includeoriginal)', 'dict', lambda a, b: etl.unpackdict(a, 'n', keys=['q'], includeoriginal=True))
    add('unpack(list)', 'list', lambda a, b: etl.unpack(a, 'n', ['u', 'v']))
    add('unpack(list, include_original)', 'list', lambda a, b: etl.unpack(a, 'n', 3, include_original=True))
    add('melt(list cells)', 'list', lambda a, b: etl.melt(a, 'k'))
    add('convert(dict cells)', 'dict', lambda a, b: etl.convert(a, 'n', lambda v: dict(v, z=1)))
    add('sort(list cells)', 'list', lambda a, b: etl.sort(a, 'k'))
    add('dicts(dict cells)', 'dict', lambda a, b: etl.dicts(a))

    # sort-backed operators called with presorted=True: their inputs (fresh, mutable, rectangular lists sorted by key)
    # ARE the sources whose rows must stay untouched
    def presorted(a, b):
        from petl.comparison import Comparable
        def srt(t, w):
            rows = [list(r[:w]) + [None] * (w - len(r[:w])) for r in t[1:]]
            return [list(t[0])] + sorted(rows, key=lambda r: Comparable(r[0]))
        return srt(a, len(a[0])), srt(b, len(b[0]))
    for f in ('join', 'leftjoin', 'rightjoin', 'outerjoin', 'antijoin', 'lookupjoin'):
        E.append({'name': f + '(presorted)', 'cells': None, 'prep': presorted,
                  'fn': (lambda f: lambda a, b: getattr(etl, f)(a, b, key='k', presorted=True))(f)})
    for f in ('complement', 'intersection'):
        E.append({'name': f + '(presorted)', 'cells': None, 'prep': presorted,
                  'fn': (lambda f: lambda a, b: getattr(etl, f)(etl.cut(a, 'k'), etl.cut(b, 'k'), presorted=True))(f)})
    for f in ('duplicates', 'unique', 'distinct'):
        E.append({'name': f + '(presorted)', 'cells': None, 'prep': presorted,
                  'fn': (lambda f: lambda a, b: getattr(etl, f)(a, 'k', presorted=True))(f)})
    E.append({'name': 'aggregate(presorted)', 'cells': None, 'prep': presorted, 'fn': lambda a, b: etl.aggregate(a, 'k', len, presorted=True)})
    E.append({'name': 'mergesort(presorted)', 'cells': None, 'prep': presorted,
              'fn': lambda a, b: etl.mergesort(etl.cut(a, 'k'), etl.cut(b, 'k'), key='k', presorted=True)})
    return E, with_cells


def snapshot(tracked):
    return [[k + 1, digest(o) if not isinstance(o, _Container) else o.digest()] for k, o in enumerate(tracked)]


class _Container(object):
    """the table container itself: its length and the identities of its elements"""

    def __init__(self, t):
        self.t = t

    def digest(self):
        return zlib.crc32(repr([id(r) for r in self.t]).encode()) & 0x7fffffff


def run_entry(e, shape, k):
    """Returns (trace, note). k = number of next() calls on data rows (k > len => full iteration)."""
    a, b = make_sources(shape)
    if e.get('cells'):
        a = extra_entries()[1](a, e['cells'])
    if e.get('prep'):
        a, b = e['prep'](a, b)
    tracked = [_Container(a), _Container(b)] + [r for r in a] + [r for r in b]
    names = ['container a', 'container b'] + ['a[%d]' % i for i in range(len(a))] + ['b[%d]' % i for i in range(len(b))]
    snaps = []
    note = None
    try:
        v = e['fn'](a, b)
        snaps.append(snapshot(tracked))
        it = iter(v)
        n = 0
        while n <= k:                      # header + k data rows
            try:
                row = next(it)
            except StopIteration:
                break
            tracked.append(row)
            names.append('delivered[%d]' % n)
            n += 1
            # objects are append-only in the snapshot; a newly delivered row enters with its current digest
            prev = snaps[-1] + [[len(tracked), digest(row)]]
            snaps[-1] = prev                # it is frozen from now on: compare from its delivery state
            snaps.append(snapshot(tracked))
        del it
    except Exception as ex:
        note = 'operator not applicable to this shape: %r' % (ex,)
        snaps.append(snapshot(tracked))
    # final state after the iterator is gone
    snaps.append(snapshot(tracked))
    # normalise lengths: every snapshot lists all objects tracked at ITS time; pad earlier ones is not needed because
    # HeapTrace compares only the common prefix (objects tracked in the earlier snapshot)
    return {'snaps': snaps}, names, note


def record(chk, cases, full, rng):
    entries = catalogue.entries() + extra_entries()[0]
    nextra = len(extra_entries()[0])
    traces, meta = [], []
    na = 0
    for ci, case in enumerate(cases):
        shape, k = case['shape'], case['k']
        sel = entries if full else ([entries[(ci * 7 + j * 13) % len(entries)] for j in range(30)] + entries[-nextra:])
        for e in sel:
            tr, names, note = run_entry(e, shape, k if k <= len(shape) else 99)
            if note:
                na += 1
            traces.append(tr)
            meta.append({'op': e['name'], 'shape': shape, 'k': k, 'names': names, 'note': note})
            chk.count(('heap', e['name'], json.dumps(shape), k))
    chk.note('%d of %d runs ended early because the operator rejects the ragged shape (still checked for mutation up to that point)' % (na, len(traces)))
    return traces, meta


def validate(chk, traces, meta, seed):
    # HeapTrace compares consecutive snapshots position-wise over the earlier snapshot's objects
    r, verdicts = common.validate('HeapTrace', traces)
    chk.add_tlc(r, 'HeapTrace')
    for tid, (bad, who) in sorted(verdicts.items()):
        if bad:
            m = meta[tid - 1]
            chk.violation({'op': m['op'], 'kind': 'mutation'},
                          '%s over shape %r (k=%d): object %s changed at step %d' % (m['op'], m['shape'], m['k'], m['names'][who - 1] if who else '?', bad),
                          {'kind': 'heap', 'op': m['op'], 'shape': m['shape'], 'k': m['k']})
    chk.validated += len(traces)
    chk.replayed += len(traces)
    chk.sample({'kind': 'heap-trace', 'op': meta[0]['op'], 'shape': meta[0]['shape'], 'k': meta[0]['k'], 'snaps': traces[0]['snaps'][:3]})
    cand = [i for i, t in enumerate(traces) if len(t['snaps']) >= 3]
    bad = json.loads(json.dumps([traces[cand[0]]]))
    bad[0]['snaps'][-1][2][1] ^= 1            # a source row changed content at the very end
    r2, v2 = common.validate('HeapTrace', bad, name='HeapTraceBad')
    ok = v2[1][0] != 0
    chk.binding_demo = {'corrupted': 'digest of a source row flipped in the last snapshot', 'verdict': list(v2[1]), 'rejected_as_expected': ok}
    if not ok and not chk.violations:
        raise tlc.MachineryError('binding demo failed: mutated heap trace accepted')


def run(tier, seed):
    chk = Check(PID, tier, seed)
    full = tier == 'thorough'
    rng = random.Random(seed)
    for idiom in ('alias', 'copy', 'carry'):
        r = tlc.require_ok(tlc.run('Heap', cfg='Heap_' + idiom, timeout=300), 'Heap/' + idiom)
        chk.add_tlc(r, 'Heap', 'Heap_' + idiom)
    for idiom in ('inplace', 'reuse'):
        r = tlc.run('Heap', cfg='Heap_' + idiom, timeout=300)
        if r.error:
            raise tlc.MachineryError('Heap/%s: %s' % (idiom, r.error))
        if not r.violated:
            raise tlc.MachineryError('Heap/%s (defective idiom) passed: the property lost its sensitivity' % idiom)
        chk.note('negative test: idiom "%s" violates %s' % (idiom, r.violated))
    cases = common.gen('HeapGen')
    if not full:
        cases = rng.sample(cases, 120)
    traces, meta = record(chk, cases, full, rng)
    validate(chk, traces, meta, seed)
    chk.exhaustive = full
    chk.assumptions = ['user callables are trusted not to mutate their arguments', 'content digest = crc32 of repr (rows are lists/tuples of reprable cells)']
    return chk.finish(rule='TLC-generated (shape, prefix length) x catalogue operators (all 140 in thorough, a rotating 30 per shape '
                           'in quick); snapshots after construction, every next() and release, validated by HeapTrace')


def replay(path):
    with open(path) as f:
        rp = json.load(f)['replay']
    e = dict(catalogue.by_name(), **{x['name']: x for x in extra_entries()[0]})[rp['op']]
    tr, names, note = run_entry(e, rp['shape'], rp['k'] if rp['k'] <= len(rp['shape']) else 99)
    bad = 0
    for i in range(len(tr['snaps']) - 1):
        a, b = tr['snaps'][i], tr['snaps'][i + 1]
        for j in range(len(a)):
            if a[j] != b[j]:
                print('object %s changed at step %d' % (names[j], i + 1))
                bad = 1
    print('holds' if not bad else 'violated')
    return bad
