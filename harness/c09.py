"""C09 - grouping and aggregation conserve rows: each row in exactly one group.

TLC:  GroupBy    - stable key sort + groupby scan (one action per row) against the partition definition
                   (GroupDefs): one group per key, ascending, members in input order, every row exactly once,
                   groupselectmin/max's two-sort pipeline = the definition's selection; sensitivity run on the
                   model of the code as found (F9: presorted forwarded to the inner key sort).
G:    GroupGen   - every small table x key form with its partition; the real aggregate (all spec forms),
                   rowreduce, rowgroupmap, fold, groupselect*, mergeduplicates, merge, groupcountdistinctvalues,
                   valuecounts/valuecounter are run and each output value must equal the aggregation function
                   applied to exactly the spec's group rows.
V:    GroupTrace - Hypothesis tables; groups captured by identity-collecting aggregators, validated by TLC.
"""
import json
import random
import operator
from collections import OrderedDict

from harness import tlc, values, common
from harness.core import Check
from harness.concretize import PROFILES, ID_BASE

PID = 'C09'
ACTIONS = ['Sort', 'ScanStep', 'ScanEnd']
HDR = ['k', 'j', 'n']
KEYARG = {'k': 'k', 'kj': ('k', 'j')}


def crow(prof, r, occ=0):
    return [prof.conc(r[0], occ), prof.conc(r[1], occ + 1), r[2]]


def keycells(prof, g, kf):
    return [prof.conc(c) for c in g['key']]


def run_case(case, pname, variant, occ=0):
    import petl as etl
    from petl.transform.reductions import Conflict
    prof = PROFILES[pname]
    t = [list(HDR)] + [crow(prof, r, occ + i) for i, r in enumerate(case['rows'])]
    kf = case['key']
    key = KEYARG[kf]
    nk = len(case['groups'][0]['key']) if case['groups'] else (1 if kf == 'k' else 2)
    kw = dict(variant)
    if kw.pop('presorted', False):
        t = list(etl.sort(t, key))
        kw = {'presorted': True}
    if kw.pop('inputs', None) == 'revsorted':
        # the input is itself a view: a DESCENDING (stable) sort view on the grouping key; the operator sorts for itself
        t = etl.sort(t, key, reverse=True)
    problems = []
    G = case['groups']

    def absrow(r):
        r = list(r)
        return tuple([prof.abs(c) for c in r[:2]] + r[2:])

    def grows(g):
        return [tuple(r) for r in g['rows']]      # abstract rows (k, j, n)

    def eq(label, got, want):
        if got != want:
            problems.append('%s delivered %r, spec %r' % (label, got, want))

    def tab(label, fn, hdr, rowfn):
        """run fn() -> table; compare header and one row per spec group (ascending key order)."""
        try:
            rows = [tuple(r) for r in fn()]
        except Exception as e:
            problems.append('%s raised %r' % (label, e))
            return
        want = [tuple(hdr)] + [tuple(rowfn(g)) for g in G]
        got = [rows[0]] + [tuple(_abs_key(prof, r, nk)) for r in rows[1:]] if rows else rows
        eq(label, got, want)

    khdr = list(key) if isinstance(key, tuple) else [key]
    kabs = lambda g: list(g['key'])
    kk = kabs
    ns = lambda g: [r[2] for r in g['rows']]
    # --- aggregate, simple forms
    tab('aggregate(len)', lambda: etl.aggregate(t, key, len, **kw), khdr + ['value'], lambda g: kk(g) + [len(g['rows'])])
    tab('aggregate(sum,n)', lambda: etl.aggregate(t, key, sum, 'n', **kw), khdr + ['value'], lambda g: kk(g) + [sum(ns(g))])
    tab('aggregate(list,n)', lambda: etl.aggregate(t, key, list, 'n', **kw), khdr + ['value'], lambda g: kk(g) + [ns(g)])
    tab('aggregate(max,n,field=m)', lambda: etl.aggregate(t, key, max, 'n', field='m', **kw), khdr + ['m'],
        lambda g: kk(g) + [max(ns(g))])
    # --- the same operators with the key given by field INDEX (0 / (0, 1)): rows must be identical; the
    #     header cell of an index key is whatever the operator echoes, so only data rows are compared
    ikey = 0 if kf == 'k' else (0, 1)

    def rows_only(label, fn, rowfn):
        try:
            rows = [tuple(r) for r in fn()]
        except Exception as e:
            problems.append('%s raised %r' % (label, e))
            return
        eq(label, [tuple(_abs_key(prof, r, nk)) for r in rows[1:]], [tuple(rowfn(g)) for g in G])
    rows_only('aggregate(len,key=index)', lambda: etl.aggregate(t, ikey, len, **kw), lambda g: kk(g) + [len(g['rows'])])
    rows_only('aggregate(list,n,key=index)', lambda: etl.aggregate(t, ikey, list, 'n', **kw), lambda g: kk(g) + [ns(g)])
    # key AND value by index over a table whose value field comes first (n, k, j): indices refer to the table as given
    tp = [list(r)[2:3] + list(r)[0:2] for r in t]
    pkey = 1 if kf == 'k' else (1, 2)
    rows_only('aggregate(list,value=index 0,key=index %r)' % (pkey,), lambda: etl.aggregate(tp, pkey, list, 0, **kw), lambda g: kk(g) + [ns(g)])
    rows_only('aggregate(sum,value=index 0,key=index %r)' % (pkey,), lambda: etl.aggregate(tp, pkey, sum, 0, **kw), lambda g: kk(g) + [sum(ns(g))])
    rows_only('aggregate(dict,key=index)', lambda: etl.aggregate(t, ikey, OrderedDict([('c', len), ('s', ('n', sum))]), **kw),
              lambda g: kk(g) + [len(g['rows']), sum(ns(g))])
    rows_only('rowreduce(key=index)', lambda: etl.rowreduce(t, ikey, lambda k, rows: (list(k) if isinstance(k, tuple) and nk > 1 else [k]) + [sum(r[2] for r in rows)],
                                                           header=khdr + ['tot'], **kw), lambda g: kk(g) + [sum(ns(g))])
    try:
        got = [tuple(r) for r in etl.groupselectfirst(t, ikey, **kw)]
        eq('groupselectfirst(key=index)', [absrow(r) for r in got[1:]], [tuple(g['first']) for g in G])
        got = [tuple(r) for r in etl.groupselectmax(t, ikey, 2, **kw)]
        eq('groupselectmax(key=index)', [absrow(r) for r in got[1:]], [tuple(g['maxrow']) for g in G])
    except Exception as e:
        problems.append('groupselect(key=index) raised %r' % (e,))
    # --- aggregate, multi forms (dict / list of tuples / setitem)
    agg = OrderedDict([('cnt', len), ('tot', ('n', sum)), ('ns', 'n'), ('mn', ('n', min)), ('pairs', (('n', 'n'), list))])
    tab('aggregate(dict)', lambda: _listify(etl.aggregate(t, key, agg, **kw)), khdr + list(agg),
        lambda g: kk(g) + [len(g['rows']), sum(ns(g)), ns(g), min(ns(g)), [(r[2], r[2]) for r in g['rows']]])
    aggl = [('cnt', len), ('tot', 'n', sum), ('ns', 'n')]
    tab('aggregate(list-of-tuples)', lambda: etl.aggregate(t, key, aggl, **kw), khdr + ['cnt', 'tot', 'ns'],
        lambda g: kk(g) + [len(g['rows']), sum(ns(g)), ns(g)])

    def setitem_form():
        v = etl.aggregate(t, key, **kw)
        v['cnt'] = len
        v['tot'] = 'n', sum
        return v
    tab('aggregate(setitem)', setitem_form, khdr + ['cnt', 'tot'], lambda g: kk(g) + [len(g['rows']), sum(ns(g))])
    # --- key=None: one row for the whole table (documented single row)
    if not kw:
        n = len(case['rows'])
        try:
            eq('aggregate(None,len)', [tuple(r) for r in etl.aggregate(t, None, len)], [('value',), (n,)])
            eq('aggregate(None,sum,n)', [tuple(r) for r in etl.aggregate(t, None, sum, 'n')],
               [('value',), (sum(r[2] for r in case['rows']),)])
            got = [tuple(r) for r in etl.aggregate(t, None, OrderedDict([('cnt', len), ('tot', ('n', sum))]))]
            want = [('cnt', 'tot')] + ([(n, sum(r[2] for r in case['rows']))] if n else [])
            eq('aggregate(None,dict)', got, want)
        except Exception as e:
            problems.append('aggregate(key=None) raised %r' % (e,))
    # --- rowreduce / rowgroupmap / fold
    tab('rowreduce', lambda: etl.rowreduce(t, key, lambda k, rows: (list(k) if isinstance(k, tuple) and nk > 1 else [k]) + [sum(r[2] for r in rows)],
                                           header=khdr + ['tot'], **kw),
        khdr + ['tot'], lambda g: kk(g) + [sum(ns(g))])
    try:
        got = [tuple(r) for r in etl.rowgroupmap(t, key, lambda k, rows: [tuple(r) for r in rows], header=HDR, **kw)]
        want = [tuple(HDR)] + [tuple(r) for g in G for r in g['rows']]
        eq('rowgroupmap', [got[0]] + [absrow(r) for r in got[1:]], want)
    except Exception as e:
        problems.append('rowgroupmap raised %r' % (e,))
    try:
        got = [tuple(r) for r in etl.fold(t, key, operator.add, 'n', **kw)]
        want = [('key', 'value')] + [((tuple(g['key']) if nk > 1 else g['key'][0]), sum(ns(g))) for g in G]
        got = [got[0]] + [((tuple(prof.abs(c) for c in r[0]) if nk > 1 else prof.abs(r[0])), r[1]) for r in got[1:]]
        eq('fold', got, want)
    except Exception as e:
        problems.append('fold raised %r' % (e,))
    # --- selections: members of their group, and exactly the definition's choice
    for name, fld in (('groupselectfirst', 'first'), ('groupselectlast', 'last')):
        try:
            got = [tuple(r) for r in getattr(etl, name)(t, key, **kw)]
            eq(name, [got[0]] + [absrow(r) for r in got[1:]], [tuple(HDR)] + [tuple(g[fld]) for g in G])
        except Exception as e:
            problems.append('%s raised %r' % (name, e))
    for name, fld in (('groupselectmin', 'minrow'), ('groupselectmax', 'maxrow')):
        try:
            got = [tuple(r) for r in getattr(etl, name)(t, key, 'n', **kw)]
            eq(name + ('(presorted)' if kw.get('presorted') else ''),
               [got[0]] + [absrow(r) for r in got[1:]], [tuple(HDR)] + [tuple(g[fld]) for g in G])
        except Exception as e:
            problems.append('%s raised %r' % (name, e))
    # --- mergeduplicates / merge
    def merged_row(g):
        out = list(g['key'])
        for code in g['merged']:
            if code[0] == 'missing':
                out.append(None)
            elif code[0] == 'value':
                out.append(code[1])
            else:
                out.append(('conflict', tuple(code[1])))
        return out

    def norm_merged(r):
        out = []
        for i, c in enumerate(r):
            if isinstance(c, Conflict):
                vals = sorted((prof.abs(x) if i < 2 else x) for x in c)
                out.append(('conflict', tuple(vals)))
            elif i < 2:
                out.append(None if c is None and i >= nk else prof.abs(c))
            else:
                out.append(c)
        return tuple(out)
    mh = khdr + [f for f in HDR if f not in khdr]

    def merged_want():
        rows = []
        for g in G:
            r = merged_row(g)
            # value fields: j (if not a key field) is a profile cell, n is raw
            out = list(r[:nk])
            for i, c in enumerate(r[nk:]):
                out.append(c)
            rows.append(tuple(out))
        return [tuple(mh)] + rows
    try:
        got = [tuple(r) for r in etl.mergeduplicates(t, key, **kw)]
        eq('mergeduplicates', [got[0]] + [_norm_merge(prof, r, nk, Conflict) for r in got[1:]], merged_want())
        if not kw and isinstance(t, list):
            half = len(t) // 2 + 1
            got = [tuple(r) for r in etl.merge([HDR] + t[1:half], [HDR] + t[half:], key=key)]
            eq('merge', [got[0]] + [_norm_merge(prof, r, nk, Conflict) for r in got[1:]], merged_want())
        if not kw and isinstance(t, list):
            # a non-default `missing` whose occurrences in the data are EQUAL to it but not the same object
            def fresh(c, i):
                return int('-9999') if (c is None and i >= nk_pos) else c
            nk_pos = max(HDR.index(f) for f in khdr) + 1
            keypos = [HDR.index(f) for f in khdr]
            tm = [list(HDR)] + [[(int('-9999') if (c is None and i not in keypos) else c) for i, c in enumerate(r)] for r in t[1:]]
            got = [tuple(r) for r in etl.mergeduplicates(tm, key, missing=int('-9999'))]
            back = [tuple((None if (type(c) is int and c == -9999) else c) for c in r) for r in got[1:]]
            eq('mergeduplicates(missing=-9999)', [got[0]] + [_norm_merge(prof, r, nk, Conflict) for r in back], merged_want())
    except Exception as e:
        problems.append('mergeduplicates/merge raised %r' % (e,))
    # --- groupcountdistinctvalues, valuecounts, valuecounter
    tab('groupcountdistinctvalues', lambda: etl.groupcountdistinctvalues(t, key, 'n'), khdr + ['value'],
        lambda g: kk(g) + [len(set(ns(g)))]) if (not kw and kf == 'k') else None   # documented for a single key field
    if not kw and kf == 'k':
        try:
            vc = etl.valuecounter(t, 'k')
            got = sorted((prof.abs(k), c) for k, c in vc.items())
            eq('valuecounter', got, sorted((g['key'][0], len(g['rows'])) for g in G))
            rows = [tuple(r) for r in etl.valuecounts(t, 'k')]
            got = sorted((prof.abs(r[0]), r[1]) for r in rows[1:])
            eq('valuecounts', got, sorted((g['key'][0], len(g['rows'])) for g in G))
            if sum(r[1] for r in rows[1:]) != len(case['rows']):
                problems.append('valuecounts counts do not add up to nrows')
        except Exception as e:
            problems.append('valuecounts raised %r' % (e,))
    return problems


def _abs_key(prof, r, nk):
    r = list(r)
    return [prof.abs(c) for c in r[:nk]] + [_deep(c) for c in r[nk:]]


def _deep(c):
    if isinstance(c, tuple):
        return [_deep(x) for x in c] if False else c
    return c


def _listify(table):
    """aggregate(..., list) over (k, n) pairs yields tuples with concrete k: abstract them lazily."""
    return table


def _norm_merge(prof, r, nk, Conflict):
    out = []
    for i, c in enumerate(r):
        is_cell = (i < nk) or (nk == 1 and i == 1)      # k / j columns hold profile cells, n is raw
        if isinstance(c, Conflict):
            out.append(('conflict', tuple(sorted((prof.abs(x) if is_cell else x) for x in c))))
        elif is_cell and not (c is None and i >= nk):
            out.append(prof.abs(c))
        else:
            out.append(c)
    return tuple(out)


def _job(j):
    ci, case, pname, variant = j
    return run_case(case, pname, variant, occ=ci)


def check_cases(chk, cases, profiles, full):
    variants = [{}, {'buffersize': 1}, {'buffersize': 2, 'cache': False}, {'presorted': True}, {'inputs': 'revsorted'}]
    jobs = []
    for ci, case in enumerate(cases):
        combos = [(p, v) for p in profiles for v in variants] if full else \
            [(profiles[ci % len(profiles)], {}), (profiles[(ci + 1) % len(profiles)], variants[1 + ci % 4])]
        jobs += [(ci, case, pname, variant) for pname, variant in combos]
    for (ci, case, pname, variant), probs in zip(jobs, common.pmap(_job, jobs)):
        if True:
            chk.count(('group', ci, pname, json.dumps(variant, sort_keys=True)))
            chk.replayed += 1
            for p in probs:
                chk.violation({'op': p.split(' ')[0]},
                              'rows=%r key=%r profile=%s variant=%r: %s' % (case['rows'], KEYARG[case['key']], pname, variant, p),
                              {'kind': 'group', 'case': case, 'profile': pname, 'variant': variant, 'occ': ci})
    chk.sample({'kind': 'group-case', 'case': cases[len(cases) // 2]})


def record_traces(n_examples, seed):
    import petl as etl
    from hypothesis import given, strategies as st, seed as hseed
    traces, concrete = [], []
    cell = common.cell_values()
    ops = ['aggregate', 'aggregate-multi', 'rowreduce', 'rowgroupmap', 'fold']

    @hseed(seed)
    @common.hyp_settings(n_examples, seed)
    @given(st.lists(cell, max_size=25), st.sampled_from(ops), st.sampled_from([None, 1, 3]))
    def go(keys, op, bs):
        keys = [keys[i // 2] if i % 3 == 0 else k for i, k in enumerate(keys)]
        try:
            abst = values.abstract_batch(keys)
        except (TypeError, ValueError, ArithmeticError):
            return
        t = [['k', 'id']] + [[k, i + 1] for i, k in enumerate(keys)]
        groups, counts, raised = [], [], None
        with common.private_tmp() as tmp:
            kw = dict(buffersize=bs, tempdir=tmp)
            try:
                if op == 'aggregate':
                    rows = list(etl.data(etl.aggregate(t, 'k', list, 'id', **kw)))
                    groups = [list(r[1]) for r in rows]
                    counts = [r[1] for r in etl.data(etl.aggregate(t, 'k', len, **kw))]
                elif op == 'aggregate-multi':
                    rows = list(etl.data(etl.aggregate(t, 'k', OrderedDict([('ids', 'id'), ('c', len)]), **kw)))
                    groups = [list(r[1]) for r in rows]
                    counts = [r[2] for r in rows]
                elif op == 'rowreduce':
                    rows = list(etl.data(etl.rowreduce(t, 'k', lambda k, rs: [k, [r[1] for r in rs]], header=['k', 'ids'], **kw)))
                    groups = [list(r[1]) for r in rows]
                    counts = [len(g) for g in groups]
                elif op == 'rowgroupmap':
                    rows = list(etl.data(etl.rowgroupmap(t, 'k', lambda k, rs: [[k, [r[1] for r in rs]]], header=['k', 'ids'], **kw)))
                    groups = [list(r[1]) for r in rows]
                    counts = [len(g) for g in groups]
                else:
                    rows = list(etl.data(etl.fold(t, 'k', lambda a, b: (a if isinstance(a, list) else [a]) + [b], 'id', **kw)))
                    groups = [r[1] if isinstance(r[1], list) else [r[1]] for r in rows]
                    counts = [len(g) for g in groups]
            except Exception as e:
                raised = repr(e)
                groups, counts = [], []
        traces.append({'K': abst, 'groups': groups, 'counts': counts, 'ordered': True, 'raised': raised is not None, 'exc': raised or ''})
        concrete.append({'op': op, 'keys': [repr(k) for k in keys], 'buffersize': bs})
    go()
    # LARGE tables: the chunked sort behind the grouping operators with > 64 chunk files / > 256 rows per chunk
    rng = random.Random(seed)
    for n, bs in ((343, 3), (400, 4), (700, 300), (130, 1)):
        keys = [rng.choice([None, 1, 2, 3, u'x', 2.5]) for _ in range(n)]
        t = [['k', 'id']] + [[k, i + 1] for i, k in enumerate(keys)]
        raised = None
        with common.private_tmp() as tmp:
            try:
                rows = list(etl.data(etl.aggregate(t, 'k', list, 'id', buffersize=bs, tempdir=tmp)))
                groups = [list(r[1]) for r in rows]
                counts = [r[1] for r in etl.data(etl.aggregate(t, 'k', len, buffersize=bs, tempdir=tmp))]
            except Exception as e:
                raised, groups, counts = repr(e), [], []
        traces.append({'K': values.abstract_batch(keys), 'groups': groups, 'counts': counts, 'ordered': True,
                       'raised': raised is not None, 'exc': raised or ''})
        concrete.append({'op': 'aggregate(list) large', 'keys': '%d rows over 6 key values' % n, 'buffersize': bs})
    return traces, concrete


def validate_traces(chk, traces, concrete, seed):
    if not traces:
        raise tlc.MachineryError('no group traces recorded')
    r, verdicts = common.validate('GroupTrace', traces)
    chk.add_tlc(r, 'GroupTrace')
    for tid, (bad, why) in sorted(verdicts.items()):
        tr = traces[tid - 1]
        if bad or tr['raised']:
            chk.violation({'op': concrete[tid - 1]['op'], 'kind': 'trace'},
                          'recorded grouping execution rejected by GroupTrace (clause %s%s): %r groups=%r'
                          % (why, (', raised ' + tr['exc']) if tr['raised'] else '', concrete[tid - 1], tr['groups']),
                          {'kind': 'trace', 'seed': seed, 'concrete': concrete[tid - 1], 'trace': tr})
    chk.validated += len(traces)
    chk.sample({'kind': 'trace', 'concrete': concrete[len(concrete) // 2], 'groups': traces[len(traces) // 2]['groups']})
    cand = [i for i, t in enumerate(traces) if len(t['groups']) >= 2]
    if cand:
        bad = json.loads(json.dumps([traces[cand[0]]]))
        bad[0]['groups'][0], bad[0]['groups'][1] = bad[0]['groups'][1], bad[0]['groups'][0]
        r2, v2 = common.validate('GroupTrace', bad, name='GroupTraceBad')
        ok = v2[1][0] == 1
        chk.binding_demo = {'corrupted': 'first two recorded groups swapped', 'verdict': list(v2[1]), 'rejected_as_expected': ok}
        if not ok and not chk.violations:
            raise tlc.MachineryError('binding demo failed: corrupted group trace accepted')


def sensitivity(chk):
    r = tlc.run('GroupBy', cfg='GroupByOrig', timeout=600)
    if r.error:
        raise tlc.MachineryError('GroupByOrig: ' + r.error)
    if not r.violated:
        raise tlc.MachineryError('GroupByOrig (model of groupselectmin/max forwarding presorted) passed: spec lost its sensitivity')
    chk.note('sensitivity: GroupBy with Variant="orig" violates %s (groupselectmin/max with presorted=True)' % r.violated)


def run(tier, seed):
    chk = Check(PID, tier, seed)
    full = tier == 'thorough'
    cfg = 'GroupByMC' if full else 'GroupByMCq'
    r = tlc.require_ok(tlc.run('GroupBy', cfg=cfg, timeout=1800), 'GroupBy')
    tlc.check_coverage(r, ACTIONS, 'GroupBy')
    chk.add_tlc(r, 'GroupBy', cfg, ACTIONS)
    sensitivity(chk)
    cases = common.gen('GroupGen')
    profiles = ['ints', 'mixed', 'text', 'compound', 'equalreps'] if full else ['ints', 'mixed', 'compound']
    check_cases(chk, cases, profiles, full)
    traces, concrete = record_traces(2500 if full else 300, seed)
    validate_traces(chk, traces, concrete, seed)
    chk.exhaustive = True
    chk.assumptions = ['itertools.groupby semantics (adjacent equal keys) trusted; sort covered by C05',
                       'aggregation functions are the caller\'s: expected value = the same function applied to the spec\'s group rows',
                       'bounds: scan model <= %d rows over 3 keys x 3 values; generated tables <= 3 rows over 12 distinct rows' % (5 if full else 4)]
    return chk.finish(rule='G: every TLC-generated (table, key form) x ~25 operator calls x value profile x strategy variant; '
                           'V: Hypothesis tables (<= 25 rows) with identity-collecting aggregators validated by GroupTrace')


def replay(path):
    with open(path) as f:
        rp = json.load(f)['replay']
    if rp['kind'] == 'group':
        probs = run_case(rp['case'], rp['profile'], rp['variant'], rp['occ'])
        print('\n'.join(probs) or 'holds')
        return 1 if probs else 0
    print('trace replay: rerun ./check C09 with VERIF_SEED=%s; concrete: %r' % (rp['seed'], rp['concrete']))
    return 0
