"""Result accumulation, verdict rules (DESIGN.md 2.5), evidence and replay files, known findings."""
import json
import os
import sys
import time

ROOT = os.path.dirname(os.path.dirname(os.path.abspath(__file__)))
# VERIF_OUT redirects evidence/replay output (mutation self-tests must not overwrite the real evidence)
OUT = os.environ.get('VERIF_OUT', ROOT)
EVIDENCE = os.path.join(OUT, 'evidence')
REPLAYS = os.path.join(OUT, 'replays')
FINDINGS = os.path.join(ROOT, 'known_findings.json')
PRINTED = [0]        # VIOLATION lines printed by this process (a later machinery failure must not mask them)


def load_findings():
    if not os.path.exists(FINDINGS):
        return []
    with open(FINDINGS) as f:
        return json.load(f)


def _matches(sig, match):
    """A finding matches a violation when every key of finding.match equals the violation's
    signature entry (lists in the finding = any-of)."""
    for k, v in match.items():
        if k not in sig:
            return False
        if isinstance(v, list) and not isinstance(sig[k], list):
            if sig[k] not in v:
                return False
        elif sig[k] != v:
            return False
    return True


def jsonable(x):
    """Render arbitrary python values for replay/evidence files."""
    if x is None or isinstance(x, (bool, int, str)):
        return x
    if isinstance(x, float):
        return x if x == x and abs(x) != float('inf') else repr(x)
    if isinstance(x, (list, tuple)):
        return [jsonable(i) for i in x]
    if isinstance(x, dict):
        return {str(k): jsonable(v) for k, v in x.items()}
    return repr(x)


class Check(object):
    """One run of one property's check."""

    def __init__(self, pid, tier, seed):
        self.pid = pid
        self.tier = tier
        self.seed = seed
        self.t0 = time.time()
        self.states = 0
        self.transitions = 0
        self.depth = 0
        self.tlc_runs = []          # [{module, cfg, states, transitions, depth, wall, coverage}]
        self.replayed = 0           # spec behaviours / cases replayed on the implementation (G)
        self.validated = 0          # implementation traces validated against the spec (V)
        self.evaluations = 0
        self.distinct = set()
        self.samples = []
        self.violations = []        # [{sig, what, replay}]
        self.known = {}             # finding id -> count
        self.drift = []
        self.notes = []
        self.assumptions = []
        self.binding_demo = None
        self.exhaustive = False
        self.findings = [f for f in load_findings() if f.get('property') == pid]
        self._nviol_files = 0
        if os.path.isdir(REPLAYS):   # stale replay files of an earlier run of this check/tier
            for fn in os.listdir(REPLAYS):
                if fn.startswith('%s_%s_' % (pid, tier)):
                    os.remove(os.path.join(REPLAYS, fn))

    # -- TLC bookkeeping -------------------------------------------------------------------
    def add_tlc(self, r, module, cfg=None, actions=None):
        self.states += r.distinct
        self.transitions += r.generated
        self.depth = max(self.depth, r.depth)
        cov = {k: v[1] for k, v in r.coverage.items()}
        if actions is not None:
            cov = {k: cov.get(k, 0) for k in actions}
        self.tlc_runs.append({'module': module, 'cfg': cfg or module, 'distinct_states': r.distinct,
                              'states_generated': r.generated, 'depth': r.depth,
                              'wall_s': round(r.wall, 2), 'action_coverage': cov})

    # -- cases -----------------------------------------------------------------------------
    def count(self, key=None, n=1):
        self.evaluations += n
        if key is not None:
            self.distinct.add(key)

    def sample(self, s, limit=6):
        if len(self.samples) < limit:
            self.samples.append(jsonable(s))

    def note(self, s):
        self.notes.append(s)

    def add_drift(self, s, limit=20):
        if len(self.drift) < limit:
            self.drift.append(s)

    # -- verdicts --------------------------------------------------------------------------
    def violation(self, sig, what, replay):
        """Property-level disagreement. `sig` identifies the failing input/call-site/history for
        known-findings matching; `replay` is a JSON-able dict that `./check <id> --replay` reruns."""
        for f in self.findings:
            if f.get('status') == 'open' and _matches(sig, f.get('match', {})):
                self.known[f['id']] = self.known.get(f['id'], 0) + 1
                return False
        if len(self.violations) < 25:
            self._nviol_files += 1
            os.makedirs(REPLAYS, exist_ok=True)
            path = os.path.join(REPLAYS, '%s_%s_%d.json' % (self.pid, self.tier, self._nviol_files))
            with open(path, 'w') as f:
                json.dump({'property': self.pid, 'tier': self.tier, 'seed': self.seed, 'sig': jsonable(sig), 'what': what,
                           'replay': jsonable(replay)}, f, indent=1)
            self.violations.append({'sig': jsonable(sig), 'what': what, 'replay': path})
            PRINTED[0] += 1
            print('VIOLATION property=%s replay=%s' % (self.pid, path))
            print('  ' + what[:600])
            sys.stdout.flush()
        else:
            self.violations.append({'sig': jsonable(sig), 'what': what, 'replay': None})
        return True

    def finish(self, level='model_checking', rule='', extra=None):
        for f in self.findings:
            if f.get('status') == 'open' and f['id'] in self.known:
                print('KNOWN-FINDING: property=%s %s: %s (matched %d cases)'
                      % (self.pid, f['id'], f['what'], self.known[f['id']]))
        cov = {
            'states': self.states,
            'transitions': self.transitions,
            'traces_validated_against_impl': self.replayed + self.validated,
            'spec_behaviours_replayed_on_impl': self.replayed,
            'impl_traces_validated_by_tlc': self.validated,
            'samples': self.samples or ['(no sample recorded)'],
            'evaluations': self.evaluations,
            'distinct_nontrivial': len(self.distinct),
            'rule': rule,
            'exhaustive': self.exhaustive,
            'depth': self.depth,
            'tlc_runs': self.tlc_runs,
            'drift': self.drift,
            'notes': self.notes,
            'known_findings_matched': self.known,
        }
        if self.violations:
            sigs = {}
            for v in self.violations:
                k = json.dumps(v['sig'], sort_keys=True)
                sigs[k] = sigs.get(k, 0) + 1
            cov['violation_signatures'] = sigs
        if self.binding_demo is not None:
            cov['binding_demo'] = self.binding_demo
        if extra:
            cov.update(extra)
        ev = {
            'property_id': self.pid,
            'tier': self.tier,
            'seed': self.seed,
            'level': level,
            'coverage': cov,
            'assumptions': self.assumptions,
            'wall_s': round(time.time() - self.t0, 2),
            'violations': len(self.violations),
        }
        os.makedirs(EVIDENCE, exist_ok=True)
        with open(os.path.join(EVIDENCE, self.pid + '.json'), 'w') as f:
            json.dump(ev, f, indent=1)
        print('%s tier=%s seed=%d: states=%d transitions=%d replayed=%d validated=%d evaluations=%d '
              'violations=%d known=%d drift=%d wall=%.1fs'
              % (self.pid, self.tier, self.seed, self.states, self.transitions, self.replayed,
                 self.validated, self.evaluations, len(self.violations), sum(self.known.values()),
                 len(self.drift), time.time() - self.t0))
        return 1 if self.violations else 0
