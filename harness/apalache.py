"""Apalache runner (symbolic model checker for TLA+): used for inductive-invariant proofs of the small integer
abstractions in specs/*Int.tla.  `apalache-mc` is expected on PATH (pre-installed, offline)."""
import os
import re
import shutil
import subprocess

from harness import tlc

SPECS = os.path.join(os.path.dirname(os.path.dirname(os.path.abspath(__file__))), 'specs')


class Result(object):
    def __init__(self, ok, violated, out, wall):
        self.ok, self.violated, self.out, self.wall = ok, violated, out, wall


def check(module, init, inv, length, cinit=None, subst=None, timeout=900):
    """Runs `apalache-mc check --init=.. --inv=.. --length=..` on a private copy of the module (with optional textual
    substitutions, used for negative tests).  Returns Result; raises MachineryError when Apalache itself fails."""
    import time
    sdir = os.path.join(tlc.scratch(), 'apalache_%s_%s_%s_%d' % (module, init, inv, length))
    shutil.rmtree(sdir, ignore_errors=True)
    os.makedirs(sdir)
    for f in os.listdir(SPECS):
        if f.endswith('.tla'):
            shutil.copy(os.path.join(SPECS, f), sdir)
    if subst:
        p = os.path.join(sdir, module + '.tla')
        s = open(p).read()
        for a, b in subst:
            if a not in s:
                raise tlc.MachineryError('apalache: substitution source %r not found in %s' % (a, module))
            s = s.replace(a, b)
        open(p, 'w').write(s)
    cmd = ['apalache-mc', 'check', '--init=' + init, '--inv=' + inv, '--length=%d' % length, '--out-dir=' + os.path.join(sdir, 'out')]
    if cinit:
        cmd.append('--cinit=' + cinit)
    cmd.append(module + '.tla')
    t0 = time.time()
    try:
        p = subprocess.run(cmd, cwd=sdir, stdout=subprocess.PIPE, stderr=subprocess.STDOUT, timeout=timeout,
                           env=dict(os.environ, JVM_ARGS=os.environ.get('JVM_ARGS', '-Xmx4g')))
    except subprocess.TimeoutExpired:
        raise tlc.MachineryError('apalache timed out on %s (%s => %s)' % (module, init, inv))
    out = p.stdout.decode('utf-8', 'replace')
    wall = time.time() - t0
    shutil.rmtree(sdir, ignore_errors=True)
    if re.search(r'The outcome is: NoError', out) and p.returncode == 0:
        return Result(True, None, out, wall)
    m = re.search(r'(?:state|action) invariant (\d+) violated', out)
    if re.search(r'The outcome is: Error', out) and m:
        return Result(False, 'invariant conjunct %s' % m.group(1), out, wall)
    raise tlc.MachineryError('apalache failed on %s (%s => %s): %s' % (module, init, inv, out[-1500:]))


def inductive(chk, module, cinit='ConstInit', init='Init', indinit='IndInit', indinv='IndInv', safe='Safe', negative=None):
    """Init => IndInv;  IndInv /\\ Next => IndInv';  IndInv => Safe;  IndInv is satisfiable (not vacuous);
    optionally a negative variant (textual substitution) for which the inductive step must FAIL."""
    steps = []
    for name, a, b, n in (('initiation', init, indinv, 0), ('consecution', indinit, indinv, 1), ('safety', indinit, safe, 0)):
        r = check(module, a, b, n, cinit)
        if not r.ok:
            raise tlc.MachineryError('apalache: %s of %s fails (%s): the inductive invariant does not hold for the model' % (name, module, r.violated))
        steps.append({'step': name, 'init': a, 'inv': b, 'length': n, 'wall_s': round(r.wall, 1)})
    r = check(module, indinit, indinv, 0, cinit, subst=[('IndInit == IndInv', 'IndInit == IndInv\nNever == FALSE')])
    # satisfiability of IndInit: an invariant FALSE must be violated in the initial state
    r = check(module, indinit, 'Never', 0, cinit, subst=[('IndInit == IndInv', 'IndInit == IndInv\nNever == FALSE')])
    if r.ok:
        raise tlc.MachineryError('apalache: IndInit of %s is unsatisfiable (vacuous proof)' % module)
    steps.append({'step': 'non-vacuity', 'wall_s': round(r.wall, 1)})
    if negative:
        r = check(module, indinit, indinv, 1, cinit, subst=negative)
        if r.ok:
            raise tlc.MachineryError('apalache: negative variant of %s still passes the inductive step: proof lost its sensitivity' % module)
        steps.append({'step': 'negative variant fails', 'violated': r.violated, 'wall_s': round(r.wall, 1)})
    chk.note('apalache inductive invariant %s!%s (unbounded constants via %s): %s' % (module, indinv, cinit, steps))
    return steps
