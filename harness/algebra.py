"""Composition laws (specs/Algebra.tla): both sides of every law are evaluated on real, composed petl pipelines
for the inputs TLC enumerated (and checked the law on, at definition level)."""
import json

from harness import tlc, common
from harness.concretize import PROFILES, ID_BASE

_cache = {}


def inputs():
    if 'in' not in _cache:
        _cache['in'] = common.gen('Algebra', outs=('OUT', 'OUT2'))
    return _cache['in']


def _rows(v):
    return [tuple(r) for r in v]


def run(chk, laws, full, seed=0):
    import petl as etl
    pairs, tabs = inputs()
    chk.note('Algebra.tla: laws %s hold on the definitions for all %d input pairs / %d tables (TLC, ASSUME)' % (','.join(laws), len(pairs), len(tabs)))
    chk.states += 1
    chk.transitions += 1
    profiles = ['ints', 'mixed', 'equalreps']
    step = 1 if full else 4
    for ci in range(seed % step, len(pairs), step):
        case = pairs[ci]
        prof = PROFILES[profiles[ci % 3]]
        L = [['k', 'a']] + [[prof.conc(k, ci + i), ID_BASE + i + 1] for i, k in enumerate(case['l'])]
        R = [['k', 'b']] + [[prof.conc(k, ci + 3 + i), 2 * ID_BASE + i + 1] for i, k in enumerate(case['r'])]
        A = [['k']] + [[prof.conc(k, ci + i)] for i, k in enumerate(case['l'])]
        B = [['k']] + [[prof.conc(k, ci + 5 + i)] for i, k in enumerate(case['r'])]
        probs = []
        try:
            if 'A2' in laws:
                j, lj, aj, oj, rj = (_rows(etl.join(L, R, key='k')), _rows(etl.leftjoin(L, R, key='k')), _rows(etl.antijoin(L, R, key='k')),
                                     _rows(etl.outerjoin(L, R, key='k')), _rows(etl.rightjoin(L, R, key='k')))
                padded = [r + (None,) for r in aj[1:]]
                if sorted(map(repr, lj[1:])) != sorted(map(repr, j[1:] + padded)):
                    probs.append('A2 leftjoin %r != join %r + antijoin padded %r' % (lj[1:], j[1:], padded))
                right_only = [r for r in rj[1:] if r[1] is None]
                if sorted(map(repr, oj[1:])) != sorted(map(repr, lj[1:] + right_only)):
                    probs.append('A2 outerjoin %r != leftjoin %r + unmatched right rows %r' % (oj[1:], lj[1:], right_only))
                hj = _rows(etl.hashleftjoin(L, R, key='k'))
                if sorted(map(repr, hj[1:])) != sorted(map(repr, lj[1:])):
                    probs.append('A2 hashleftjoin %r != leftjoin %r' % (hj[1:], lj[1:]))
            if 'A4' in laws:
                S = {prof.abs(x) for x in [prof.conc(0), prof.conc(1)]}
                pred = lambda v: prof.abs(v) in S
                a = _rows(etl.join(etl.select(L, 'k', pred), R, key='k'))
                b = _rows(etl.select(etl.join(L, R, key='k'), 'k', pred))
                if a != b:
                    probs.append('A4 join(select(L), R) %r != select(join(L, R)) %r' % (a, b))
            if 'A5' in laws:
                got = {prof.abs(r[0]): r[1] for r in etl.data(etl.aggregate(etl.join(L, R, key='k'), 'k', len))}
                want = {}
                for k in set(case['l']):
                    c = case['l'].count(k) * case['r'].count(k)
                    if c:
                        want[k] = c
                if got != want:
                    probs.append('A5 aggregate(join, len) %r, spec %r' % (got, want))
            if 'A3' in laws:
                a = _rows(etl.complement(A, etl.intersection(A, B)))
                b = _rows(etl.complement(A, B))
                if a != b:
                    probs.append('A3 complement(a, intersection(a, b)) %r != complement(a, b) %r' % (a, b))
                h = _rows(etl.hashcomplement(A, etl.hashintersection(A, B)))
                if sorted(map(repr, h[1:])) != sorted(map(repr, b[1:])):
                    probs.append('A3 hash variant %r != complement(a, b) %r' % (h, b))
            if 'A6' in laws:
                T = [['k', 'id']] + [[prof.conc(k, ci + i), ID_BASE + i + 1] for i, k in enumerate(case['l'])]
                d = _rows(etl.distinct(T, 'k'))[1:]
                u = _rows(etl.unique(T, 'k'))[1:]
                dup = _rows(etl.duplicates(T, 'k'))[1:]
                firsts, seen = [], set()
                for r in dup:
                    if prof.abs(r[0]) not in seen:
                        seen.add(prof.abs(r[0]))
                        firsts.append(r)
                if sorted(map(repr, d)) != sorted(map(repr, u + firsts)):
                    probs.append('A6 distinct %r != unique %r + first of each duplicate group %r' % (d, u, firsts))
        except Exception as e:
            probs.append('raised %r' % (e,))
        chk.count(('algebra', ci))
        chk.replayed += 1
        for p in probs:
            chk.violation({'op': 'composition', 'law': p.split(' ')[0]}, 'left keys %r right keys %r profile %s: %s' % (case['l'], case['r'], prof.name, p),
                          {'kind': 'algebra', 'case': case, 'profile': prof.name})
    if 'A1' in laws or 'A7' in laws:
        for ci in range(seed % step, len(tabs), step):
            t0 = tabs[ci]['t']
            prof = PROFILES[profiles[ci % 3]]
            T = [['a', 'b', 'id']] + [[prof.conc(r[0], ci + i), prof.conc(r[1], ci + i + 1), ID_BASE + i + 1] for i, r in enumerate(t0)]
            probs = []
            try:
                for bs in (None, 1, 2):
                    a = _rows(etl.sort(etl.sort(T, 'b', buffersize=bs), 'a', buffersize=bs))
                    b = _rows(etl.sort(T, ('a', 'b'), buffersize=bs))
                    if a != b:
                        probs.append('A1 sort(sort(t, b), a) %r != sort(t, (a, b)) %r (buffersize %s)' % (a, b, bs))
                    for n in (0, 1, 2):
                        h = _rows(etl.head(etl.sort(T, 'a', buffersize=bs), n))
                        if h != b[:1] + _rows(etl.sort(T, 'a'))[1:n + 1]:
                            probs.append('A7 head(sort(t, a), %d) %r' % (n, h))
            except Exception as e:
                probs.append('raised %r' % (e,))
            chk.count(('algebra-t', ci))
            chk.replayed += 1
            for p in probs:
                chk.violation({'op': 'composition', 'law': p.split(' ')[0]}, 'table %r profile %s: %s' % (t0, prof.name, p),
                              {'kind': 'algebra', 'table': t0, 'profile': prof.name})
