"""What is claimed in MANIFEST.json (tools/mkmanifest.py renders it)."""

CLAIMED = {
    'C04': dict(
        text="TLC checks the strict-weak-order / derived-operator laws of Ordering.tla (a branch-by-branch "
             "transcription of Comparable) over all pairs and triples of a bounded typed universe; the relation "
             "matrix and the sort/issorted/selector expectations TLC emits are replayed on the real Comparable, "
             "sort, issorted and select* for several concrete representatives per abstract value, and "
             "Hypothesis-drawn concrete batches are recorded as comparison traces that TLC validates against the "
             "same spec.",
        note="Universe bounded (3 numeric ranks, 2 per other class, sequences <= 2 nested to depth 2); native "
             "within-class order of CPython trusted; NaN, aware datetimes and user classes outside the stated domain.",
        technique="TLA+ spec of the comparison ladder, TLC exhaustive laws; spec->code relation-matrix replay; "
                  "code->spec trace validation by TLC",
        design="3/C04"),
}
CLAIMED['C05'] = dict(
    text="TLC checks ExtSort.tla - SortView's read/sort/dump/merge/cache state machine with both merge routines, "
         "transcribed action by action - against the declarative stable-sort definition for every table up to the bound "
         "x every buffersize 0..n+1 x reverse x cache x two passes (plus the memory-vs-disk boundary rule); every "
         "TLC-generated ragged table x key form (single, compound, None) is replayed on the real sort() under every "
         "buffersize None,1..n+1 x reverse x cache x 2 passes x value profiles and on mergesort vs sort(cat); "
         "Hypothesis tables up to 40 rows with random strategies are recorded as pass events and validated by TLC "
         "(SortTrace) against the same definition.",
    note="Small-scope bound (<= 5 rows in the algorithm model, <= 4 ragged rows in generated cases, <= 40 rows in "
         "validated traces); CPython list.sort stability and heapq.merge trusted; sqlite/IO not involved.",
    technique="TLA+ transcription of the external sort checked by TLC against a stable-sort definition; "
              "spec->code case replay over all strategies; code->spec trace validation by TLC",
    design="3/C05")

NOT_APPLICABLE = {}
