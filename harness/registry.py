"""What is claimed in MANIFEST.json (tools/mkmanifest.py renders it)."""

CLAIMED = {
    'C04': dict(
        text="TLC checks the strict-weak-order / derived-operator laws of Ordering.tla (a branch-by-branch "
             "transcription of Comparable) over all pairs and triples of a bounded typed universe; the relation "
             "matrix and the sort/issorted/selector expectations TLC emits are replayed on the real Comparable, "
             "sort, issorted and select* for several concrete representatives per abstract value, and "
             "Hypothesis-drawn concrete batches are recorded as comparison traces that TLC validates against the "
             "same spec.",
        note="Universe bounded (3 numeric ranks, 2 per other class, sequences <= 2 nested to depth 2); native "
             "within-class order of CPython trusted; NaN, aware datetimes and user classes outside the stated domain.",
        technique="TLA+ spec of the comparison ladder, TLC exhaustive laws; spec->code relation-matrix replay; "
                  "code->spec trace validation by TLC",
        design="3/C04"),
}

NOT_APPLICABLE = {}
