"""What is claimed in MANIFEST.json (tools/mkmanifest.py renders it)."""

CLAIMED = {
    'C04': dict(
        text="TLC checks the strict-weak-order / derived-operator laws of Ordering.tla (a branch-by-branch "
             "transcription of Comparable) over all pairs and triples of a bounded typed universe; the relation "
             "matrix and the sort/issorted/selector expectations TLC emits are replayed on the real Comparable, "
             "sort, issorted and select* for several concrete representatives per abstract value, and "
             "Hypothesis-drawn concrete batches are recorded as comparison traces that TLC validates against the "
             "same spec.",
        note="Universe bounded (3 numeric ranks, 2 per other class, sequences <= 2 nested to depth 2); native "
             "within-class order of CPython trusted; NaN, aware datetimes and user classes outside the stated domain.",
        technique="TLA+ spec of the comparison ladder, TLC exhaustive laws; spec->code relation-matrix replay; "
                  "code->spec trace validation by TLC",
        design="3/C04"),
}
CLAIMED['C05'] = dict(
    text="TLC checks ExtSort.tla - SortView's read/sort/dump/merge/cache state machine with both merge routines, "
         "transcribed action by action - against the declarative stable-sort definition for every table up to the bound "
         "x every buffersize 0..n+1 x reverse x cache x two passes (plus the memory-vs-disk boundary rule); every "
         "TLC-generated ragged table x key form (single, compound, None) is replayed on the real sort() under every "
         "buffersize None,1..n+1 x reverse x cache x 2 passes x value profiles and on mergesort vs sort(cat); "
         "Hypothesis tables up to 40 rows with random strategies are recorded as pass events and validated by TLC "
         "(SortTrace) against the same definition. Also: ShortlistMerge.tla (the merge used by mergesort and the reverse "
         "chunk merge) model-checked for 3 inputs; mergesort over different / wider-union / permuted headers; petl's own DEBUG "
         "log of SortView's internal steps validated event by event against ExtSort's actions (ExtSortLog); composition "
         "laws A1/A7 of Algebra.tla replayed on composed pipelines.",
    note="Small-scope bound (<= 5 rows in the algorithm model, <= 4 ragged rows in generated cases, <= 40 rows in "
         "validated traces); CPython list.sort stability and heapq.merge trusted; sqlite/IO not involved.",
    technique="TLA+ transcription of the external sort checked by TLC against a stable-sort definition; "
              "spec->code case replay over all strategies; code->spec trace validation by TLC",
    design="3/C05")
CLAIMED['C06'] = dict(
    text="TLC checks MergeJoin.tla - the merge loops of iterjoin/iterantijoin/iterlookupjoin with every exit and both "
         "flush blocks as separate actions - against the relational definitions of RelJoin.tla (every result row exactly "
         "once, ascending key groups, no crash) for all pairs of key columns up to the bound x 6 operators; the model of "
         "the loops as found at the pinned commit is kept as a sensitivity test (TLC must report the None-key data loss "
         "and the raw-key crash on it). Every TLC-generated case (rectangular, ragged, lkey!=rkey, compound keys, "
         "missing values; crossjoin) is replayed on the real join functions under value profiles and option variants "
         "(natural key, prefixes, presorted, buffersize, cache); Hypothesis table pairs (<= 25 rows per side) are recorded "
         "as pass events of row pairs and validated by TLC (JoinTrace).",
    note="Small-scope bound (<= 4 rows per side in the loop model, <= 3 rectangular / 2 ragged rows in generated cases); "
         "sort() is used through the real views and covered by C05; row order inside a key group is model-level (DRIFT only).",
    technique="TLA+ transcription of the merge loops checked by TLC against relational definitions; spec->code case "
              "replay; code->spec trace validation by TLC",
    design="3/C06")
CLAIMED['C07'] = dict(
    text="TLC checks HashJoin.tla - lookup built at iter() time, one Probe action per streamed row, lookup reused across "
         "passes when cache is on - against the same relational definition (RelJoin.tla) the sort-merge model is checked "
         "against, plus emission in the order of the streamed side and the lookup laws (all rows per key in table order, "
         "*one = first, strict raises iff a key repeats), for all pairs of key columns up to the bound x 5 operators x "
         "cache x 2 passes. The C06 case set is replayed on the five real hash joins (two passes, cache on/off, prefixes, "
         "natural key) and each result is also compared with the real sort-merge counterpart; lookup cases run on the 8 "
         "lookup functions; Hypothesis table pairs are validated by TLC (JoinTrace, stream order).",
    note="Hashable keys and, for the anti-joins, rectangular inputs (as the property states); bounds as C06; dict "
         "insertion order of CPython trusted.",
    technique="TLA+ model of build/probe/cache checked by TLC against the shared relational definition; spec->code "
              "case replay incl. cross-check with the real merge joins; code->spec trace validation by TLC",
    design="3/C07")
CLAIMED['C08'] = dict(
    text="TLC checks SetOps.tla - the two-pointer loops of itercomplement (strict and non-strict, the b-is-None "
         "exhaustion marker) and iterintersection, one action per branch, and the Counter-based hash variants - "
         "against multiset difference / strict difference / intersection (SetDefs.tla), ascending output, the "
         "definition's exact sequence, and complement + intersection = a, for all pairs of row sequences up to the "
         "bound. Every TLC-generated pair of tables is replayed on complement, intersection, diff, recordcomplement, "
         "recorddiff (b's fields permuted), hashcomplement and hashintersection under value profiles, buffersizes, "
         "cache and presorted; Hypothesis table pairs are validated by TLC (SetOpsTrace).",
    note="Rectangular tables as the property states; bounds <= 4 rows per side over 3 distinct rows in the loop model, "
         "<= 3 rows over 4 distinct 2-cell rows (with None) in generated cases, <= 20 rows in validated traces.",
    technique="TLA+ transcription of the merge loops checked by TLC against bag algebra; spec->code case replay; "
              "code->spec trace validation by TLC",
    design="3/C08")
CLAIMED['C10'] = dict(
    text="TLC checks Dedup.tla - the previous/current scans of iterduplicates, iterunique, DistinctView (with and "
         "without count) and iterconflicts, one action per loop iteration incl. first/last-row handling - against the "
         "key-multiplicity definitions (DedupDefs.tla): duplicates = multiplicity > 1, unique = 1, distinct = first per "
         "key, counts add up to nrows, conflicts within disagreeing duplicate groups, duplicates/unique partition the "
         "table, isunique <=> no duplicates, no crash; the model of the code as found is kept as a sensitivity run "
         "(TLC reports the empty-table crash of distinct(count)). Every TLC-generated table x key form (single, compound, "
         "None) is replayed on the real functions under value profiles / buffersizes / presorted; Hypothesis tables are "
         "validated by TLC (DedupTrace).",
    note="Rectangular tables as stated; bounds <= 5 rows in the scan model, <= 4 rows in generated cases, <= 25 rows in "
         "traces; the exact rows reported by conflicts() (adjacent-pair scan) are model-level (DRIFT), its soundness "
         "clause is property-level.",
    technique="TLA+ transcription of the scan loops checked by TLC against multiplicity definitions; spec->code case "
              "replay; code->spec trace validation by TLC",
    design="3/C10")
CLAIMED['C09'] = dict(
    text="TLC checks GroupBy.tla - stable key sort followed by the groupby scan (one action per row; a group closes when "
         "the key changes) and groupselectmin/max's value-sort-then-key-sort pipeline - against the partition definition "
         "of GroupDefs.tla: one group per distinct key in ascending order, members exactly the rows with that key in input "
         "order, every row in exactly one group, counts add up, min/max selections are the definition's members; the model "
         "of the code as found is a sensitivity run (presorted forwarded past the value sort). Every TLC-generated table x "
         "key form (single, compound) is replayed on aggregate (callable, (field, fn), dict, list of tuples, __setitem__, "
         "key=None), rowreduce, rowgroupmap, fold, groupselectfirst/last/min/max, mergeduplicates, merge, "
         "groupcountdistinctvalues, valuecounts/valuecounter, each output value compared with the aggregation function "
         "applied to exactly the spec's group rows; Hypothesis tables with identity-collecting aggregators are validated "
         "by TLC (GroupTrace).",
    note="itertools.groupby trusted; aggregation callables are the caller's; bounds <= 5 rows in the scan model, <= 3 rows "
         "over 12 distinct rows in generated cases, <= 25 rows in traces.",
    technique="TLA+ model of sort+groupby scan checked by TLC against a partition definition; spec->code case replay "
              "over all aggregation-spec forms; code->spec trace validation by TLC",
    design="3/C09")
CLAIMED['C11'] = dict(
    text="TLC checks Strategy.tla: (a) every key-sorted sequence up to the bound is a fixpoint of the stable sort (so "
         "presorted=True on sorted input skips nothing) and, via ExtSort.tla, the sort result is independent of "
         "buffersize/cache/pass; (b) the cache clause as a state machine over an editable, versioned source - all "
         "histories of edit / full pass / partial pass up to 6 steps: cache=False passes show the current version and read "
         "the source, cache=True passes after a completed one replay it without reading. Spec->code: every maximal "
         "behaviour (5 steps) is replayed on the real sort() (memory and file path) and 10 sort-backed views over "
         "version-stamped, pull-counting probes; every sort-backed operator form (38) runs on TLC-generated inputs under "
         "strategy variants (buffersize 1..n+1, petl.config.sort_buffersize, tempdir, cache, presorted on pre-sorted "
         "inputs, second pass) and must equal the default call. Code->spec: random sort() histories are validated by "
         "StrategyTrace, which drives Strategy's own actions with the logged events.",
    note="The default call is itself checked against the specs by C05-C10; the effect of a partial pass on the cache is "
         "model-level (DRIFT), only completed passes are constrained at property level.",
    technique="TLA+ cache/edit state machine + sort fixpoint lemma checked by TLC; spec behaviours replayed on real views "
              "over instrumented sources; strategy differential on TLC-generated inputs; trace validation by TLC",
    design="3/C11")
CLAIMED['C01'] = dict(
    text="Iterators.tla states the allowed behaviour (every iterator of a view delivers a prefix of the solo pass under any "
         "interleaving of iter/next/drop). TLC checks it, and checks the implementation-shaped models of every view that "
         "shares state between iterators against it for all interleavings of 3 iterators: CacheView (live cache list, "
         "append guard, completeness flag), SortCache (body chosen at iter(), clearcache at first next(), cache assigned "
         "before the first data row, lazily vs eagerly bound cache references, memory and file path), DictsSpill (one-shot "
         "source, header sampling, spill file with high-water mark), RandomSrc (shared vs private generator). The models of "
         "the code as found are sensitivity runs whose TLC counterexample schedules are replayed on the real cache(), sort() "
         "and randomtable/dummytable. Every 2-iterator schedule and sampled 3-iterator schedules generated by TLC are "
         "replayed on 20 stateful views (all schedules), 14 extract views and 140 catalogue views, each next() compared "
         "with the solo pass, survivors drained, then a fresh pass; random longer schedules (<= 4 iterators) are recorded "
         "and validated by TLC (IteratorsTrace, which drives Iterators' own actions). The labelled state graph of every "
         "implementation-shaped model is dumped and an edge cover extracted: every transition of the model is driven "
         "through the real view (cache, sort memory/file with leading and non-leading keys, fromdicts(generator), randomtable).",
    note="CPython single thread; tee* excluded as stated; optional-dependency views not installed. dummytable's interleaving "
         "dependence on the global random generator is a recorded open finding (known_findings.json F6b).",
    technique="TLA+ iterator-protocol spec + implementation-shaped shared-state models checked by TLC over all interleavings; "
              "TLC-generated schedules and counterexamples replayed on real views; trace validation by TLC",
    design="3/C01")
CLAIMED['C18'] = dict(
    text="SortFiles.tla is a reference model of SortView's object graph: the view, its generators, the chunk-file list "
         "created by a file-path pass and its holders (creating generator, the view's file cache, cache-serving generators "
         "bound at iter()), clearcache(), view death when neither the user nor an unfinished generator references it, and a "
         "source that fails while being read. TLC checks NoLeak (all released => no file), ReadersHaveFiles and Complete for "
         "all histories of iter/next/drop/dropview over (nrows, buffersize, cache, failure point) grids with 2-3 iterators; "
         "DictsSpill.tla covers the spill file. Histories generated by TLC - with the file count the model predicts after "
         "every step - are replayed on the real sort() with a private temp dir and gc.collect(): deliveries and 'directory "
         "empty once everything is released' are property-level, per-step counts model-level (DRIFT). Iterators schedules "
         "with a view release inserted are replayed on 11 sort-backed views and fromdicts(generator); random histories on "
         "sort() are validated by SortFilesTrace, which drives SortFiles' own actions.",
    note="CPython refcounting + gc.collect(), Linux unlink semantics; the driver drops exception references before looking "
         "at the directory; fromdicts' spill file is observed through tempfile.tempdir.",
    technique="TLA+ reference/ownership model of temp-file holders checked by TLC; TLC-generated histories with predicted "
              "file counts replayed on real views; trace validation by TLC",
    design="3/C18, appendix A")
CLAIMED['C17'] = dict(
    text="DbLoad.tla models todb/appenddb as the DB-API protocol petl runs (header pull, DELETE, one INSERT per source "
         "pull, commit, close of a connection petl opened itself) with the database's transaction semantics explicit "
         "(durable = what a fresh connection sees, pending = petl's open transaction). TLC checks, for every prior "
         "contents x new rows x failure point (header, each row, exhaustion) x handle kind (file name, connection, "
         "cursor, cursor factory) x commit flag x todb/appenddb: AllOrNothing, FailureKeepsOld, SuccessIsFinal, "
         "NoCommitLeavesPending, and that durable contents change only in Commit after a normal end of the source. "
         "Every terminal behaviour is replayed on a real sqlite file with failure injection; a fresh connection reads the "
         "table after the call (property level) and after every DB-API call through a recording proxy (call sequence = "
         "model level). Random larger loads are recorded and validated by DbLoadTrace, which drives DbLoad's own actions.",
    note="sqlite3 only (no SQLAlchemy / server drivers installed); create/drop (DDL) outside the statement; for commit=False "
         "on a caller-owned handle the driver commits itself and expects the new contents.",
    technique="TLA+ transaction/protocol model checked by TLC; all model behaviours replayed on real sqlite with fault "
              "injection; DB-API call traces validated by TLC",
    design="3/C17")
CLAIMED['C19'] = dict(
    text="FailOnError.tla models convert, fieldmap, rowmap and rowmapmany as one Step per input row over a table with an "
         "arbitrary set of failing cells and the effective policy (False / True / 'inline'). TLC checks for every subset of "
         "failing cells (<= 3 rows x 2 fields) x policy x operator: nothing raised under False/inline; under True the "
         "exception surfaces exactly at the first failing row after all earlier rows were delivered; non-failing rows and "
         "cells untouched and in order; failing rows kept with errorvalue (convert, fieldmap) or dropped (rowmap, rowmapmany, "
         "rows produced before the failure kept). Every terminal behaviour is replayed on the real operators with "
         "converters that raise exactly on the failing cells - policy as argument and via petl.config.failonerror, with and "
         "without errorvalue, two passes, driven by next(); exception instances are identified by the (row, field) they "
         "carry. Random larger tables are recorded row by row and validated by FailOnErrorTrace, which drives the spec's Step.",
    note="Converters raise ordinary Exception subclasses; the config default is bound at view construction (as modelled); "
         "behaviour of the iterator after it raised is model-level (DRIFT).",
    technique="TLA+ policy state machine checked by TLC over all failing-cell subsets; all behaviours replayed on real "
              "operators; per-row traces validated by TLC",
    design="3/C19")
CLAIMED['C02'] = dict(
    text="Lazy.tla models a pipeline as demand-driven stages (map with lookahead, filter, expand, slice) with per-stage "
         "want/got accounting; TLC checks for every composition up to depth 3 and every k that the source pulls never "
         "exceed the composed Need(k) - an expression that does not mention the source length -, that nothing is pulled "
         "before the first request, the stagewise bounds, and tightness. Spec->code: each of the 155 generated "
         "compositions is instantiated with real petl operators of those classes over a pull-counting source of two lengths "
         "(100 and 10 000 rows): construction pulls no data row, pulls for k = 1..6 are within the TLC-computed need and "
         "identical at both lengths; the same is measured for ~100 streaming catalogue operators (hash joins on their probe "
         "side) and for look/head/islice/repr as consumers. Code->spec: pull/yield event sequences of random deeper "
         "pipelines are validated by LazyTrace.",
    note="Blocking operators are outside the statement; sampling operators run with a fixed small sample size; the header "
         "row is accounted separately from data rows.",
    technique="TLA+ demand/pull model checked by TLC over all stage compositions; TLC-computed bounds replayed on real "
              "operator compositions at two source lengths; pull/yield traces validated by TLC",
    design="3/C02")
CLAIMED['C03'] = dict(
    text="Heap.tla is an object/heap model of the row-assembly idioms petl uses (deliver the source row itself, copy then "
         "edit, private carry row with copies delivered): TLC checks the action property Immutable (no step changes the "
         "content of a frozen object: source rows, and every row once delivered) and SourcesIntact, and must refute the two "
         "defective idioms kept as negative tests (edit in place, reused row buffer). TLC generates every ragged table shape "
         "(<= 3 rows, row lengths 0/2/4/5) x prefix length; for each, the driver runs the catalogue operators over sources "
         "made of mutable lists, fully or partially, snapshotting identity and content digest of every tracked object (both "
         "containers, headers, all source rows, every delivered row) after construction, after every next() and after "
         "release; TLC validates every snapshot sequence against Immutable (HeapTrace).",
    note="User callables are trusted not to mutate; digests are crc32 of repr; operators that reject a ragged shape are "
         "checked up to the exception.",
    technique="TLA+ heap/frame-condition model with negative tests checked by TLC; TLC-generated shapes; heap snapshot "
              "traces of the real operators validated by TLC",
    design="3/C03")
CLAIMED['C20'] = dict(
    text="ZeroRows.tla states, as TLC-checked lemmas over the definition modules (RelJoin, SetDefs, DedupDefs, GroupDefs), what "
         "every operator definition gives when an input has a header and no data rows (inner joins and intersections empty, "
         "outer joins / complements / cat the other side, dedup and grouping empty, isunique true) and emits the expected row "
         "counts per operator and input position; the algorithm models MergeJoin, HashJoin, SetOps, Dedup, GroupBy and ExtSort "
         "are run on their zero/one-row instances (NoCrash, result = definition). The whole catalogue (140 view constructors) "
         "and 19 scalar accessors are run with a header-only table in every input position: no exception on construction, "
         "full iteration and a second pass, the usual header, and the row count the definitions prescribe.",
    note="Operators whose header is computed from data (transpose, pivot, recast, unpackdict without keys, facet) are only "
         "required not to raise; exact rows for empty-sided joins and set operations are compared in C06-C08.",
    technique="TLA+ zero-row lemmas and zero-row instances of the algorithm models checked by TLC; TLC-emitted expectations "
              "replayed on the whole operator catalogue",
    design="3/C20")
CLAIMED['C13'] = dict(
    text="Select.tla defines every selector over ragged tables of abstract cells (a missing cell reads as None; comparison and "
         "range selectors through Ordering.tla; in/notin, none/notnone, true/false, is, rowlenselect; complement as XOR) and "
         "ISlice = itertools.islice with head/tail/skip as instances. TLC evaluates the laws on every small table x field x "
         "reference value: select and its complement partition the input in order, lt/ge, le/gt, eq/ne, none/notnone are "
         "exact complements, head(k) + the rest reassemble the table. Every generated case is replayed on ~60 calls of the "
         "real select*/rowlenselect/select(lambda|expression)/biselect/facet/search functions with complement on and off "
         "under value profiles (mixed types, equal representatives, tuples, text), every slice triple on rowslice/head/tail/"
         "skip (ISlice cross-checked against itertools.islice itself); Hypothesis columns of concrete values are validated "
         "by SelectTrace against the C04 ordering.",
    note="Cell alphabet has no falsy value besides None; search on text cells only; tables <= 2 (quick) / 3 (thorough) ragged "
         "rows, traces <= 15 rows.",
    technique="TLA+ definitions + partition/complement laws evaluated by TLC; spec->code case replay; code->spec trace "
              "validation by TLC",
    design="3/C13")
CLAIMED['C12'] = dict(
    text="RowOps.tla (with PyData.tla for Python's list.insert / padding semantics) defines cut, cutout, movefield, addfield(s), "
         "addrownumbers, addcolumn, cat, stack, annex, setheader/extendheader/pushheader/rename, convert, fillright/fillleft/"
         "filldown and values exactly as the code resolves fields (asindices: index priority, names consumed left to right, "
         "FieldSelectionError otherwise) and pads or trims rows. TLC evaluates the frame-condition laws on every small table "
         "(headers over two names incl. duplicates, ragged rows of unique cells): one output row per input row, removing the "
         "inserted cell returns the (squared-up) original row, short rows padded never dropped, movefield preserves field-name "
         "multiplicities, header functions leave data untouched, non-missing cells untouched by fills. Every generated table x "
         "argument form (names, indices, mixed, repeated, unknown; insertion index None / 0.. / beyond the end / negative) is "
         "replayed cell by cell on the real functions and equivalent forms (~90 calls per table); Hypothesis-style random "
         "ragged tables are recorded as apply events and validated by RowOpsTrace against the same definitions.",
    note="Negative field SELECTION indices are undocumented and outside the domain; conversions address fields by name and "
         "are exercised on distinct names; cells are opaque payload (unique ints, None, a missing marker).",
    technique="TLA+ definitions with Python list semantics + frame-condition laws evaluated by TLC; spec->code cell-by-cell "
              "replay; code->spec apply-trace validation by TLC",
    design="3/C12")
CLAIMED['C14'] = dict(
    text="Reshape.tla defines melt, recast, transpose, flatten/unflatten, pivot and unpack; TLC evaluates the inverse laws on "
         "every small rectangular table x key choice: recast(melt(t)) = t sorted by key with the variable fields in name order "
         "(unique keys), exactly one melt row per (row, variable) cell, transpose o transpose = identity, "
         "unflatten(flatten(t), n) = data(t), pivot conserves the total and each cell aggregates exactly the rows carrying that "
         "pair. Every generated table is replayed on the real melt (key / variables forms), recast (explicit / inferred key), "
         "transpose, flatten, unflatten (n = 2, 3, 4), pivot, dicts<->fromdicts and columns<->fromcolumns with key cells under "
         "mixed-type value profiles; the unpack / unpackdict / split / capture / splitdown family on generated sequence cells; "
         "random unique-key integer tables are recorded with all outputs and validated by ReshapeTrace.",
    note="Pivot column values and recast variable names are homogeneous (native sorted() is used there); the recast(melt) law "
         "is stated for unique keys only.",
    technique="TLA+ definitions + inverse laws evaluated by TLC; spec->code case replay; code->spec trace validation by TLC",
    design="3/C14")
CLAIMED['C15'] = dict(
    text="FileStore.tla models the store semantics of to* / append* / from* (to replaces, append extends, write_header / "
         "header= add or drop exactly the header record) and the writer stack the functions run (open(mode) -> binary buffer "
         "-> text wrapper with pending text -> rows -> flush -> detach -> close). TLC checks StoreCorrect, RoundTrip and "
         "AppendExtends over all histories of 3 operations on small tables; the variant without the flush before detach is a "
         "negative test TLC must refute. Every generated history is replayed on csv / tsv / pickle (and single writes on json, "
         "json lines, json arrays) with cells drawn from adversarial classes (delimiters, quote characters, CR, LF, CRLF, NUL, "
         "non-ASCII, astral, empty, edge spaces), 5 encodings, 6 delimiter/quotechar/quoting settings and 4 source kinds (path, "
         ".gz, .bz2, MemorySource); after every operation the target is read back with the matching from* and compared with the "
         "store the spec prescribes; to + append is compared byte-wise with to(cat). Buffer-level traces from a recording source "
         "are validated by FileStoreTrace, which drives FileStore's own actions. Sources.tla (how a source argument resolves "
         "to a source class: protocol handlers, codecs by extension, objects) is replayed on the real resolver.",
    note="Character-level encode/decode fidelity is sampled by the replay, not decided by TLC; QUOTE_NONE without escapechar and "
         "QUOTE_NONNUMERIC with numeric cells are outside the stated domain. Two open findings are recorded (BOM-writing "
         "encodings on compressed targets: known_findings.json F11a, F11b).",
    technique="TLA+ store + writer-protocol model with negative test checked by TLC; TLC-generated histories replayed over "
              "adversarial cells x encodings x dialects x sources; buffer traces validated by TLC",
    design="3/C15")
CLAIMED['C16'] = dict(
    text="FileStore.tla's tee protocol (write the row, then yield it; flush at exhaustion; detach; close) satisfies "
         "TeeTransparent (rows delivered = wrapped table, target = what to* stores) for all tables and header flags; "
         "PassThrough.tla checks that progress (every batch size), clock, wrap and cache(n) on sequential passes deliver "
         "exactly the wrapped items. Spec->code: 32 tables (adversarial cell classes, header-only, ragged, empty rows) x 20 "
         "tee/to pairs (teecsv/teetsv/teepickle/teetext/teehtml with header flags, encodings, dialect, templates) x 3 source "
         "kinds: the tee view's rows equal the wrapped table and, once consumed, its target equals byte for byte what the "
         "matching to* writes; the same tables through 19 pass-through views (progress/log_progress batch sizes 1..4, clock, "
         "wrap, cache limits None,1..4,10), three passes each. Code->spec: tee buffer traces validated by FileStoreTrace.",
    note="teetext / teehtml on rectangular tables; byte equality on plain, in-memory and (decompressed) gzip targets; "
         "interleaved iterators over cache() are C01.",
    technique="TLA+ tee/writer protocol and pass-through models checked by TLC; rows and byte-equality replay against to*; "
              "buffer traces validated by TLC",
    design="3/C16")

NOT_APPLICABLE = {}

# layers added while the checks were being tested with seeded changes and behaviour-preserving changes (DESIGN.md 11, 11b)
GROWTH = {
    'C01': " Unbounded layer: integer abstractions CacheViewInt / SortCacheInt / DictsSpillInt of the three shared-state models - "
           "TLC checks that the sequence-level models implement them (refinement), Apalache proves their inductive invariants for "
           "every table length / cache limit / sample size. Also: 300-/600-row sequential, partial-then-full and lagging-iterator "
           "histories over every stateful and catalogue view; edge cover of the models' state graphs replayed on the real views.",
    'C02': " The property-level bound is NeedS (need + look-ahead + a small constant of 100 rows per stage, composed through the "
           "pipeline), the exact need of the code as found is model-level; extractors are measured in bytes read through a counting "
           "source at two file lengths; look / see styles as consumers.",
    'C04': " Deterministic batches of numbers that are close but not equal across int / float / Decimal / bool (below float "
           "resolution, beyond float range, around 2**53 and 2**63) are validated by OrderingTrace as well.",
    'C05': " Recorded executions with 130-2100 rows spilling into up to 1100 chunk files; key spellings incl. index 0 and a field "
           "named ''; mergesort with missing / header / over-long rows, presorted or not.",
    'C06': " Variants: keys given as field indices with a wider natural key, inputs that are descending sort views.",
    'C07': " Lookups into dictionary= mappings with shelve semantics, falsy value / key specs, a value profile whose keys collide in "
           "every hash table, hash joins without a cache argument after both sources were edited.",
    'C08': " Record operations over 4-field tables with permuted inner fields; strict spelled with other falsy / truthy values; "
           "recorded executions on 300-700 rows.",
    'C09': " Descending sort views as inputs; mergeduplicates with an equal-but-not-identical missing marker; 343-row recorded groupings.",
    'C10': " Key spellings incl. index 0; include= / exclude= as a single string; hash-colliding key values.",
    'C11': " Strategy.tla has a failing-pass action with completeness invariants (eager variant refuted); StrategyInt is proved "
           "inductive by Apalache for histories of any length (incl. the action invariant CacheReplays) and Strategy refines it "
           "(TLC); 343/700-row strategy differential; edit-consistency of 25 operators x strategy x (data | field order) edits.",
    'C12': " A 5-field wide layer (every ordered selection for cut / cutout, movefield, int field names, Record access on short rows).",
    'C13': " Nested row slices against composed islice; biselect(missing=); list cells against tuple references; string containers.",
    'C14': " flags= sequences for capture / split / splitdown / sub / search; fields given by index; fromdicts(sample=1); int field names.",
    'C15': " FileStoreInt (counting abstraction) is proved inductive by Apalache for tables and histories of any length, FileStore "
           "refines it (TLC). A byte-offset sweep of 136 KiB round trips puts every byte of a record on every buffer boundary.",
    'C16': " Default batch sizes on 2500 rows, % and {} in prefixes, the table without any row.",
    'C17': " DbLoadInt is proved inductive by Apalache for every number of rows and failure point, DbLoad refines it (TLC); "
           "1000-2100 row loads failing at batch boundaries, schema= with a namesake, permuted headers in a sequence of loads.",
    'C18': " A second failure kind (a row that cannot be pickled: dumping its chunk fails).",
    'C19': " Built-in exception classes raised by converters; rows excluded by where= (ExcludedUntouched).",
    'C20': " Exact contents for header-only inputs under six fill values.",
}
for _pid, _extra in GROWTH.items():
    CLAIMED[_pid]['text'] += _extra
