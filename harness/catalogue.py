"""Catalogue of petl view constructors used by C01 / C02 / C03 / C20 (DESIGN.md 2.8).

Every entry builds a view from one or two source tables `a`, `b` (any table containers: lists, ProbeTables).
Source layout (arbitrary length, so that pull counts can be compared at two source lengths):

    a: header ('k', 's', 'n', 't')   row i = [key(i), 'x%d y%d', 10*i, (i, i+1)]     key cycles 2,1,2,None,3,...
    b: header ('k', 'm')             row i = [1 + i % 3, 'p%d']

Tags:
    stream   the C02 law applies (pulls for k output rows bounded by need(k) + slack, independent of length)
    block    reads its whole input before the first data row (sort-backed, tail, transpose, pivot, recast, crossjoin...)
    sorted   sort-backed (accepts buffersize / cache ...)
    hdr1     may read one header row of its source(s) at construction
    sample   reads min(N, sample) rows up front to discover a header / key set (sample size fixed small here)
"""
import operator
from collections import OrderedDict

AH = ('k', 's', 'n', 't')
BH = ('k', 'm')
KEYS = [2, 1, 2, None, 3, 1, 5, 4]


def arow(i):
    """data row number i (1-based) of source a"""
    return [KEYS[(i - 1) % len(KEYS)] if i <= 8 else 5 + i, 'x%d y%d' % (i, i + 1), 10 * i, (i, i + 1)]


def brow(i):
    return [1 + (i - 1) % 3 if i <= 6 else 100 + i, 'p%d' % i]


def atable(n):
    return [list(AH)] + [arow(i) for i in range(1, n + 1)]


def btable(n):
    return [list(BH)] + [brow(i) for i in range(1, n + 1)]


def entries():
    import petl as etl
    E = []

    def add(name, arity, fn, *tags, **kw):
        E.append(dict(name=name, arity=arity, fn=fn, tags=set(tags), slack=kw.get('slack', 2), fan=kw.get('fan', 1),
                      need=kw.get('need'), skip_empty=kw.get('skip_empty', False), kmax=kw.get('kmax', 6)))

    S, B, K, H = 'stream', 'block', 'sorted', 'hdr1'
    # --- basics
    add('cut', 1, lambda a, b: etl.cut(a, 'k', 'n'), S)
    add('cut(idx)', 1, lambda a, b: etl.cut(a, 0, 2), S)
    add('cutout', 1, lambda a, b: etl.cutout(a, 's'), S)
    add('movefield', 1, lambda a, b: etl.movefield(a, 'n', 0), S)
    add('cat', 2, lambda a, b: etl.cat(a, b), S)
    add('cat(header)', 2, lambda a, b: etl.cat(a, b, header=['k', 'm', 'z']), S)
    add('stack', 2, lambda a, b: etl.stack(a, b), S)
    add('stack(trim=False)', 2, lambda a, b: etl.stack(a, b, trim=False), S)
    add('stack(pad=False)', 2, lambda a, b: etl.stack(a, b, pad=False), S)
    add('cat(missing)', 2, lambda a, b: etl.cat(a, b, missing='M'), S)
    add('annex(missing)', 2, lambda a, b: etl.annex(a, b, missing='M'), S, need=lambda k: 2 * k)
    add('annex', 2, lambda a, b: etl.annex(a, b), S, need=lambda k: 2 * k)     # k rows from each source
    add('addfield', 1, lambda a, b: etl.addfield(a, 'z', lambda r: r['n'] * 2), S)
    add('addfield(const,index)', 1, lambda a, b: etl.addfield(a, 'z', 7, index=1), S)
    add('addfields', 1, lambda a, b: etl.addfields(a, [('y', 1), ('z', lambda r: r.n, 0)]), S)
    add('addcolumn', 1, lambda a, b: etl.addcolumn(a, 'z', [1, 2, 3]), S)
    add('addcolumn(view column)', 2, lambda a, b: etl.addcolumn(a, 'z', etl.values(b, 'm')), S, need=lambda k: 2 * k)
    add('addrownumbers', 1, lambda a, b: etl.addrownumbers(a), S)
    add('addfieldusingcontext', 1, lambda a, b: etl.addfieldusingcontext(a, 'z', lambda p, c, n: (p.n if p else 0) + (n.n if n else 0)), S)
    add('rowslice', 1, lambda a, b: etl.rowslice(a, 1, 50, 2), S, need=lambda k: 2 * k)
    add('head', 1, lambda a, b: etl.head(a, 3), S)
    add('tail', 1, lambda a, b: etl.tail(a, 2), B)
    add('skip', 1, lambda a, b: etl.skip(a, 1), S, slack=3)
    add('skipcomments', 1, lambda a, b: etl.skipcomments(a, '#'), S)
    # --- headers
    add('rename', 1, lambda a, b: etl.rename(a, 'k', 'key'), S)
    add('rename(dict)', 1, lambda a, b: etl.rename(a, {'k': 'key', 'n': 'num'}), S)
    add('setheader', 1, lambda a, b: etl.setheader(a, ['a', 'b', 'c', 'd']), S)
    add('extendheader', 1, lambda a, b: etl.extendheader(a, ['z']), S)
    add('pushheader', 1, lambda a, b: etl.pushheader(a, ['a', 'b', 'c', 'd']), S)
    add('prefixheader', 1, lambda a, b: etl.prefixheader(a, 'p_'), S)
    add('suffixheader', 1, lambda a, b: etl.suffixheader(a, '_s'), S)
    add('sortheader', 1, lambda a, b: etl.sortheader(a), S)
    # --- conversions
    add('convert', 1, lambda a, b: etl.convert(a, 'n', lambda v: v + 1), S)
    add('convert(dict)', 1, lambda a, b: etl.convert(a, 'k', {1: 'one', 2: 'two'}), S)
    add('convert(multi)', 1, lambda a, b: etl.convert(a, ('k', 'n'), str), S)
    add('convert(where)', 1, lambda a, b: etl.convert(a, 'n', lambda v: -v, where=lambda r: r.k == 2), S)
    add('convert(pass_row)', 1, lambda a, b: etl.convert(a, 'n', lambda v, r: v + len(r), pass_row=True), S)
    add('convertall', 1, lambda a, b: etl.convertall(a, str), S, H)
    add('convertnumbers', 1, lambda a, b: etl.convertnumbers(a), S, H)
    add('replace', 1, lambda a, b: etl.replace(a, 'k', 2, 22), S)
    add('replaceall', 1, lambda a, b: etl.replaceall(a, 2, 22), S, H)
    add('update', 1, lambda a, b: etl.update(a, 'n', 0), S)
    add('format', 1, lambda a, b: etl.format(a, 'n', '{:05d}'), S)
    add('formatall', 1, lambda a, b: etl.formatall(a, '{}'), S, H)
    add('interpolate', 1, lambda a, b: etl.interpolate(a, 'n', '%05d'), S)
    add('interpolateall', 1, lambda a, b: etl.interpolateall(a, '%s'), S, H)
    # --- fills
    add('filldown', 1, lambda a, b: etl.filldown(a), S)
    add('filldown(field)', 1, lambda a, b: etl.filldown(a, 'k'), S)
    add('fillright', 1, lambda a, b: etl.fillright(a), S)
    add('fillleft', 1, lambda a, b: etl.fillleft(a), S)
    # --- maps
    add('fieldmap', 1, lambda a, b: etl.fieldmap(a, OrderedDict([('key', 'k'), ('dbl', ('n', lambda v: v * 2)), ('both', lambda r: (r.k, r.n))])), S)
    add('rowmap', 1, lambda a, b: etl.rowmap(a, lambda r: [r[0], r[2]], header=['k', 'n']), S)
    add('rowmapmany', 1, lambda a, b: etl.rowmapmany(a, lambda r: [[r[0], 1], [r[0], 2]], header=['k', 'i']), S, fan=2)
    add('rowgroupmap', 1, lambda a, b: etl.rowgroupmap(a, 'k', lambda k, rs: [[k, len(list(rs))]], header=['k', 'c']), B, K)
    # --- selects
    add('select', 1, lambda a, b: etl.select(a, lambda r: r.n % 20 == 0), S, need=lambda k: 2 * k)
    add('select(field)', 1, lambda a, b: etl.select(a, 'n', lambda v: v > 0), S)
    add('select(complement)', 1, lambda a, b: etl.select(a, lambda r: r.n % 20 == 0, complement=True), S, need=lambda k: 2 * k - 1)
    add('selecteq', 1, lambda a, b: etl.selectne(a, 'n', -1), S)
    add('selectgt', 1, lambda a, b: etl.selectgt(a, 'n', 0), S)
    add('selectlt', 1, lambda a, b: etl.selectlt(a, 'n', 10 ** 9), S)
    add('selectin', 1, lambda a, b: etl.selectnotin(a, 'n', (-1, -2)), S)
    add('selectnotnone', 1, lambda a, b: etl.selectnotnone(a, 'n'), S)
    add('selectrangeopen', 1, lambda a, b: etl.selectrangeopen(a, 'n', 0, 10 ** 9), S)
    add('selectcontains', 1, lambda a, b: etl.selectcontains(a, 's', 'x'), S)
    add('selectisinstance', 1, lambda a, b: etl.selectisinstance(a, 'n', int), S)
    add('selectusingcontext', 1, lambda a, b: etl.selectusingcontext(a, lambda p, c, n: True), S)
    add('rowlenselect', 1, lambda a, b: etl.rowlenselect(a, 4), S)
    add('facet', 1, lambda a, b: etl.facet(a, 'k')[2] if 2 in etl.facet(a, 'k') else etl.select(a, lambda r: False), B, skip_empty=True)
    add('biselect', 1, lambda a, b: etl.biselect(a, lambda r: r.n % 20 == 0)[0], S, need=lambda k: 2 * k)
    # --- regex
    add('search', 1, lambda a, b: etl.search(a, 's', 'x'), S)
    add('searchcomplement', 1, lambda a, b: etl.searchcomplement(a, 's', 'zzz'), S)
    add('sub', 1, lambda a, b: etl.sub(a, 's', 'x', 'X'), S)
    add('capture', 1, lambda a, b: etl.capture(a, 's', r'x(\d+) y(\d+)', ['p', 'q']), S)
    add('split', 1, lambda a, b: etl.split(a, 's', ' ', ['p', 'q']), S)
    add('splitdown', 1, lambda a, b: etl.splitdown(a, 's', ' '), S, fan=2)
    # --- unpacks
    add('unpack', 1, lambda a, b: etl.unpack(a, 't', ['t1', 't2']), S)
    add('unpackdict', 1, lambda a, b: etl.unpackdict(etl.convert(a, 't', lambda v: {'p': v[0], 'q': v[1]}), 't', keys=['p', 'q']), S)
    add('unpackdict(sample)', 1, lambda a, b: etl.unpackdict(etl.convert(a, 't', lambda v: {'p': v[0], 'q': v[1]}), 't', samplesize=2), S, 'sample', slack=4)
    add('unpackdict(samplesize=1)', 1, lambda a, b: etl.unpackdict(etl.convert(a, 't', lambda v: {'p': v[0], 'q': v[1]}), 't', samplesize=1), S, 'sample', slack=4)
    add('unpackdict(sample, no dicts)', 1, lambda a, b: etl.unpackdict(etl.convert(a, 't', lambda v: None), 't', samplesize=2), S, 'sample', slack=4)
    # --- reshape
    add('melt', 1, lambda a, b: etl.melt(a, 'k'), S, fan=3)
    add('melt(variables)', 1, lambda a, b: etl.melt(a, key=['k', 's'], variables=['n']), S)
    add('recast', 1, lambda a, b: etl.recast(etl.melt(etl.cut(a, 'n', 's', 't'), 'n'), samplesize=2), B)
    add('recast(samplesize=1)', 1, lambda a, b: etl.recast(etl.melt(etl.cut(a, 'n', 's', 't'), 'n'), samplesize=1), B)
    add('transpose', 1, lambda a, b: etl.transpose(a), B)
    add('pivot', 1, lambda a, b: etl.pivot(a, 'k', 's', 'n', sum), B, K)
    add('flatten', 1, lambda a, b: etl.flatten(a), B)      # returns an iterator-like view over values
    add('unflatten', 1, lambda a, b: etl.unflatten(etl.flatten(a), 4), S, skip_empty=True)
    # --- sorts
    add('sort', 1, lambda a, b: etl.sort(a, 'k'), B, K)
    add('sort(file)', 1, lambda a, b: etl.sort(a, 'k', buffersize=2), B, K)
    add('sort(nocache)', 1, lambda a, b: etl.sort(a, 'k', buffersize=2, cache=False), B, K)
    add('sort(key=None)', 1, lambda a, b: etl.sort(etl.cut(a, 'n', 's')), B, K)
    add('mergesort', 2, lambda a, b: etl.mergesort(etl.cut(a, 'k'), etl.cut(b, 'k'), key='k'), B, K)
    # --- joins
    for f in ('join', 'leftjoin', 'rightjoin', 'outerjoin', 'antijoin', 'lookupjoin'):
        add(f, 2, (lambda f: lambda a, b: getattr(etl, f)(a, b, key='k'))(f), B, K)
    add('join(natural)', 2, lambda a, b: etl.join(a, b), B, K, H)
    add('join(file)', 2, lambda a, b: etl.join(a, b, key='k', buffersize=2), B, K)
    add('crossjoin', 2, lambda a, b: etl.crossjoin(a, b), B)
    add('unjoin', 1, lambda a, b: etl.unjoin(a, 'n', key='k')[0], B, K)
    for f in ('hashjoin', 'hashleftjoin', 'hashlookupjoin', 'hashantijoin'):
        add(f, 2, (lambda f: lambda a, b: getattr(etl, f)(a, b, key='k'))(f), S, 'probe-left',
            need=(lambda k: k + 5) if f == 'hashantijoin' else None)       # first unmatched probe row is row 4, then 7, 8, 9...
    add('hashrightjoin', 2, lambda a, b: etl.hashrightjoin(a, b, key='k'), S, 'probe-right')
    add('hashrightjoin(nocache)', 2, lambda a, b: etl.hashrightjoin(a, b, key='k', cache=False), S, 'probe-right')
    add('hashleftjoin(nocache)', 2, lambda a, b: etl.hashleftjoin(a, b, key='k', cache=False), S, 'probe-left')
    # compound keys: the right table gets the fields (k, s, w), sharing k and s with the left one
    rb = lambda b: etl.addfield(etl.rename(b, 'm', 's'), 'w', 9)
    for f in ('join', 'leftjoin', 'rightjoin', 'outerjoin', 'antijoin', 'lookupjoin'):
        add(f + '(compound)', 2, (lambda f: lambda a, b: getattr(etl, f)(a, rb(b), key=('k', 's')))(f), B, K)
    add('lookupjoin(natural compound)', 2, lambda a, b: etl.lookupjoin(a, rb(b)), B, K, H)
    add('leftjoin(natural compound)', 2, lambda a, b: etl.leftjoin(a, rb(b)), B, K, H)
    for f in ('hashjoin', 'hashleftjoin', 'hashlookupjoin', 'hashantijoin'):
        add(f + '(compound)', 2, (lambda f: lambda a, b: getattr(etl, f)(a, rb(b), key=('k', 's')))(f), S, 'probe-left',
            need=(lambda k: k + 5))
    add('hashrightjoin(compound)', 2, lambda a, b: etl.hashrightjoin(a, rb(b), key=('k', 's')), S, 'probe-right')
    add('hashjoin(nocache)', 2, lambda a, b: etl.hashjoin(a, b, key='k', cache=False), S, 'probe-left')
    # --- setops
    add('complement', 2, lambda a, b: etl.complement(etl.cut(a, 'k'), etl.cut(b, 'k')), B, K)
    add('intersection', 2, lambda a, b: etl.intersection(etl.cut(a, 'k'), etl.cut(b, 'k')), B, K)
    add('recordcomplement', 2, lambda a, b: etl.recordcomplement(etl.cut(a, 'k'), etl.cut(b, 'k')), B, K, H)
    add('diff', 2, lambda a, b: etl.diff(etl.cut(a, 'k'), etl.cut(b, 'k'))[0], B, K)
    # presorted set operations over two lazily derived, sorted views of the same source (n ascending)
    add('complement(presorted,strict)', 1, lambda a, b: etl.complement(etl.cut(a, 'n'), etl.select(etl.cut(a, 'n'), lambda r: r[0] % 20 == 0),
                                                                          presorted=True, strict=True), S, need=lambda k: 4 * k + 4)
    add('complement(presorted)', 1, lambda a, b: etl.complement(etl.cut(a, 'n'), etl.select(etl.cut(a, 'n'), lambda r: r[0] % 20 == 0),
                                                                   presorted=True), S, need=lambda k: 4 * k + 4)
    add('intersection(presorted)', 1, lambda a, b: etl.intersection(etl.cut(a, 'n'), etl.select(etl.cut(a, 'n'), lambda r: r[0] % 20 == 0),
                                                                       presorted=True), S, need=lambda k: 4 * k + 4)
    add('mergesort(presorted)', 1, lambda a, b: etl.mergesort(a, a, key='n', presorted=True), S, need=lambda k: k + 2)
    add('addcolumn(index=1)', 1, lambda a, b: etl.addcolumn(a, 'z', [1, 2, 3], index=1), S)
    add('hashcomplement', 2, lambda a, b: etl.hashcomplement(etl.cut(a, 'k'), etl.cut(b, 'k')), S, 'probe-left', need=lambda k: k + 5)
    add('hashintersection', 2, lambda a, b: etl.hashintersection(etl.cut(a, 'k'), etl.cut(b, 'k')), S, 'probe-left', need=lambda k: k + 2, kmax=5)   # only 5 probe rows have a partner
    # --- dedup
    for f in ('duplicates', 'unique', 'distinct'):
        add(f, 1, (lambda f: lambda a, b: getattr(etl, f)(a, 'k'))(f), B, K)
    add('distinct(count)', 1, lambda a, b: etl.distinct(a, 'k', count='c'), B, K)
    add('conflicts', 1, lambda a, b: etl.conflicts(a, 'k'), B, K)
    # --- reductions
    add('aggregate', 1, lambda a, b: etl.aggregate(a, 'k', len), B, K)
    add('aggregate(multi)', 1, lambda a, b: etl.aggregate(a, 'k', OrderedDict([('c', len), ('s', ('n', sum))])), B, K)
    add('aggregate(key=None)', 1, lambda a, b: etl.aggregate(a, None, len), B)
    add('aggregate(key=None,sum)', 1, lambda a, b: etl.aggregate(a, None, sum, 'n'), B)
    add('aggregate(key=None,list)', 1, lambda a, b: etl.aggregate(a, None, list, 'n'), B)
    add('rowreduce', 1, lambda a, b: etl.rowreduce(a, 'k', lambda k, rs: [k, sum(r.n for r in rs)], header=['k', 's']), B, K)
    add('fold', 1, lambda a, b: etl.fold(a, 'k', operator.add, 'n'), B, K)
    for f in ('groupselectfirst', 'groupselectlast'):
        add(f, 1, (lambda f: lambda a, b: getattr(etl, f)(a, 'k'))(f), B, K)
    for f in ('groupselectmin', 'groupselectmax'):
        add(f, 1, (lambda f: lambda a, b: getattr(etl, f)(a, 'k', 'n'))(f), B, K)
    add('mergeduplicates', 1, lambda a, b: etl.mergeduplicates(etl.cut(a, 'k', 'n'), 'k'), B, K)
    add('merge', 2, lambda a, b: etl.merge(etl.cut(a, 'k', 'n'), b, key='k'), B, K)
    add('groupcountdistinctvalues', 1, lambda a, b: etl.groupcountdistinctvalues(a, 'k', 'n'), B, K)
    add('valuecounts', 1, lambda a, b: etl.valuecounts(a, 'k'), B)
    # --- util views
    add('cache', 1, lambda a, b: etl.wrap(a).cache(), S)
    add('cache(n=2)', 1, lambda a, b: etl.wrap(a).cache(2), S)
    add('wrap', 1, lambda a, b: etl.wrap(a), S)
    add('progress', 1, lambda a, b: etl.progress(a, 2, out=_Null()), S)
    add('clock', 1, lambda a, b: etl.clock(a), S)
    add('values', 1, lambda a, b: etl.values(a, 'n'), S, 'accessor')
    add('values(multi)', 1, lambda a, b: etl.values(a, 'k', 'n'), S, 'accessor')
    add('data', 1, lambda a, b: etl.data(a), S, 'accessor')
    add('dicts', 1, lambda a, b: etl.dicts(a), S, 'accessor')
    add('records', 1, lambda a, b: etl.records(a), S, 'accessor')
    add('namedtuples', 1, lambda a, b: etl.namedtuples(a), S, 'accessor')
    add('fieldnames-view header', 1, lambda a, b: etl.head(a, 0), S)
    add('fromcolumns', 1, lambda a, b: etl.fromcolumns(etl.columns(a).values() if hasattr(a, '__getitem__') else [[1, 2], [3, 4]], header=AH), B)
    add('fromdicts(list)', 1, lambda a, b: etl.fromdicts(list(etl.dicts(a)), header=AH), B)
    add('validate', 1, lambda a, b: etl.validate(a, constraints=[dict(name='n_int', field='n', test=int)], header=AH), S)
    return E


class _Null(object):
    def write(self, *_a):
        pass

    def flush(self):
        pass


def by_name():
    return {e['name']: e for e in entries()}
