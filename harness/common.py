"""Shared plumbing for the per-property harnesses: TLC case generation, batch trace validation,
private temp dirs, petl global-state hygiene."""
import contextlib
import gc
import os
import shutil
import tempfile

from harness import tlc


def gen(module, cfg=None, outs=('OUT',), timeout=1200, env=None):
    """Run a *Gen module; returns one list of records per output variable."""
    sdir = tlc.scratch()
    e = dict(env or {})
    paths = []
    for o in outs:
        p = os.path.join(sdir, '%s_%s_%s.ndjson' % (module, cfg or module, o))
        if os.path.exists(p):
            os.remove(p)
        e[o] = p
        paths.append(p)
    r = tlc.run(module, cfg=cfg, timeout=timeout, env=e, workers=1, coverage=False)
    if r.error or r.violated:
        raise tlc.MachineryError('%s/%s failed: %s' % (module, cfg, r.error or r.violated))
    res = [tlc.read_ndjson(p) for p in paths]
    for p in paths:
        os.remove(p)
    return res if len(res) > 1 else res[0]


def verdicts(r):
    """Parse <<"VERDICT", tid, x, y, ...>> lines -> {tid: (x, y, ...)}."""
    out = {}
    for line in r.prints:
        if line.startswith('<<"VERDICT"'):
            parts = [p.strip() for p in line.strip().strip('<>').split(',')]
            out[int(parts[1])] = tuple(int(x) if x.lstrip('-').isdigit() else x.strip('"') for x in parts[2:])
    return out


def validate(module, traces, cfg=None, timeout=1200, name=None, env=None):
    """Batch trace validation: one JVM for all traces; returns (TLCResult, {tid: verdict tuple})."""
    sdir = tlc.scratch()
    path = os.path.join(sdir, (name or module) + '_traces.ndjson')
    tlc.write_ndjson(path, traces)
    e = {'TRACE_FILE': path}
    e.update(env or {})
    r = tlc.run(module, cfg=cfg, timeout=timeout, env=e, workers=1, coverage=False)
    if r.error or r.violated:
        raise tlc.MachineryError('%s trace validation failed: %s' % (module, r.error or r.violated))
    v = verdicts(r)
    if len(v) != len(traces):
        raise tlc.MachineryError('%s: %d verdicts for %d traces\n%s' % (module, len(v), len(traces), r.stdout[-2000:]))
    os.remove(path)
    return r, v


@contextlib.contextmanager
def private_tmp():
    """A fresh private temp directory that is also the process default (tempfile.tempdir), removed
    afterwards; petl global configuration is restored."""
    import petl.config as cfg
    saved_cfg = {k: getattr(cfg, k) for k in dir(cfg) if not k.startswith('_') and
                 isinstance(getattr(cfg, k), (int, str, bool, type(None), float))}
    saved_tmp = tempfile.tempdir
    d = tempfile.mkdtemp(prefix='case_', dir=tlc.scratch())
    tempfile.tempdir = d
    try:
        yield d
    finally:
        tempfile.tempdir = saved_tmp
        for k, v in saved_cfg.items():
            setattr(cfg, k, v)
        try:
            left = bool(os.listdir(d))
        except OSError:
            left = False
        if left:
            gc.collect()          # objects that own temp files but are only reachable through cycles (costly on a large heap)
        shutil.rmtree(d, ignore_errors=True)


def hyp_settings(n, seed):
    from hypothesis import settings, HealthCheck
    return settings(max_examples=n, database=None, deadline=None, derandomize=False,
                    suppress_health_check=list(HealthCheck))


def cell_values():
    """Hypothesis strategy: concrete cell values from the C04 domain (hashable, natively rankable
    inside their class)."""
    from hypothesis import strategies as st
    from decimal import Decimal
    import datetime as dt
    return st.one_of(
        st.none(), st.booleans(), st.integers(-3, 3), st.integers(-2 ** 70, 2 ** 70),
        st.sampled_from([0.0, 1.0, 2.5, -1.5, float('inf'), float('-inf')]),
        st.sampled_from([Decimal(1), Decimal('2.5'), Decimal(-2), Decimal('0.1'), Decimal(2 ** 53 + 1)]),
        st.sampled_from([0.1, float(2 ** 53)]),
        st.sampled_from([b'', b'a', b'B']), st.sampled_from([u'', u'a', u'B', u'\xe9']),
        st.sampled_from([dt.date(2020, 1, 1), dt.date(1999, 12, 31)]),
        st.sampled_from([dt.datetime(2020, 1, 1), dt.datetime(2020, 1, 1, 12)]),
        st.sampled_from([dt.time(0, 0), dt.time(12, 30)]),
        st.sampled_from([(1, None), (1, u'a'), (2,), ()]),
    )


def _worker_init():
    # every worker gets its own default temp directory: thousands of chunk files per second created and unlinked in ONE
    # directory by many processes contend on that directory
    d = tempfile.mkdtemp(prefix='w%d_' % os.getpid(), dir=tlc.scratch())
    tempfile.tempdir = d
    gc.freeze()      # the inherited heap (case lists) is never garbage: keep the collector from scanning it at every gc.collect()


def pmap(func, items, procs=None, chunksize=4, min_items=64):
    """Order-preserving parallel map over forked worker processes (the replay of TLC-generated cases on petl is
    CPU-bound, single-threaded Python).  `func` must be a module-level function; it runs in a child that inherited
    sys.path (VERIF_REPO) and the imported modules.  Falls back to a plain loop for short lists, with
    VERIF_PROCS=1, or when no pool can be created."""
    items = list(items)
    if procs is None:
        procs = int(os.environ.get('VERIF_PROCS', '0')) or max(1, min(14, (os.cpu_count() or 2) - 2))
    if procs <= 1 or len(items) < min_items:
        return [func(x) for x in items]
    try:
        import multiprocessing as mp
        ctx = mp.get_context('fork')
        pool = ctx.Pool(procs, initializer=_worker_init)
    except Exception:
        return [func(x) for x in items]
    try:
        return pool.map(func, items, chunksize)
    finally:
        pool.close()
        pool.join()
