"""C19 - the failonerror policy decides exactly what a failing conversion becomes.

TLC:  FailOnError - convert / fieldmap / rowmap / rowmapmany, one Step per input row, for every set of failing cells
                    (<= 3 rows x 2 fields) x policy: NothingRaised, RaisedAtFirstFailure, NonFailingUntouched, KeepOrDrop.
G:    every terminal behaviour is replayed on the real operators with converters that raise exactly on the failing
      cells, iterated with next(); policy given as argument and through petl.config.failonerror; errorvalue variants.
V:    random larger tables / failing sets recorded row by row and validated by FailOnErrorTrace (drives Step).
"""
import json
import random
from collections import OrderedDict

from harness import tlc, common
from harness.core import Check

PID = 'C19'
POLICY = {'false': False, 'true': True, 'inline': 'inline'}


class Boom(Exception):
    pass


# exception classes the converters / mappers raise: a user-defined one and the built-in "data error" classes a
# maintainer might be tempted to special-case
EXCS = [Boom, KeyError, ValueError, TypeError, IndexError, AttributeError, LookupError, ZeroDivisionError, RuntimeError,
        AssertionError, ArithmeticError, UnicodeError, OSError]
ALLEXC = tuple(EXCS)


def build(op, n, fail, policy, via_config, errorvalue, lazy=False, exc=Boom, skip=(), where_form='callable'):
    """Returns (view, describe). Rows are (r, 10r+1, 10r+2); fields a, b are converted."""
    import petl as etl
    import petl.config
    fail = set(map(tuple, fail))
    t = [['r', 'a', 'b']] + [[r, 10 * r + 1, 10 * r + 2] for r in range(1, n + 1)]

    def conv(f):
        def g(v):
            r = v // 10
            if (r, f) in fail:
                raise exc(r, f)
            return ('ok', v)
        return g
    kw = {}
    saved = petl.config.failonerror
    if via_config:
        petl.config.failonerror = POLICY[policy]
    else:
        kw['failonerror'] = POLICY[policy]
    try:
        if op == 'convert':
            if errorvalue is not None:
                kw['errorvalue'] = errorvalue
            if skip:
                sk = set(skip)
                if where_form == 'callable':
                    kw['where'] = lambda row: row[0] not in sk
                else:
                    kw['where'] = '{r} not in %r' % (sorted(sk),)
            v = etl.convert(t, {'a': conv(1), 'b': conv(2)}, **kw)
        elif op == 'fieldmap':
            if errorvalue is not None:
                kw['errorvalue'] = errorvalue
            v = etl.fieldmap(t, OrderedDict([('r', 'r'), ('a', ('a', conv(1))), ('b', ('b', conv(2)))]), **kw)
        elif op == 'rowmap':
            if lazy:
                # the mapper returns a LAZY row: the conversion (and its failure) happens while petl builds the tuple
                v = etl.rowmap(t, lambda row: (f(x) for f, x in zip((lambda x: x, conv(1), conv(2)), row)), header=['r', 'a', 'b'], **kw)
            else:
                v = etl.rowmap(t, lambda row: [row[0], conv(1)(row[1]), conv(2)(row[2])], header=['r', 'a', 'b'], **kw)
        else:
            def gen(row):
                yield [row[0], 1, conv(1)(row[1])]
                yield [row[0], 2, conv(2)(row[2])]
            v = etl.rowmapmany(t, gen, header=['r', 'f', 'v'], **kw)
    finally:
        petl.config.failonerror = saved       # the default is read when the view is constructed
    return v


def abstract_item(op, row, errorvalue, current_row):
    """Project a delivered row to the spec's item."""
    def cell(c, f, r):
        if isinstance(c, BaseException):
            return 'exc' if c.args == (r, f) else 'exc-wrong'
        if c == ('ok', 10 * r + f):
            return 'ok'
        if c == 10 * r + f:
            return 'raw'
        if c == errorvalue or (errorvalue is None and c is None):
            return 'errorvalue'
        return 'other:%r' % (c,)
    row = tuple(row)
    if op in ('convert', 'fieldmap'):
        return [row[0], cell(row[1], 1, row[0]), cell(row[2], 2, row[0])]
    if op == 'rowmap':
        if len(row) == 1 and isinstance(row[0], BaseException):
            return [row[0].args[0], 'exc']
        ok = row[1] == ('ok', 10 * row[0] + 1) and row[2] == ('ok', 10 * row[0] + 2)
        return [row[0], 'ok' if ok else 'other']
    if len(row) == 1 and isinstance(row[0], BaseException):
        return [row[0].args[0], row[0].args[1], 'exc']
    return [row[0], row[1], 'ok' if row[2] == ('ok', 10 * row[0] + row[1]) else 'other']


def iterate(op, v, n, errorvalue):
    """Drive with next(); returns (items, raised, raised_after_items, events per input row)."""
    it = iter(v)
    next(it)
    items, raised = [], False
    while True:
        try:
            row = next(it)
        except StopIteration:
            break
        except ALLEXC as e:
            if len(e.args) != 2:
                raise
            raised = True
            break
        items.append(abstract_item(op, row, errorvalue, None))
    after = None
    if raised:
        # DRIFT-level: after the exception the iterator is finished
        try:
            next(it)
            after = 'delivered more rows after raising'
        except StopIteration:
            pass
        except Exception as e:
            after = 'raised again: %r' % (e,)
    return items, raised, after


def check_case(chk, case, via_config, errorvalue, lazy=False, exc=Boom, where_form='callable'):
    op = case['op']
    try:
        v = build(op, case['n'], case['fail'], case['policy'], via_config, errorvalue, lazy, exc, case.get('skip', ()), where_form)
        items, raised, after = iterate(op, v, case['n'], errorvalue)
        items2, raised2, _ = iterate(op, v, case['n'], errorvalue)        # second pass: same outcome
    except Exception as e:
        items, raised, after, items2, raised2 = 'harness-visible exception %r' % (e,), None, None, None, None
    want = [list(x) for x in case['out']]
    what = '%s policy=%s (%s) errorvalue=%r n=%d failing=%r%s%s' % (op, case['policy'], 'config default' if via_config else 'argument',
                                                                   errorvalue, case['n'], case['fail'],
                                                                   ' where excludes rows %r (%s)' % (case['skip'], where_form) if case.get('skip') else '',
                                                                   '' if exc is Boom else ' raising %s' % exc.__name__)
    if items != want or raised != case['raised']:
        chk.violation({'op': op, 'policy': case['policy'], 'via': 'config' if via_config else 'arg'},
                      '%s: delivered %r raised=%s, spec %r raised=%s' % (what, items, raised, want, case['raised']),
                      {'kind': 'case', 'case': case, 'via_config': via_config, 'errorvalue': errorvalue, 'lazy': lazy,
                       'exc': exc.__name__, 'where_form': where_form})
    elif (items2, raised2) != (items, raised):
        chk.violation({'op': op, 'policy': case['policy'], 'via': 'second-pass'},
                      '%s: second pass delivered %r raised=%s, first pass %r raised=%s' % (what, items2, raised2, items, raised),
                      {'kind': 'case', 'case': case, 'via_config': via_config, 'errorvalue': errorvalue})
    elif after:
        chk.add_drift('%s: %s' % (what, after))


def record_traces(n, seed):
    rng = random.Random(seed)
    traces = []
    for _ in range(n):
        nrows = rng.randrange(0, 9)
        cells = [(r, f) for r in range(1, nrows + 1) for f in (1, 2)]
        fail = sorted(c for c in cells if rng.random() < rng.choice([0.0, 0.15, 0.5]))
        op = rng.choice(['convert', 'fieldmap', 'rowmap', 'rowmapmany'])
        policy = rng.choice(['false', 'true', 'inline'])
        via_config = rng.random() < 0.5
        ev = rng.choice([None, 'ERR', -1])
        exc = rng.choice(EXCS)
        skip = sorted(r for r in range(1, nrows + 1) if rng.random() < 0.3) if op == 'convert' and rng.random() < 0.5 else []
        v = build(op, nrows, fail, policy, via_config, ev if op in ('convert', 'fieldmap') else None, exc=exc, skip=skip,
                  where_form=rng.choice(['callable', 'expression']))
        it = iter(v)
        next(it)
        per_row = {}
        raised_at = None
        failset = set(fail)
        # group delivered items by input row; the exception belongs to the first failing row not yet seen
        while True:
            try:
                row = next(it)
            except StopIteration:
                break
            except ALLEXC as e:
                if len(e.args) != 2:
                    raise
                raised_at = e.args[0]
                break
            item = abstract_item(op, row, ev if op in ('convert', 'fieldmap') else None, None)
            per_row.setdefault(item[0], []).append(item)
        last = raised_at if raised_at is not None else nrows
        events = [{'items': per_row.get(r, []), 'raised': r == raised_at} for r in range(1, last + 1)]
        traces.append({'n': nrows, 'fail': [list(c) for c in fail], 'policy': policy, 'op': op, 'events': events,
                       'via_config': via_config, 'skip': skip, 'exc': exc.__name__})
    return traces


def validate_traces(chk, traces, seed):
    r, verdicts = common.validate('FailOnErrorTrace', traces)
    chk.add_tlc(r, 'FailOnErrorTrace')
    for tid, (bad,) in sorted(verdicts.items()):
        if bad:
            t = traces[tid - 1]
            chk.violation({'op': t['op'], 'policy': t['policy'], 'kind': 'trace'},
                          'recorded %s execution rejected by FailOnErrorTrace at row event %d: %r' % (t['op'], bad, t),
                          {'kind': 'trace', 'seed': seed, 'trace': t})
    chk.validated += len(traces)
    chk.sample({'kind': 'failonerror-trace', 'trace': traces[1]})
    cand = [i for i, t in enumerate(traces) if t['policy'] == 'false' and t['op'] == 'convert' and t['fail'] and t['events']]
    if cand:
        bad = json.loads(json.dumps([traces[cand[0]]]))
        r0, f0 = bad[0]['fail'][0]
        bad[0]['events'][r0 - 1]['items'][0][f0] = 'ok'      # the failing cell pretends to have been converted
        r2, v2 = common.validate('FailOnErrorTrace', bad, name='FailOnErrorTraceBad')
        ok = v2[1][0] != 0
        chk.binding_demo = {'corrupted': 'a failing cell logged as converted', 'verdict': list(v2[1]), 'rejected_as_expected': ok}
        if not ok and not chk.violations:
            raise tlc.MachineryError('binding demo failed: corrupted failonerror trace accepted')


def check_converter_forms(chk):
    """The policy also governs converters given in the other documented FORMS (method name, method name with
    arguments, dictionary, list of converters) and failures that come from a missing cell of a short row."""
    import petl as etl
    import petl.config
    from collections import OrderedDict
    t = [['r', 'a', 'b'], [1, u'x', u'y'], [2, None, u'z'], [3, u'w', None], [4, u'v', u'u']]
    ragged = [['r', 'a', 'b'], [1, u'x', u'y'], [2, u'q'], [3], [4, u'v', u'u']]
    up = lambda v: v.upper()
    forms = [
        ('convert({a: upper, b: (replace, y, Y)})', lambda kw: etl.convert(t, {'a': 'upper', 'b': ('replace', u'y', u'Y')}, **kw), t,
         {1: lambda v: v.upper(), 2: lambda v: v.replace(u'y', u'Y')}),
        ('convert([None, upper, upper])', lambda kw: etl.convert(t, [None, 'upper', 'upper'], **kw), t, {1: up, 2: up}),
        ('convert((a, b), upper)', lambda kw: etl.convert(t, ('a', 'b'), 'upper', **kw), t, {1: up, 2: up}),
        ('convertall(upper) on (a, b)', lambda kw: etl.convertall(etl.cut(t, 'a', 'b'), 'upper', **kw), [r[1:] for r in t], {0: up, 1: up}),
        ('convert(a, {x: X}) - a dictionary never fails', lambda kw: etl.convert(t, 'a', {u'x': u'X'}, **kw), t, {1: lambda v: {u'x': u'X'}.get(v, v)}),
        ('fieldmap over short rows', lambda kw: etl.fieldmap(ragged, OrderedDict([('r', 'r'), ('a', ('a', up)), ('b', ('b', up))]), **kw), ragged, {1: up, 2: up}),
        ('fieldmap(lambda rec) over short rows', lambda kw: etl.fieldmap(ragged, OrderedDict([('r', 'r'), ('a', lambda rec: rec['a'].upper()), ('b', lambda rec: rec.b.upper())]), **kw),
         ragged, {1: up, 2: up}),
        ('convert over short rows', lambda kw: etl.convert(ragged, {'a': up, 'b': up}, **kw), ragged, {1: up, 2: up}),
    ]
    # failures that do NOT depend on the cell value alone (the same value fails in one row and converts in another)
    tq = [['r', 'a', 'parts'], [1, 6, 0], [2, 6, 3], [3, 6, 0], [4, 6, 2], [5, True, 1], [6, 1, 1], [7, 1.0, 1]]
    forms_extra = [
        ('convert(a, v / row.parts, pass_row)', lambda kw: etl.convert(tq, 'a', lambda v, row: v / row.parts, pass_row=True, **kw), tq,
         {1: None}, lambda row: {1: (lambda v: v / row[2])}),
        ('convert(a, bit_length) on 1 / True / 1.0', lambda kw: etl.convert(tq, 'a', 'bit_length', **kw), tq, {1: lambda v: v.bit_length()}, None),
        ('fieldmap(a -> {dict}) with unhashable cells', lambda kw: etl.fieldmap([['r', 'a'], [1, 'x'], [2, ['u']], [3, {'d': 1}], [4, 'y']],
                                                                                 OrderedDict([('r', 'r'), ('a', ('a', {'x': 'X'}))]), **kw),
         [['r', 'a'], [1, 'x'], [2, ['u']], [3, {'d': 1}], [4, 'y']], {1: lambda v: {'x': 'X'}[v] if v in {'x': 'X'} else v}, None),
    ]
    for name, mk, table, convs, rowconvs in [f + (None,) for f in forms] + forms_extra:
        is_fieldmap = name.startswith('fieldmap')
        width = len(table[0])
        for policy in ('false', 'true', 'inline'):
            for ev in (None, u'EV', 0):
                for via_config in (False, True):
                    kw = {} if ev is None else {'errorvalue': ev}
                    saved = petl.config.failonerror
                    try:
                        if via_config:
                            petl.config.failonerror = POLICY[policy]
                        else:
                            kw['failonerror'] = POLICY[policy]
                        try:
                            v = mk(kw)
                        finally:
                            petl.config.failonerror = saved
                        # the definition, row by row
                        want, want_raise = [], False
                        for row in table[1:]:
                            cells = list(row) + ([None] * (width - len(row)) if is_fieldmap else [])
                            out, failed = [], False
                            cv = rowconvs(row) if rowconvs else convs
                            if is_fieldmap and len(table[0]) == 2:
                                cells = cells[:2]
                            for j, c in enumerate(cells):
                                if j in cv:
                                    try:
                                        out.append(cv[j](c))
                                    except Exception as e:
                                        failed = True
                                        out.append('EXC' if policy == 'inline' else ev)
                                else:
                                    out.append(c)
                            if failed and policy == 'true':
                                want_raise = True
                                break
                            want.append(tuple(out))
                        got, raised = [], False
                        it = iter(v)
                        next(it)
                        while True:
                            try:
                                r = next(it)
                            except StopIteration:
                                break
                            except Exception:
                                raised = True
                                break
                            got.append(tuple('EXC' if isinstance(c, BaseException) else c for c in r))
                    except Exception as e:
                        got, raised, want, want_raise = 'harness-visible exception %r' % (e,), None, None, None
                    chk.count(('converter-form', name, policy, ev, via_config))
                    chk.replayed += 1
                    if got != want or raised != want_raise:
                        chk.violation({'op': name.split('(')[0], 'policy': policy, 'kind': 'converter-form'},
                                      '%s policy=%s (%s) errorvalue=%r: delivered %r raised=%s, definition %r raised=%s'
                                      % (name, policy, 'config default' if via_config else 'argument', ev, got, raised, want, want_raise),
                                      {'kind': 'converter-form', 'name': name})


def check_convertnumbers(chk):
    """convertnumbers (strict or not) takes its policy like every other conversion: argument, else petl.config."""
    import petl as etl
    import petl.config
    t = [['a'], [u'1'], [u'x1'], [u'2.5']]
    for strict in (False, True):
        for policy in ('false', 'true', 'inline'):
            for via_config in (False, True):
                kw = {'strict': strict}
                saved = petl.config.failonerror
                try:
                    if via_config:
                        petl.config.failonerror = POLICY[policy]
                    else:
                        kw['failonerror'] = POLICY[policy]
                    try:
                        v = etl.convertnumbers(t, **kw)
                    finally:
                        petl.config.failonerror = saved
                    got, raised = [], False
                    try:
                        for r in list(iter(v))[1:]:
                            got.append('EXC' if isinstance(r[0], BaseException) else r[0])
                    except Exception:
                        raised = True
                except Exception as e:
                    got, raised = 'harness-visible %r' % (e,), None
                if not strict:
                    want, want_raise = [1, u'x1', 2.5], False            # non-strict: an unparseable value is left as it is
                elif policy == 'true':
                    want, want_raise = None, True
                else:
                    want, want_raise = [1, ('EXC' if policy == 'inline' else None), 2.5], False
                chk.count(('convertnumbers', strict, policy, via_config))
                chk.replayed += 1
                if raised != want_raise or (want is not None and got != want):
                    chk.violation({'op': 'convertnumbers', 'policy': policy, 'kind': 'converter-form'},
                                  'convertnumbers(strict=%s) policy=%s (%s): delivered %r raised=%s, definition %r raised=%s'
                                  % (strict, policy, 'config default' if via_config else 'argument', got, raised, want, want_raise),
                                  {'kind': 'converter-form', 'name': 'convertnumbers'})


def run(tier, seed):
    chk = Check(PID, tier, seed)
    full = tier == 'thorough'
    r = tlc.require_ok(tlc.run('FailOnError', cfg='FailOnErrorMCT' if full else 'FailOnErrorMC', timeout=1800), 'FailOnError')
    tlc.check_coverage(r, ['Step', 'Finish'], 'FailOnError')
    chk.add_tlc(r, 'FailOnError', 'FailOnErrorMCT' if full else 'FailOnErrorMC', ['Step', 'Finish'])
    rg = tlc.run('FailOnError', cfg='FailOnErrorGenT' if full else 'FailOnErrorGen', timeout=1800, workers=1, coverage=False)
    if rg.error or rg.violated:
        raise tlc.MachineryError('FailOnErrorGen: %s' % (rg.error or rg.violated))
    cases = [json.loads(json.loads(l)) for l in rg.prints if l.startswith('"{')]
    if len(cases) < 500:
        raise tlc.MachineryError('FailOnErrorGen emitted only %d behaviours' % len(cases))
    for ci, case in enumerate(cases):
        for via_config in (False, True):
            for ev in ((None, 'ERR') if case['op'] in ('convert', 'fieldmap') else (None,)):
                check_case(chk, case, via_config, ev)
                chk.count(('case', ci, via_config, ev))
                chk.replayed += 1
                if case['fail']:
                    # the same behaviour with a built-in exception class (rotating; all of them in the thorough tier)
                    for ex in (EXCS[1:] if full else [EXCS[1 + (ci + (7 if via_config else 0)) % (len(EXCS) - 1)]]):
                        check_case(chk, case, via_config, ev, exc=ex)
                        chk.count(('case-exc', ci, via_config, ev, ex.__name__))
                        chk.replayed += 1
                if case.get('skip'):
                    check_case(chk, case, via_config, ev, where_form='expression')
                    chk.count(('case-where-expr', ci, via_config, ev))
                    chk.replayed += 1
                if case['op'] == 'rowmap':
                    check_case(chk, case, via_config, ev, lazy=True)
                    chk.count(('case-lazy', ci, via_config))
                    chk.replayed += 1
    chk.sample({'kind': 'failonerror-behaviour', 'case': cases[len(cases) // 2]})
    check_converter_forms(chk)
    check_convertnumbers(chk)
    traces = record_traces(3000 if full else 400, seed)
    validate_traces(chk, traces, seed)
    chk.exhaustive = True
    chk.assumptions = ['converters/mappers raise ordinary Exception subclasses; the config default is read when the view is constructed']
    return chk.finish(rule='G: every terminal behaviour (<= 3 rows x every subset of failing cells x 3 policies x 4 operators) x '
                           '(argument | config default) x errorvalue on the real operators, two passes, driven by next(); '
                           'V: random tables (<= 8 rows) validated by FailOnErrorTrace')


def replay(path):
    with open(path) as f:
        rp = json.load(f)['replay']
    if rp['kind'] != 'case':
        print('trace replay: rerun ./check C19 with VERIF_SEED=%s' % rp['seed'])
        return 0
    chk = Check(PID, 'quick', 0)
    exc = [e for e in EXCS if e.__name__ == rp.get('exc', 'Boom')][0]
    check_case(chk, rp['case'], rp['via_config'], rp['errorvalue'], rp.get('lazy', False), exc, rp.get('where_form', 'callable'))
    return 1 if chk.violations else 0
