"""C04 - mixed-type ordering is one consistent total preorder (DESIGN.md section 3, C04).

TLC:  OrderingMC  - strict-weak-order laws over all pairs/triples of the bounded universe.
G:    OrderingGen - relation matrix + sort/issorted/selector expectations replayed on
                    petl.comparison.Comparable, sort, issorted, select*.
V:    Hypothesis batches of concrete values, abstracted to (class, native rank), every pairwise
      comparison recorded as a `cmp` event and validated by OrderingTrace.
"""
import itertools
import json
import operator
import os
import random

from harness import tlc, values
from harness.core import Check

PID = 'C04'


def _cmp5(a, b):
    from petl.comparison import Comparable as C
    ca, cb = C(a), C(b)
    return {'lt': ca < cb, 'eq': ca == cb, 'le': ca <= cb, 'gt': ca > cb, 'ge': ca >= cb}


def _mc(chk, tier):
    cfg = 'OrderingMC' if tier == 'thorough' else 'OrderingMCq'
    r = tlc.require_ok(tlc.run('OrderingMC', cfg=cfg, timeout=900), 'OrderingMC')
    if r.distinct < 1000:
        raise tlc.MachineryError('OrderingMC explored suspiciously few states: %d' % r.distinct)
    chk.add_tlc(r, 'OrderingMC', cfg)


def _gen(chk):
    out = os.path.join(tlc.scratch(), 'ordering_cases.ndjson')
    r = tlc.run('OrderingGen', timeout=600, env={'OUT': out}, workers=1, coverage=False)
    if r.error or r.violated:
        raise tlc.MachineryError('OrderingGen failed: %s' % (r.error or r.violated))
    return tlc.read_ndjson(out)


def check_rel(chk, recs, nvariants, rng):
    rel = [x for x in recs if x['kind'] == 'rel']
    n = len(rel)
    byid = {x['i']: x for x in rel}
    exp = {}
    for x in rel:
        for op in ('lt', 'eq', 'le', 'gt', 'ge'):
            s = set(x[op])
            for j in range(1, n + 1):
                exp[(x['i'], j, op)] = j in s
    for i in range(1, n + 1):
        for j in range(1, n + 1):
            for k in range(nvariants):
                va, vb = (k, k + 1) if k < nvariants - 1 else (rng.randrange(6), rng.randrange(6))
                a = values.conc(byid[i]['v'], va)
                b = values.conc(byid[j]['v'], vb)
                try:
                    got = _cmp5(a, b)
                    err = None
                except Exception as e:   # the ordering must be total on the domain
                    got, err = {}, repr(e)
                want = {op: exp[(i, j, op)] for op in ('lt', 'eq', 'le', 'gt', 'ge')}
                chk.count(('rel', i, j))
                chk.replayed += 1
                if err or got != want:
                    chk.violation({'kind': 'rel', 'ca': byid[i]['v']['c'], 'cb': byid[j]['v']['c']},
                                  'Comparable(%r) vs Comparable(%r): spec %s, code %s' % (a, b, want, err or got),
                                  {'kind': 'rel', 'a': byid[i]['v'], 'b': byid[j]['v'], 'va': va, 'vb': vb,
                                   'want': want})
    chk.sample({'kind': 'rel', 'a': byid[1]['v'], 'b': byid[2]['v'],
                'concrete': [repr(values.conc(byid[1]['v'])), repr(values.conc(byid[2]['v']))],
                'expected_lt': exp[(1, 2, 'lt')]})


def _run_users(case, variant):
    """Run one generated sort / select / range case on the real operators; returns list of
    (what, want, got)."""
    import petl as etl
    res = []
    if case['kind'] == 'sort':
        keys = [values.conc(k, variant + i) for i, k in enumerate(case['keys'])]
        t = [['k', 'id']] + [[k, i + 1] for i, k in enumerate(keys)]
        for rev, want in ((False, case['asc']), (True, case['desc'])):
            for bs in (None, 1, 2):
                try:
                    got = [r[1] for r in etl.data(etl.sort(t, 'k', reverse=rev, buffersize=bs))]
                except Exception as e:
                    got = repr(e)
                res.append(('sort reverse=%s buffersize=%s keys=%r' % (rev, bs, keys), want, got))
        for rev, strict, fld in ((False, False, 'sorted'), (False, True, 'sortedstrict'),
                                 (True, False, 'rsorted'), (True, True, 'rsortedstrict')):
            try:
                got = etl.issorted(t, key='k', reverse=rev, strict=strict)
            except Exception as e:
                got = repr(e)
            res.append(('issorted(key=k, reverse=%s, strict=%s) keys=%r' % (rev, strict, keys), case[fld], got))
            # key=None on a one-column table: the row (k,) is the key, same order on the domain
            t1 = [['k']] + [[k] for k in keys]
            try:
                got = etl.issorted(t1, reverse=rev, strict=strict)
            except Exception as e:
                got = repr(e)
            res.append(('issorted(key=None, reverse=%s, strict=%s) rows=%r' % (rev, strict, t1[1:]), case[fld], got))
    elif case['kind'] == 'select':
        cells = [values.conc(c, variant) for c in case['cells']]
        ref = values.conc(case['ref'], variant + 1)
        t = [['k', 'id']] + [[c, i + 1] for i, c in enumerate(cells)]
        for name, fld in (('selectlt', 'lt'), ('selectle', 'le'), ('selectgt', 'gt'), ('selectge', 'ge')):
            for compl in (False, True):
                want = sorted(case[fld]) if not compl else sorted(set(range(1, len(cells) + 1)) - set(case[fld]))
                try:
                    got = [r[1] for r in etl.data(getattr(etl, name)(t, 'k', ref, complement=compl))]
                except Exception as e:
                    got = repr(e)
                res.append(('%s(ref=%r, complement=%s) cells=%r' % (name, ref, compl, cells), want, got))
    elif case['kind'] == 'range':
        cells = [values.conc(c, variant) for c in case['cells']]
        lo = values.conc(case['lo'], variant + 1)
        hi = values.conc(case['hi'], variant + 2)
        t = [['k', 'id']] + [[c, i + 1] for i, c in enumerate(cells)]
        # petl's names: rangeopen = [lo, hi]; rangeopenleft = [lo, hi); rangeopenright = (lo, hi];
        # rangeclosed = (lo, hi)
        for name, fld in (('selectrangeopen', 'ge_le'), ('selectrangeopenleft', 'ge_lt'),
                          ('selectrangeopenright', 'gt_le'), ('selectrangeclosed', 'gt_lt')):
            try:
                got = [r[1] for r in etl.data(getattr(etl, name)(t, 'k', lo, hi))]
            except Exception as e:
                got = repr(e)
            res.append(('%s(%r, %r) cells=%r' % (name, lo, hi, cells), sorted(case[fld]), got))
    return res


def check_users(chk, recs, variants):
    for case in recs:
        if case['kind'] == 'rel':
            continue
        for variant in variants:
            for what, want, got in _run_users(case, variant):
                chk.count((case['kind'], what))
                chk.replayed += 1
                if want != got:
                    op = what.split('(')[0].split(' ')[0]
                    sig = {'kind': case['kind'], 'op': op}
                    if op == 'issorted':
                        sig['keyarg'] = 'None' if 'key=None' in what else 'k'
                    if case['kind'] in ('select', 'range'):
                        sig['listcell'] = variant % 2 == 1
                    chk.violation(sig, '%s: spec %r, code %r' % (what, want, got),
                                  {'kind': 'users', 'case': case, 'variant': variant})
    chk.sample({'kind': 'sort-case', 'case': [c for c in recs if c['kind'] == 'sort'][200]})


# ---- V direction ------------------------------------------------------------------------------

def _value_strategy():
    from hypothesis import strategies as st
    from decimal import Decimal
    import datetime as dt
    scal = st.one_of(
        st.none(), st.booleans(),
        st.integers(-5, 5), st.integers(-2 ** 80, 2 ** 80),
        st.floats(allow_nan=False), st.sampled_from([0.0, -0.0, 1.0, 2.5, float('inf'), float('-inf')]),
        st.decimals(allow_nan=False, allow_infinity=False, places=2, min_value=-1000, max_value=1000),
        st.sampled_from([Decimal(1), Decimal('2.5'), Decimal(0)]),
        st.binary(max_size=3), st.text(max_size=3),
        st.dates(), st.datetimes(), st.times(),
        st.sampled_from([dt.date(2020, 1, 1), dt.datetime(2020, 1, 1), dt.time(0, 0), 'a', b'a', 1, 1.0]),
    )
    seq1 = st.one_of(st.lists(scal, max_size=3), st.lists(scal, max_size=3).map(tuple))
    inner = st.one_of(scal, seq1)
    seq2 = st.one_of(st.lists(inner, max_size=3), st.lists(inner, max_size=3).map(tuple))
    return st.one_of(scal, scal, seq1, seq2)


def record_traces(n_examples, seed):
    from hypothesis import given, settings, strategies as st, seed as hseed, HealthCheck
    traces = []
    concrete = []

    @hseed(seed)
    @settings(max_examples=n_examples, database=None, deadline=None, derandomize=False,
              suppress_health_check=list(HealthCheck))
    @given(st.lists(_value_strategy(), min_size=2, max_size=6))
    def go(batch):
        try:
            abst = values.abstract_batch(batch)
        except (TypeError, ValueError, ArithmeticError):
            return   # batch not natively rankable inside a class (outside the domain)
        cmps = []
        for i, j in itertools.product(range(len(batch)), repeat=2):
            try:
                got = _cmp5(batch[i], batch[j])
            except Exception as e:
                got = {'lt': False, 'eq': False, 'le': False, 'gt': False, 'ge': False, 'exc': repr(e)}
            ev = {'a': i + 1, 'b': j + 1}
            ev.update({k: v for k, v in got.items() if k != 'exc'})
            ev['raised'] = 'exc' in got
            cmps.append(ev)
        traces.append({'vals': abst, 'cmps': cmps})
        concrete.append([repr(x) for x in batch])
    go()
    # deterministic batches of numbers that are CLOSE but not equal across representations (Python compares int, float,
    # Decimal and bool exactly): pairs below float resolution, beyond float range, around 2**53 and 2**63
    from decimal import Decimal
    near = [
        [Decimal('0.1'), 0.1, Decimal('0.1000000000000000055511151231257827'), 0, Decimal('0.10000000000000001')],
        [Decimal(2 ** 53 + 1), float(2 ** 53), 2 ** 53, 2 ** 53 + 1, Decimal(2 ** 53)],
        [Decimal('1E+400'), float('inf'), 10 ** 400, Decimal('-1E+400'), float('-inf'), -10 ** 400],
        [True, 1, 1.0, Decimal(1), Decimal('1.0000000000000000001'), 1.0000000000000002],
        [2 ** 63, float(2 ** 63), 2 ** 63 + 1, Decimal(2 ** 63) + Decimal('0.5'), 2 ** 63 - 1],
        [Decimal('1E-400'), 0.0, -0.0, Decimal('-1E-400'), 5e-324, Decimal(0), False],
        [(Decimal('0.1'), 1), (0.1, 0), [Decimal('0.1'), 2], (0.1,)],
    ]
    for batch in near:
        abst = values.abstract_batch(batch)
        cmps = []
        for i, j in itertools.product(range(len(batch)), repeat=2):
            try:
                got = _cmp5(batch[i], batch[j])
            except Exception as e:
                got = {'lt': False, 'eq': False, 'le': False, 'gt': False, 'ge': False, 'exc': repr(e)}
            ev = {'a': i + 1, 'b': j + 1}
            ev.update({k: v for k, v in got.items() if k != 'exc'})
            ev['raised'] = 'exc' in got
            cmps.append(ev)
        traces.append({'vals': abst, 'cmps': cmps})
        concrete.append([repr(x) for x in batch])
    return traces, concrete


def validate_traces(chk, traces, concrete, seed, demo=True):
    sdir = tlc.scratch()
    path = os.path.join(sdir, 'ordering_traces.ndjson')
    tlc.write_ndjson(path, traces)
    r = tlc.run('OrderingTrace', timeout=900, env={'TRACE_FILE': path}, workers=1, coverage=False)
    if r.error or r.violated:
        raise tlc.MachineryError('OrderingTrace failed: %s' % (r.error or r.violated))
    verdicts = _verdicts(r)
    if len(verdicts) != len(traces):
        raise tlc.MachineryError('OrderingTrace: %d verdicts for %d traces' % (len(verdicts), len(traces)))
    for tid, bad in sorted(verdicts.items()):
        tr = traces[tid - 1]
        raised = [e for e in tr['cmps'] if e['raised']]
        if bad or raised:
            ev = tr['cmps'][bad - 1] if bad else raised[0]
            chk.violation({'kind': 'trace'},
                          'recorded comparison disagrees with Ordering.tla at event %d: %r on values %r / %r'
                          % (bad, ev, concrete[tid - 1][ev['a'] - 1], concrete[tid - 1][ev['b'] - 1]),
                          {'kind': 'trace', 'seed': seed, 'values': concrete[tid - 1], 'event': ev,
                           'abstract': tr['vals']})
    chk.validated += len(traces)
    chk.add_tlc(r, 'OrderingTrace')
    if traces:
        chk.sample({'kind': 'trace', 'values': concrete[0], 'abstract': traces[0]['vals'],
                    'first_events': traces[0]['cmps'][:3]})
    if demo and traces:
        # binding demonstration: flip one recorded truth value; TLC must reject exactly that trace
        bad = json.loads(json.dumps(traces[:3]))
        bad[1]['cmps'][1]['lt'] = not bad[1]['cmps'][1]['lt']
        p2 = os.path.join(sdir, 'ordering_traces_bad.ndjson')
        tlc.write_ndjson(p2, bad)
        r2 = tlc.run('OrderingTrace', timeout=300, env={'TRACE_FILE': p2}, workers=1, coverage=False)
        v2 = _verdicts(r2)
        ok = v2.get(2) == 2        # the corrupted event of trace 2 is the one reported
        chk.binding_demo = {'corrupted': 'trace 2, event 2, field lt flipped', 'verdicts': v2,
                            'rejected_as_expected': ok}
        if not ok and not chk.violations:
            raise tlc.MachineryError('binding demo failed: corrupted trace not rejected: %r' % v2)


def _verdicts(r):
    out = {}
    for line in r.prints:
        if line.startswith('<<"VERDICT"'):
            parts = line.strip('<>').split(',')
            out[int(parts[1])] = int(parts[2])
    return out


def run(tier, seed):
    chk = Check(PID, tier, seed)
    rng = random.Random(seed)
    _mc(chk, tier)
    recs = _gen(chk)
    check_rel(chk, recs, 3 if tier == 'quick' else 6, rng)
    check_users(chk, recs, (0, 1) if tier == 'quick' else (0, 1, 2, 3))
    traces, concrete = record_traces(400 if tier == 'quick' else 4000, seed)
    validate_traces(chk, traces, concrete, seed)
    chk.exhaustive = True
    chk.assumptions = ['value domain as stated in C04 (no NaN, naive date/time, no user classes)',
                       'CPython native comparison semantics for the stdlib types',
                       'bounded universe: 3 numeric ranks, 2 ranks per other class, sequences of length <= 2 nested to depth 2']
    return chk.finish(rule='G: every ordered pair of the TLC universe x concrete representatives (int/float/bool/Decimal, '
                           'tuple/list) on Comparable, plus every TLC sort/issorted/select/range case on the real operators; '
                           'V: Hypothesis batches of concrete values, all pairwise comparisons validated by OrderingTrace; '
                           'distinct = distinct (kind, case) keys')


def replay(path):
    with open(path) as f:
        rp = json.load(f)['replay']
    if rp['kind'] == 'rel':
        a, b = values.conc(rp['a'], rp['va']), values.conc(rp['b'], rp['vb'])
        got = _cmp5(a, b)
        print('a=%r b=%r want=%r got=%r' % (a, b, rp['want'], got))
        return 0 if got == rp['want'] else 1
    if rp['kind'] == 'users':
        bad = [(w, a, b) for w, a, b in _run_users(rp['case'], rp['variant']) if a != b]
        for w, a, b in bad:
            print('%s: spec %r code %r' % (w, a, b))
        return 1 if bad else 0
    print('trace replays: rerun ./check C04 with VERIF_SEED=%s' % rp.get('seed'))
    return 0
