"""Shared by C15 / C16: codecs, adversarial cell classes, source kinds, recording source."""
import bz2
import csv
import gzip
import io
import os
import pickle
from contextlib import contextmanager

# adversarial text classes for csv cells (C15): delimiter, quote characters, CR, LF, CRLF, NUL, non-ASCII, astral,
# empty, leading/trailing space
TEXT_CLASSES = {
    'plain': [u'a', u'b2', u'xyz'],
    'delims': [u'a,b', u'c;d', u'e\tf', u'g|h'],
    'quotes': [u'say "hi"', u"it's", u'""', u"'"],
    'newlines': [u'l1\nl2', u'c1\rc2', u'w1\r\nw2', u'\n'],
    'nul': [u'a\x00b'],
    'nonascii': [u'caf\xe9', u'\xfc\xdf'],
    'astral': [u'中文', u'\U0001f600 ok'],
    'edges': [u'', u' lead', u'trail ', u' '],
    'backslash': [u'a\\b', u'\\\\', u'c\\', u'\\n'],
    # every character str.splitlines() breaks at besides CR / LF, and a cell that starts with the BOM character
    'linesep': [u'a\x85b', u'c\u2028d', u'e\u2029f', u'g\x0bh\x0ci', u'\ufeffj', u'k\x1c\x1d\x1el'],
}
LATIN1_OK = ('plain', 'delims', 'quotes', 'newlines', 'nul', 'nonascii', 'edges', 'backslash')
# classes without delimiter / quote / line-break characters: the only ones QUOTE_NONE (no escapechar) can write at all
NO_SPECIALS = ('plain', 'backslash', 'nonascii', 'astral')
TYPED = [None, 1, 2.5, True, u'txt']


def cells_for(cls, rid, j, typed=False):
    """cell j of row `rid` drawn from the adversarial class (deterministic)."""
    if typed:
        return TYPED[(rid + j) % len(TYPED)]
    pool = TEXT_CLASSES[cls]
    return pool[(rid * 2 + j) % len(pool)]


def table_rows(ids, cls, typed=False, ragged=False):
    rows = []
    for k, rid in enumerate(ids):
        r = [cells_for(cls, rid, 0, typed), cells_for(cls, rid, 1, typed)]
        if ragged and k % 3 == 1:
            r = r[:1]
        if ragged and k % 3 == 2:
            r = r + [u'extra']
        rows.append(r)
    return rows


def render_csv(row):
    """what csv text rendering gives back: str() of every cell, None as ''"""
    return tuple(u'' if c is None else (c if isinstance(c, str) else str(c)) for c in row)


class Target(object):
    """One target of a given source kind inside a private directory."""

    def __init__(self, kind, tmp, name='t'):
        import petl as etl
        self.kind = kind
        if kind == 'memory':
            self.src = etl.MemorySource()
            self.path = None
        else:
            ext = {'path': '', 'gz': '.gz', 'bz2': '.bz2'}[kind]
            self.path = os.path.join(tmp, name + '.dat' + ext)
            if os.path.exists(self.path):
                os.remove(self.path)
            self.src = self.path

    def read_source(self):
        import petl as etl
        if self.kind == 'memory':
            return etl.MemorySource(self.src.getvalue())
        return self.path

    def raw(self):
        """decompressed bytes currently in the target"""
        if self.kind == 'memory':
            return self.src.getvalue() if self.src.buffer is not None or self.src.s is not None else b''
        if not os.path.exists(self.path):
            return b''
        with open(self.path, 'rb') as f:
            data = f.read()
        if self.kind == 'gz':
            return gzip.decompress(data) if data else b''
        if self.kind == 'bz2':
            out, rest = b'', data
            while rest:
                d = bz2.BZ2Decompressor()
                out += d.decompress(rest)
                rest = d.unused_data
            return out
        return data


class RecordingSource(object):
    """A source whose open() returns a binary buffer that logs every write / flush / close."""

    def __init__(self, initial=b''):
        self.data = initial
        self.log = []

    @contextmanager
    def open(self, mode='rb'):
        outer = self
        if 'r' in mode:
            yield io.BytesIO(self.data)
            return

        class Buf(io.BytesIO):
            def write(self, b):
                n = io.BytesIO.write(self, b)
                outer.log.append(('write', self.getvalue()))
                return n

            def flush(self):
                io.BytesIO.flush(self)
                outer.log.append(('flush', self.getvalue()))
        buf = Buf()
        if 'a' in mode:
            io.BytesIO.write(buf, self.data)
        self.log.append(('open', 'append' if 'a' in mode else 'to'))
        try:
            yield buf
        finally:
            self.data = buf.getvalue()
            self.log.append(('close', self.data))
            buf.close()


def count_pickle_records(b):
    f = io.BytesIO(b)
    n = 0
    try:
        while True:
            pickle.load(f)
            n += 1
    except Exception:
        pass
    return n


def count_csv_records(b, encoding, **csvargs):
    try:
        text = b.decode(encoding)
    except Exception:
        # incomplete multi-byte sequence at the end of a chunk: drop up to 3 trailing bytes
        text = None
        for cut in (1, 2, 3):
            try:
                text = b[:-cut].decode(encoding)
                break
            except Exception:
                pass
        if text is None:
            return 0
    if text.startswith(u'﻿'):
        text = text[1:]
    # only complete records (terminated by the writer's line terminator \r\n outside quotes) count
    n = 0
    for row in csv.reader(io.StringIO(text, newline=''), **csvargs):
        n += 1
    if text and not text.endswith(u'\r\n'):
        n = max(0, n - 1)
    return n
