"""C18 - temporary files live exactly as long as something can still read them.

TLC:  SortFiles  - reference model of SortView's object graph (view, generators, the chunk-file list and its
                   holders, cache assignment / clearcache, source failure): NoLeak, ReadersHaveFiles, Complete for all
                   histories of iter / next / drop / dropview of 2-3 iterators, several (nrows, buffersize, cache, failure
                   point) configurations.  DictsSpill (C01) covers the spill file's protocol.
G:    histories generated from SortFiles (with the file count the model predicts after every step) are replayed on the
      real sort() with a private temp dir and gc.collect(): deliveries compared with the solo pass, directory empty once
      everything is released (property level), per-step file counts (model level -> DRIFT); Iterators schedules with a
      view release inserted are replayed on sort-backed operators and fromdicts(generator).
V:    random histories on the real sort() recorded (files after each step) and validated by SortFilesTrace.
"""
import gc
import json
import os
import random
import tempfile

from harness import tlc, common
from harness.core import Check
from harness.probe import ProbeTable, InjectedFailure

PID = 'C18'
KEYS = [2, 1, 2, None, 3, 1]

CFG = """CONSTANTS NSet = {%(N)d}
          BSet = {%(B)d}
          CacheSet = {%(cache)s}
          FailSet = {%(FailAt)d}
          NIter = %(NIter)d
          MaxSteps = %(MaxSteps)d
INIT Init
NEXT Next
INVARIANT EmitHistory
"""


def gen_histories(params, sim=None, seed=0):
    p = dict(params)
    p['cache'] = 'TRUE' if p['cache'] else 'FALSE'
    p.setdefault('MaxSteps', 24)
    path = os.path.join(tlc.scratch(), 'SortFilesGen_%d.cfg' % abs(hash(json.dumps(params, sort_keys=True))))
    with open(path, 'w') as f:
        f.write(CFG % p)
    r = tlc.run('SortFiles', cfg=path, timeout=900, workers=1, coverage=False, sim=sim, seed=seed if sim else None)
    if r.error or r.violated:
        raise tlc.MachineryError('SortFiles history generation %r: %s' % (params, r.error or r.violated))
    hs = [json.loads(json.loads(l))['hist'] for l in r.prints if l.startswith('"{')]
    uniq = {}
    for h in hs:
        uniq[json.dumps(h)] = h
    return list(uniq.values()), r


UNPICKLABLE = lambda: None       # a legal cell value that sorts fine in memory but cannot be dumped to a chunk file
import pickle
DUMP_ERRORS = (pickle.PicklingError, AttributeError, TypeError)


def mk_source(N, FailAt):
    """FailAt in 1..N+1: the source raises there; 100 + r: data row r carries an unpicklable cell."""
    rows = [[KEYS[i % len(KEYS)], i + 1, None] for i in range(N)]
    if FailAt > 100:
        rows[FailAt - 101][2] = UNPICKLABLE
    return ProbeTable(['k', 'id', 'x'], rows=rows, fail_at=(FailAt if 0 < FailAt <= 100 else None)), rows


def solo_pass(rows):
    from petl.comparison import Comparable
    return [('k', 'id', 'x')] + [tuple(r) for r in sorted(rows, key=lambda r: Comparable(r[0]))]


def nfiles(tmp):
    gc.collect()
    return len(os.listdir(tmp))


def replay_history(params, hist):
    """Returns (violation, drift)."""
    import petl as etl
    with common.private_tmp() as tmp:
        src, rows = mk_source(params['N'], params['FailAt'])
        solo = solo_pass(rows)
        # the temp directory given as str or (every third history) as bytes, which tempfile accepts as well
        td = os.fsencode(tmp) if (len(hist) + params['N']) % 3 == 0 else tmp
        view = etl.sort(src, 'k', buffersize=params['B'], cache=params['cache'], tempdir=td)
        its = {}
        drift = None
        for n, ev in enumerate(hist):
            i, a = ev['i'], ev['a']
            if a == 'iter':
                its[i] = iter(view)
            elif a == 'drop':
                its.pop(i, None)
            elif a == 'dropview':
                view = None
            elif a == 'clearcache':
                view.clearcache()
            else:
                want = ev['res']
                try:
                    got = tuple(next(its[i]))
                    if want <= 0 or got != solo[want - 1]:
                        return 'step %d: next(it%d) delivered %r, spec %s' % (
                            n + 1, i, got, solo[want - 1] if want > 0 else ('StopIteration' if want == 0 else 'source failure')), None
                except StopIteration:
                    its.pop(i, None)
                    if want != 0:
                        return 'step %d: next(it%d) stopped, spec item %d' % (n + 1, i, want), None
                except InjectedFailure:
                    its.pop(i, None)
                    if want != -1:
                        return 'step %d: next(it%d) surfaced the source failure, spec item %d' % (n + 1, i, want), None
                except DUMP_ERRORS as e:
                    its.pop(i, None)
                    if isinstance(e, TypeError) and isinstance(td, bytes) and 'bytes' in str(e):
                        # an implementation that builds its temp-file names from str pieces refuses a bytes directory up
                        # front: outside the property (nothing is created, nothing can leak) - the history is skipped
                        its.clear()
                        view = None
                        left = nfiles(tmp)
                        if left:
                            return 'bytes tempdir refused (%r) but %d temporary file(s) remain' % (e, left), None
                        return None, 'bytes tempdir refused by the implementation: %r' % (e,)
                    if not (want == -1 and params['FailAt'] > 100):
                        return 'step %d: next(it%d) raised %r' % (n + 1, i, e), None
                    e = None
                except TypeError as e:
                    if isinstance(td, bytes) and 'bytes' in str(e):
                        # an implementation that builds its temp-file names from str pieces refuses a bytes directory up
                        # front: outside the property (nothing is created, nothing can leak) - the history is skipped
                        its.clear()
                        view = None
                        left = nfiles(tmp)
                        if left:
                            return 'bytes tempdir refused (%r) but %d temporary file(s) remain' % (e, left), None
                        return None, 'bytes tempdir refused by the implementation: %r' % (e,)
                    return 'step %d: next(it%d) raised %r' % (n + 1, i, e), None
                except Exception as e:
                    return 'step %d: next(it%d) raised %r' % (n + 1, i, e), None
            f = nfiles(tmp)
            if f != ev['files'] and drift is None:
                drift = 'N=%(N)d B=%(B)d cache=%(cache)s fail=%(FailAt)d' % params + ' step %d (%s it%d): %d files, model %d' % (n + 1, a, i, f, ev['files'])
        its.clear()
        view = None
        left = nfiles(tmp)
        if left:
            return 'everything released but %d temporary file(s) remain in the temp dir' % left, drift
    return None, drift


def generic_views(tmp):
    import petl as etl
    a = [['k', 'v']] + [[KEYS[i % 6], i] for i in range(5)]
    b = [['k', 'w']] + [[1 + i % 3, i] for i in range(4)]

    def gen_dicts(n):
        return ({'k': i, 'v': 'r%d' % i} for i in range(1, n + 1))
    return [
        ('join', lambda: etl.join(a, b, key='k', buffersize=2, tempdir=tmp)),
        ('leftjoin(nocache)', lambda: etl.leftjoin(a, b, key='k', buffersize=1, cache=False, tempdir=tmp)),
        ('mergesort', lambda: etl.mergesort(a, a, key='k', buffersize=2, tempdir=tmp)),
        ('complement', lambda: etl.complement(a, [['k', 'v'], [2, 0]], buffersize=2, tempdir=tmp)),
        ('distinct', lambda: etl.distinct(a, 'k', buffersize=1, tempdir=tmp)),
        ('duplicates', lambda: etl.duplicates(a, 'k', buffersize=2, tempdir=tmp)),
        ('aggregate', lambda: etl.aggregate(a, 'k', len, buffersize=2, tempdir=tmp)),
        ('rowreduce', lambda: etl.rowreduce(a, 'k', lambda k, rs: [k, len(list(rs))], header=['k', 'c'], buffersize=1, tempdir=tmp)),
        ('groupselectmin', lambda: etl.groupselectmin(a, 'k', 'v', buffersize=2, tempdir=tmp)),
        ('pivot', lambda: etl.pivot(a, 'k', 'v', 'v', sum, buffersize=2, tempdir=tmp)),
        ('sort(key=None)', lambda: etl.sort(a, buffersize=2, tempdir=tmp)),
        ('fromdicts(generator)', lambda: etl.fromdicts(gen_dicts(4))),
        ('fromdicts(generator,sample=1)', lambda: etl.fromdicts(gen_dicts(4), sample=1)),
    ]


def check_failing_spill(chk):
    """fromdicts(<generator>) whose rows cannot all be pickled into the spill file: whatever sequence of passes is tried,
    the rows before the bad one are delivered, and nothing is left behind once view and iterators are released."""
    import petl as etl
    for bad_at in (1, 2, 4):
        for plan in ('one pass', 'two passes', 'interleaved', 'partial then full'):
            with common.private_tmp() as tmp:
                def gen():
                    for i in range(1, 6):
                        yield {'k': i, 'v': (UNPICKLABLE if i == bad_at else 'r%d' % i)}
                msg = None
                try:
                    view = etl.fromdicts(gen(), header=['k', 'v'])
                    its = [iter(view)] + ([iter(view)] if plan == 'interleaved' else [])
                    outs = [[] for _ in its]
                    alive = list(range(len(its)))
                    step = 0
                    while alive and step < 40:
                        step += 1
                        for j in list(alive):
                            try:
                                outs[j].append(tuple(next(its[j])))
                            except StopIteration:
                                alive.remove(j)
                            except DUMP_ERRORS:
                                alive.remove(j)
                            if plan == 'partial then full' and len(outs[j]) == 1 and len(its) == 1:
                                its.append(iter(view))
                                outs.append([])
                                alive.append(1)
                    if plan == 'two passes':
                        try:
                            outs.append([tuple(r) for r in view])
                        except DUMP_ERRORS:
                            pass
                    for o in outs:
                        want = [('k', 'v')] + [(i, 'r%d' % i) for i in range(1, bad_at)]
                        if o[:len(want)] != want[:len(o)] or any(r[1] is UNPICKLABLE for r in o[1:] if len(r) > 1 and r[0] != bad_at):
                            msg = 'delivered %r, the rows before the bad one are %r' % (o, want)
                    del its, view
                except Exception as e:
                    msg = 'raised %r' % (e,)
                    its = view = None
                left = nfiles(tmp)
                chk.count(('failing-spill', bad_at, plan))
                chk.replayed += 1
                if msg or left:
                    chk.violation({'op': 'fromdicts(generator)', 'kind': 'tempfile'},
                                  'fromdicts(generator) with an unpicklable value in row %d, %s: %s; %d temporary file(s) remain after release'
                                  % (bad_at, plan, msg or 'deliveries fine', left), {'kind': 'failing-spill', 'bad_at': bad_at, 'plan': plan})


GENERIC_NAMES = ['join', 'leftjoin(nocache)', 'mergesort', 'complement', 'distinct', 'duplicates', 'aggregate', 'rowreduce', 'groupselectmin',
                 'pivot', 'sort(key=None)', 'fromdicts(generator)', 'fromdicts(generator,sample=1)']


def _generic_job(j):
    name, sched, dv = j
    with common.private_tmp() as tmp:
        mk = dict(generic_views(tmp))[name]
        return replay_generic(name, mk, sched, dv, tmp)


def check_forked_process(chk):
    """A spilling sort in a process forked AFTER petl was imported (multiprocessing workers, pre-forking servers): its
    chunk files are gone once that process has released view and iterators."""
    import petl as etl
    import petl.transform.sorts        # make sure the module is imported in THIS process before forking
    for cache in (True, False):
        with common.private_tmp() as tmp:
            pid = os.fork()
            if pid == 0:
                code = 0
                try:
                    t = [['k', 'v']] + [[i % 5, i] for i in range(40)]
                    v = etl.sort(t, 'k', buffersize=7, cache=cache, tempdir=tmp)
                    it = iter(v)
                    next(it)
                    next(it)
                    p2 = list(v)
                    peak = len(os.listdir(tmp))
                    del it, v, p2
                    gc.collect()
                    left = len(os.listdir(tmp))
                    code = 0 if (left == 0 and peak > 0) else (10 + min(left, 200) if left else 3)
                except BaseException:
                    code = 2
                finally:
                    os._exit(code)
            _pid, status = os.waitpid(pid, 0)
            code = os.WEXITSTATUS(status) if os.WIFEXITED(status) else 99
            left_after = len(os.listdir(tmp))
            chk.count(('forked-process', cache))
            chk.replayed += 1
            if code != 0 or left_after:
                chk.violation({'op': 'sort', 'kind': 'tempfile-fork'},
                              'external sort (cache=%s) in a forked child process: %s; %d file(s) still there after the child exited'
                              % (cache, {2: 'the child raised', 3: 'the child never created chunk files'}.get(code, '%d chunk file(s) left after release' % (code - 10) if code >= 10 else 'exit code %d' % code), left_after),
                              {'kind': 'forked-process', 'cache': cache})


def replay_generic(name, mk, sched, dropview_at, tmp):
    from harness.c01 import norm
    solo = [norm(r) for r in mk()]
    gc.collect()
    base = len(os.listdir(tmp))
    view = mk()
    its, pos = {}, {}
    for n, (i, a) in enumerate(sched):
        if n == dropview_at:
            view = None
        if a == 'iter':
            if view is None:
                continue
            its[i] = iter(view)
            pos[i] = 0
        elif a == 'drop':
            its.pop(i, None)
        elif i in its:
            try:
                got = norm(next(its[i]))
                if pos[i] >= len(solo) or got != solo[pos[i]]:
                    return 'step %d: next(it%d) delivered %s, solo pass has %s' % (n + 1, i, got, solo[pos[i]] if pos[i] < len(solo) else '<end>')
                pos[i] += 1
            except StopIteration:
                its.pop(i)
                if pos[i] != len(solo):
                    return 'step %d: next(it%d) stopped after %d of %d items' % (n + 1, i, pos[i], len(solo))
            except Exception as e:
                return 'step %d: next(it%d) raised %r' % (n + 1, i, e)
    # survivors must still deliver the rest, even if the view is gone
    view = None
    for i in sorted(its):
        try:
            rest = [norm(r) for r in its[i]]
        except Exception as e:
            return 'surviving it%d raised %r after the view was released' % (i, e)
        if rest != solo[pos[i]:]:
            return 'surviving it%d delivered %r, solo rest %r' % (i, rest, solo[pos[i]:])
    its.clear()
    gc.collect()
    left = len(os.listdir(tmp)) - base
    if left:
        return 'everything released but %d temporary file(s) remain' % left
    return None


# ---- V ---------------------------------------------------------------------------------------------------

def record_traces(n, seed):
    import petl as etl
    rng = random.Random(seed)
    traces = []
    gc.freeze()      # nfiles() collects garbage after every step: do not let it rescan the (large, live) heap each time
    for _ in range(n):
        N = rng.randrange(0, 7)
        B = rng.randrange(1, 6)
        cache = rng.random() < 0.6
        fail = rng.choice([0, 0, 0, rng.randrange(1, N + 2), (100 + rng.randrange(1, N + 1)) if N else 0])
        params = {'N': N, 'B': B, 'cache': cache, 'FailAt': fail}
        evs = []
        with common.private_tmp() as tmp:
            src, rows = mk_source(N, fail)
            solo = solo_pass(rows)
            view = etl.sort(src, 'k', buffersize=B, cache=cache, tempdir=tmp)
            its, pos, born = {}, {}, 0
            for _s in range(rng.randrange(4, 30)):
                c = rng.random()
                if view is not None and born < 3 and (c < 0.2 or (not its and c < 0.6)):
                    born += 1
                    its[born] = iter(view)
                    pos[born] = 0
                    i, a, res = born, 'iter', 0
                elif its and c < 0.85:
                    i = rng.choice(sorted(its))
                    a = 'next'
                    try:
                        got = tuple(next(its[i]))
                        res = pos[i] + 1 if (pos[i] < len(solo) and got == solo[pos[i]]) else -2
                        pos[i] += 1
                    except StopIteration:
                        res = 0 if pos[i] == len(solo) else -2
                        its.pop(i)
                    except InjectedFailure:
                        res = -1
                        its.pop(i)
                    except DUMP_ERRORS:
                        res = -1 if fail > 100 else -2
                        its.pop(i)
                    except Exception:
                        res = -2
                        its.pop(i)
                elif its and c < 0.95:
                    i = rng.choice(sorted(its))
                    its.pop(i)
                    a, res = 'drop', 0
                elif view is not None and c < 0.975:
                    had = bool(getattr(view, '_filecache', None)) or getattr(view, '_memcache', None) is not None
                    view.clearcache()
                    if not had:
                        continue                  # nothing cached: not a step of the model
                    i, a, res = 0, 'clearcache', 0
                elif view is not None:
                    view = None
                    i, a, res = 0, 'dropview', 0
                else:
                    continue
                evs.append({'i': i, 'a': a, 'res': res, 'files': nfiles(tmp)})
            its.clear()
            view = None
            evs.append({'i': 0, 'a': 'end', 'res': 0, 'files': nfiles(tmp)})
        traces.append({'N': N, 'B': B, 'cache': cache, 'FailAt': fail, 'events': evs})
    return traces


def directed_traces():
    """Systematic (not random) histories around cache invalidation: a complete first pass, then TWO iterators served from
    the file cache advanced to every pair of positions, then clearcache() / release of the view / nothing, then both are
    exhausted in either order.  Recorded like the random ones and judged by SortFilesTrace."""
    import petl as etl
    traces = []
    for N, B in ((2, 1), (3, 2)):
        for a in range(0, 3):
            for b in range(0, 3):
                for inval in ('clearcache', 'dropview', 'none'):
                    for order in ((2, 3), (3, 2)):
                        evs = []
                        with common.private_tmp() as tmp:
                            src, rows = mk_source(N, 0)
                            solo = solo_pass(rows)
                            view = etl.sort(src, 'k', buffersize=B, cache=True, tempdir=tmp)
                            its, pos = {}, {}

                            def ev(i, act, res):
                                evs.append({'i': i, 'a': act, 'res': res, 'files': nfiles(tmp)})

                            def do_next(i):
                                try:
                                    got = tuple(next(its[i]))
                                    res = pos[i] + 1 if (pos[i] < len(solo) and got == solo[pos[i]]) else -2
                                    pos[i] += 1
                                except StopIteration:
                                    res = 0 if pos[i] == len(solo) else -2
                                    its.pop(i)
                                except Exception:
                                    res = -2
                                    its.pop(i)
                                ev(i, 'next', res)
                                return res
                            its[1], pos[1] = iter(view), 0
                            ev(1, 'iter', 0)
                            while 1 in its:
                                do_next(1)
                            for i, k in ((2, a), (3, b)):
                                its[i], pos[i] = iter(view), 0
                                ev(i, 'iter', 0)
                                for _ in range(k):
                                    do_next(i)
                            if inval == 'clearcache':
                                view.clearcache()
                                ev(0, 'clearcache', 0)
                            elif inval == 'dropview':
                                view = None
                                ev(0, 'dropview', 0)
                            for i in order:
                                while i in its:
                                    if do_next(i) == -2:
                                        break
                            its.clear()
                            view = None
                            evs.append({'i': 0, 'a': 'end', 'res': 0, 'files': nfiles(tmp)})
                        traces.append({'N': N, 'B': B, 'cache': True, 'FailAt': 0, 'events': evs})
    return traces


def validate_traces(chk, traces, seed):
    r, verdicts = common.validate('SortFilesTrace', traces)
    chk.add_tlc(r, 'SortFilesTrace')
    for tid, (bad, why, drift) in sorted(verdicts.items()):
        t = traces[tid - 1]
        if bad:
            chk.violation({'op': 'sort', 'kind': 'tempfile-trace', 'why': why},
                          'recorded sort() history rejected by SortFilesTrace at event %d (%s): N=%d B=%d cache=%s fail=%d events=%r'
                          % (bad, why, t['N'], t['B'], t['cache'], t['FailAt'], t['events']),
                          {'kind': 'trace', 'seed': seed, 'trace': t})
        elif drift:
            chk.add_drift('file count deviates from SortFiles at event %d: N=%d B=%d cache=%s fail=%d %r'
                          % (drift, t['N'], t['B'], t['cache'], t['FailAt'], t['events'][drift - 1]))
    chk.validated += len(traces)
    chk.sample({'kind': 'tempfile-trace', 'trace': traces[0]})
    bad = json.loads(json.dumps([traces[0]]))
    bad[0]['events'][-1]['files'] = 1           # a file left behind after everything was released
    r2, v2 = common.validate('SortFilesTrace', bad, name='SortFilesTraceBad')
    ok = v2[1][0] != 0
    chk.binding_demo = {'corrupted': 'final event reports one file left after release', 'verdict': list(v2[1]), 'rejected_as_expected': ok}
    if not ok and not chk.violations:
        raise tlc.MachineryError('binding demo failed: leak trace accepted')


MC = ['SortFiles_mc2', 'SortFiles_mc3', 'SortFiles_mcfail']


def run(tier, seed):
    chk = Check(PID, tier, seed)
    full = tier == 'thorough'
    rng = random.Random(seed)
    for cfg in MC:
        r = tlc.require_ok(tlc.run('SortFiles', cfg=cfg, timeout=900), 'SortFiles/' + cfg)
        chk.add_tlc(r, 'SortFiles', cfg)
    for cfg in ('DictsSpill_1', 'DictsSpill_5'):
        r = tlc.require_ok(tlc.run('DictsSpill', cfg=cfg, timeout=900), 'DictsSpill/' + cfg)
        chk.add_tlc(r, 'DictsSpill', cfg)
    # model-driven histories on the real sort()
    configs = [dict(N=2, B=1, cache=True, NIter=2, FailAt=0), dict(N=2, B=2, cache=True, NIter=2, FailAt=0),
               dict(N=2, B=3, cache=True, NIter=2, FailAt=0), dict(N=2, B=1, cache=False, NIter=2, FailAt=0),
               dict(N=2, B=1, cache=True, NIter=2, FailAt=2), dict(N=2, B=1, cache=True, NIter=2, FailAt=3),
               dict(N=2, B=2, cache=False, NIter=2, FailAt=1), dict(N=2, B=1, cache=True, NIter=2, FailAt=102),
               dict(N=2, B=2, cache=True, NIter=2, FailAt=101), dict(N=2, B=3, cache=True, NIter=2, FailAt=101)]
    sims = [dict(N=3, B=2, cache=True, NIter=3, FailAt=0), dict(N=4, B=2, cache=False, NIter=3, FailAt=0),
            dict(N=3, B=1, cache=True, NIter=3, FailAt=3), dict(N=3, B=3, cache=True, NIter=3, FailAt=4),
            dict(N=5, B=2, cache=True, NIter=3, FailAt=0), dict(N=5, B=2, cache=True, NIter=3, FailAt=104),
            dict(N=4, B=3, cache=False, NIter=3, FailAt=102)]
    total = 0
    # one TLC run per configuration, several at a time (each job forks, runs a single-worker JVM and samples its histories)
    gjobs_ = [(p_, None, 0, 0 if full else 150, seed) for p_ in configs] + \
             [(dict(p_, MaxSteps=30), 'num=%d' % (1500 if full else 80), seed + 7, 0, seed) for p_ in sims]
    gen_all = common.pmap(_gen_job, gjobs_, procs=6, chunksize=1, min_items=2)
    gen_c, gen_s = gen_all[:len(configs)], gen_all[len(configs):]
    todo = []
    for params, hs in zip(configs, gen_c):
        todo += [(params, h) for h in hs]
    for params, hs in zip(sims, gen_s):
        todo += [(params, h) for h in hs]
    total = len(todo)
    for (params, h), res in zip(todo, common.pmap(_hist_job, todo)):
        _one(chk, params, h, res)
    if total < 300:
        raise tlc.MachineryError('only %d histories generated' % total)
    # generic: sort-backed operators and the spill file
    from harness import c01
    s2, s3 = c01.gen_schedules(seed, False)
    gjobs = []
    for name in GENERIC_NAMES:
        for sched in rng.sample(s2 + s3, 50 if not full else 600):
            gjobs.append((name, sched, rng.randrange(0, len(sched) + 1)))
    if True:
        if True:
            for (name, sched, dv), msg in zip(gjobs, common.pmap(_generic_job, gjobs)):
                chk.count(('generic', name, json.dumps(sched), dv))
                chk.replayed += 1
                if msg:
                    chk.violation({'op': name, 'kind': 'tempfile'}, '%s schedule=%r view released before step %d: %s' % (name, sched, dv + 1, msg),
                                  {'kind': 'generic', 'view': name, 'schedule': sched, 'dropview_at': dv})
    check_failing_spill(chk)
    check_forked_process(chk)
    traces = record_traces(2000 if full else 300, seed) + directed_traces()
    validate_traces(chk, traces, seed)
    chk.exhaustive = False
    chk.assumptions = ['CPython reference counting + gc.collect(); Linux unlink semantics',
                       'the driver drops exception/traceback references before observing the directory',
                       'per-step file counts are model-level (DRIFT); "directory empty once everything is released" and the '
                       'deliveries are property-level']
    return chk.finish(rule='G: all histories of 2 iterators for 7 small (N, B, cache, failure) configurations and simulated '
                           'histories of 3 iterators for 5 larger ones from SortFiles.tla on the real sort(); Iterators '
                           'schedules + view release on 11 sort-backed views and fromdicts(generator); V: random histories '
                           'validated by SortFilesTrace')


def _gen_job(j):
    params, sim, simseed, cap, seed = j
    hs, _r = gen_histories(params, sim=sim, seed=simseed)
    if cap and len(hs) > cap:
        hs = random.Random(seed + len(hs)).sample(hs, cap)
    return hs


def _hist_job(j):
    return replay_history(j[0], j[1])


def _one(chk, params, h, res=None):
    msg, drift = res if res is not None else replay_history(params, h)
    chk.count(('hist', json.dumps(params, sort_keys=True), json.dumps([(e['i'], e['a']) for e in h])))
    chk.replayed += 1
    if msg:
        chk.violation({'op': 'sort', 'kind': 'tempfile'}, 'sort N=%(N)d B=%(B)d cache=%(cache)s fail=%(FailAt)d' % params
                      + ' history=%r: %s' % ([(e['i'], e['a']) for e in h], msg),
                      {'kind': 'history', 'params': params, 'history': h})
    elif drift:
        chk.add_drift(drift)
    if chk.replayed == 50:
        chk.sample({'kind': 'tempfile-history', 'params': params, 'history': h})


def replay(path):
    with open(path) as f:
        rp = json.load(f)['replay']
    if rp['kind'] == 'history':
        msg, _ = replay_history(rp['params'], rp['history'])
    elif rp['kind'] == 'generic':
        with common.private_tmp() as tmp:
            mk = dict(generic_views(tmp))[rp['view']]
            msg = replay_generic(rp['view'], mk, rp['schedule'], rp['dropview_at'], tmp)
    else:
        print('trace replay: rerun ./check C18 with VERIF_SEED=%s' % rp['seed'])
        return 0
    print(msg or 'holds')
    return 1 if msg else 0
