"""C07 - hash joins and lookups agree with the sort-merge joins.

TLC:  HashJoin  - build-at-iter / probe-per-row / cached-lookup state machine of the five hash joins against
                  the SAME relational definition (RelJoin) the merge joins are checked against; stream order;
                  lookup laws.
G:    JoinGen   - the C06 cases replayed on hashjoin/hashleftjoin/hashrightjoin/hashantijoin/hashlookupjoin
                  (two passes, cache on/off), each also compared with the real sort-merge join's multiset;
                  lookup cases on lookup/lookupone/dictlookup(one)/recordlookup(one), strict on/off.
V:    JoinTrace - Hypothesis table pairs through the real hash joins, order = streamed side.
"""
import json
import random

from harness import tlc, common, joinlib, c06
from harness.core import Check
from harness.concretize import PROFILES, ID_BASE

PID = 'C07'
ACTIONS = ['IterBuild', 'IterCached', 'Probe', 'EndPass', 'NextPass']


def run_hash(case, pname, variant, occ=0):
    """Returns (violation message, drift message)."""
    import petl as etl
    prof = PROFILES[pname]
    left, right = joinlib.tables(case, prof, occ)
    kw = joinlib.kwargs(case, prof, variant)
    fn = getattr(etl, joinlib.HASH_FN[case['op']])
    if case['op'] == 'anti':
        kw.pop('cache', None)
    if case['op'] in ('anti', 'lookup'):
        kw.pop('cache', None)
    try:
        v = fn(left, right, **kw)
        p1 = [tuple(r) for r in v]
        p2 = [tuple(r) for r in v]
    except Exception as e:
        return 'raised %r' % (e,), None
    for label, got in (('pass 1', p1), ('pass 2', p2)):
        msg, _ = joinlib.compare(case, prof, got, variant, ordered=None)
        if msg:
            return '%s: %s' % (label, msg), None
        gabs = [tuple(prof.absrow(r)) for r in got[1:]]
        want = [tuple(r) for r in case['hrows']]
        if gabs != want:
            return '%s: rows not in the order of the streamed side: %r, spec %r' % (label, gabs, want), None
    # agreement with the real sort-merge join (same header, same multiset)
    try:
        mkw = {k: v for k, v in kw.items() if k != 'cache'}
        m = [tuple(r) for r in getattr(etl, joinlib.MERGE_FN[case['op']])(left, right, **mkw)]
    except Exception as e:
        return 'sort-merge counterpart raised %r' % (e,), None
    if m[0] != p1[0] or sorted(map(repr, m[1:])) != sorted(map(repr, p1[1:])):
        return 'hash join %r differs from sort-merge join %r' % (p1, m), None
    return None, None


def _job(j):
    ci, case, pname, variant = j
    return run_hash(case, pname, variant, occ=ci)


def check_cases(chk, cases, profiles, full):
    variants = [{}, {'cache': False}, {'prefix': True}, {'natural': True}]
    n = 0
    jobs = []
    for ci, case in enumerate(cases):
        if case['op'] == 'outer':
            continue
        if case['op'] == 'anti' and c06._ragged(case):
            continue   # the anti-joins do not square up: rectangular inputs only (as C07 states)
        combos = [(p, v) for p in profiles for v in variants] if full else \
            [(profiles[ci % len(profiles)], variants[ci % 2]), (profiles[(ci + 1) % len(profiles)], variants[2 + ci % 2])]
        jobs += [(ci, case, pname, variant) for pname, variant in combos]
    for (ci, case, pname, variant), (msg, drift) in zip(jobs, common.pmap(_job, jobs)):
        if True:
            chk.count(('hash', ci, pname, json.dumps(variant, sort_keys=True)))
            chk.replayed += 1
            n += 1
            if msg:
                chk.violation({'op': joinlib.HASH_FN[case['op']], 'lay': case['lay']},
                              '%s layout=%s profile=%s variant=%r left=%r right=%r missing=%r: %s'
                              % (joinlib.HASH_FN[case['op']], case['lay'], pname, variant, case['left'], case['right'],
                                 case['missing'], msg),
                              {'kind': 'hash', 'case': case, 'profile': pname, 'variant': variant, 'occ': ci})
    chk.sample({'kind': 'hashjoin-case', 'case': [c for c in cases if c['op'] == 'right'][len(cases) // 40]})


def run_lookup(case, pname):
    import petl as etl
    from petl.errors import DuplicateKeyError
    prof = PROFILES[pname]
    compound = bool(case['keys']) and isinstance(case['keys'][0], list)
    if compound:
        hdr, key = ['k', 'j', 'v'], ('k', 'j')
        rows = [prof.row(k, i) + [ID_BASE + i + 1] for i, k in enumerate(case['keys'])]
        ck = lambda k: tuple(prof.conc(x) for x in k)
    else:
        hdr, key = ['k', 'v'], 'k'
        rows = [[prof.conc(k, i), ID_BASE + i + 1] for i, k in enumerate(case['keys'])]
        ck = lambda k: prof.conc(k)
    t = [hdr] + rows
    want_all = {ck(k): [tuple(rows[p - 1]) for p in pos] for k, pos in case['groups']}
    problems = []

    def eq(label, got, want):
        if got != want:
            problems.append('%s: %r, spec %r' % (label, got, want))
    try:
        eq('lookup', etl.lookup(t, key), want_all)
        eq('lookup(value=v)', etl.lookup(t, key, 'v'), {k: [r[-1] for r in v] for k, v in want_all.items()})
        eq('dictlookup', etl.dictlookup(t, key), {k: [dict(zip(hdr, r)) for r in v] for k, v in want_all.items()})
        eq('recordlookup', {k: [tuple(r) for r in v] for k, v in etl.recordlookup(t, key).items()}, want_all)
        eq('lookupone', etl.lookupone(t, key), {k: v[0] for k, v in want_all.items()})
        eq('lookupone(value=v)', etl.lookupone(t, key, 'v'), {k: v[0][-1] for k, v in want_all.items()})
        eq('dictlookupone', etl.dictlookupone(t, key), {k: dict(zip(hdr, v[0])) for k, v in want_all.items()})
        eq('recordlookupone', {k: tuple(r) for k, r in etl.recordlookupone(t, key).items()},
           {k: v[0] for k, v in want_all.items()})
    except Exception as e:
        problems.append('raised %r' % (e,))
    # the documented `dictionary=` argument with a mapping that, like a shelve, hands out COPIES of its values
    # (an in-place append on what __getitem__ returned is lost), and the value given as field INDEX 0 / a field named ''
    try:
        if not compound and all(isinstance(r[0], (int, str, type(None), float, bool, bytes, tuple)) for r in rows):
            for fname, conv in (('lookup', lambda d: {k: list(v) for k, v in d.items()}),
                                ('dictlookup', lambda d: {k: list(v) for k, v in d.items()}),
                                ('recordlookup', lambda d: {k: [tuple(r) for r in v] for k, v in d.items()})):
                plain = conv(getattr(etl, fname)(t, key))
                got = conv(getattr(etl, fname)(t, key, dictionary=_CopyingDict('copy' if fname.startswith('record') else 'pickle')))
                eq('%s(dictionary=copying mapping)' % fname, got, plain)
            for fname in ('lookupone', 'dictlookupone', 'recordlookupone'):
                plain = dict(getattr(etl, fname)(t, key).items())
                got = dict(getattr(etl, fname)(t, key, dictionary=_CopyingDict('copy' if fname.startswith('record') else 'pickle')).items())
                eq('%s(dictionary=copying mapping)' % fname, {k: tuple(v) if not isinstance(v, dict) else v for k, v in got.items()},
                   {k: tuple(v) if not isinstance(v, dict) else v for k, v in plain.items()})
        if not compound:
            # value spec 0 (= field k itself, by index) and 1; a value field named ''
            eq('lookup(value=0)', etl.lookup(t, key, 0), {k: [r[0] for r in v] for k, v in want_all.items()})
            eq('lookup(value=1)', etl.lookup(t, key, 1), {k: [r[1] for r in v] for k, v in want_all.items()})
            eq('lookupone(value=0)', etl.lookupone(t, key, 0), {k: v[0][0] for k, v in want_all.items()})
            te = [[u'', 'k']] + [[r[1], r[0]] for r in rows]
            eq("lookup(value='')", etl.lookup(te, 'k', u''), {k: [r[1] for r in v] for k, v in want_all.items()})
            eq("lookupone(value='')", etl.lookupone(te, 'k', u''), {k: v[0][1] for k, v in want_all.items()})
            eq("lookup(key='', value='k')", etl.lookup([[u'', 'v']] + rows, u'', 'v'), {k: [r[1] for r in v] for k, v in want_all.items()})
    except Exception as e:
        problems.append('lookup with dictionary= / falsy field spec raised %r' % (e,))
    # ragged rows (the first row of a key shorter than the header): every lookup flavour sees the same, squared-up, record
    try:
        if not compound:
            tr = [hdr + ['w']] + [r[:(1 if i % 2 == 0 else 2)] + ([] if i % 2 == 0 else [i]) for i, r in enumerate(rows)]
            d_all, d_one = etl.dictlookup(tr, key), etl.dictlookupone(tr, key)
            r_one = etl.recordlookupone(tr, key)
            for k in d_all:
                first = d_all[k][0]
                if d_one[k] != first or set(first) != set(hdr + ['w']) or any(r_one[k][f] != first[f] for f in first):
                    problems.append('ragged table %r: dictlookup[%r][0] = %r, dictlookupone = %r, recordlookupone = %r' % (tr, k, first, d_one[k], tuple(r_one[k])))
                    break
    except Exception as e:
        problems.append('lookups on a ragged table raised %r' % (e,))
    # a value column that holds None in the FIRST row of every key: the first row still wins
    try:
        tn = [hdr + ['w']] + [r + [None if all(tuple(r[:len(r) - 1]) != tuple(q[:len(q) - 1]) for q in rows[:i]) else i]
                              for i, r in enumerate(rows)]
        kf = (lambda r: tuple(r[:2])) if compound else (lambda r: r[0])
        want_first = {}
        for r in tn[1:]:
            want_first.setdefault(ck([prof.abs(c) for c in r[:2]] if compound else prof.abs(r[0])), r[-1])
        eq('lookupone(value=w with None)', etl.lookupone(tn, key, 'w'), want_first)
        eq('lookup(value=w with None)', {k: v[0] for k, v in etl.lookup(tn, key, 'w').items()}, want_first)
    except Exception as e:
        problems.append('lookupone(value=w) raised %r' % (e,))
    for name in ('lookupone', 'dictlookupone', 'recordlookupone'):
        try:
            getattr(etl, name)(t, key, strict=True)
            raised = False
        except DuplicateKeyError:
            raised = True
        except Exception as e:
            problems.append('%s(strict=True) raised %r' % (name, e))
            continue
        if raised != case['dup']:
            problems.append('%s(strict=True) raised DuplicateKeyError=%s, spec %s' % (name, raised, case['dup']))
    return '; '.join(problems) or None


def check_lookups(chk, lcases, profiles):
    for ci, case in enumerate(lcases):
        for pname in profiles:
            msg = run_lookup(case, pname)
            chk.count(('lookup', ci, pname))
            chk.replayed += 1
            if msg:
                chk.violation({'op': 'lookup'}, 'lookups on keys %r profile=%s: %s' % (case['keys'], pname, msg),
                              {'kind': 'lookup', 'case': case, 'profile': pname})
    chk.sample({'kind': 'lookup-case', 'case': lcases[len(lcases) // 2]})


class _CopyingDict(object):
    """Mapping with shelve-like semantics (writeback=False): values are pickled on assignment, every read unpickles a
    fresh copy.  Keys are kept as they are."""

    def __init__(self, how='pickle'):
        import pickle
        import copy
        self._p = pickle
        self._d = {}
        if how == 'copy':           # Record objects cannot be pickled: hand out shallow copies instead
            self._enc, self._dec = (lambda v: v), (lambda v: list(v) if isinstance(v, list) else v)
        else:
            self._enc, self._dec = pickle.dumps, pickle.loads

    def __contains__(self, k):
        return k in self._d

    def __getitem__(self, k):
        return self._dec(self._d[k])

    def __setitem__(self, k, v):
        self._d[k] = self._enc(v)

    def __iter__(self):
        return iter(self._d)

    def __len__(self):
        return len(self._d)

    def keys(self):
        return self._d.keys()

    def items(self):
        return [(k, self[k]) for k in self._d]

    def get(self, k, default=None):
        return self[k] if k in self._d else default


def check_cache_semantics(chk):
    """cache=False: every pass rebuilds the lookup and reflects the CURRENT contents of both sources; cache=True: the
    second pass is served from the cached lookup (the build side as it was), the streamed side is read again."""
    import petl as etl
    for name, stream in (('hashjoin', 'left'), ('hashleftjoin', 'left'), ('hashrightjoin', 'right')):
        for cache in (False, True):
            left = [['k', 'a'], [1, 'l1'], [2, 'l2']]
            right = [['k', 'b'], [1, 'r1'], [2, 'r2']]
            v = getattr(etl, name)(left, right, key='k', cache=cache)
            p1 = [tuple(r) for r in v]
            built = right if stream == 'left' else left
            built[1] = [1, 'EDITED']
            built.append([2, 'NEW'])
            p2 = [tuple(r) for r in v]
            fresh = [tuple(r) for r in getattr(etl, name)(left, right, key='k', cache=cache)]
            chk.count(('cache-semantics', name, cache))
            chk.replayed += 1
            if not cache and p2 != fresh:
                chk.violation({'op': name, 'kind': 'cache-semantics'},
                              '%s(cache=False): after editing the build side the second pass delivers %r, a fresh view %r' % (name, p2, fresh),
                              {'kind': 'cache-semantics', 'name': name})
            if cache and p2 != p1:
                chk.add_drift('%s(cache=True): second pass after editing the build side %r, first pass %r' % (name, p2, p1))
    # rarely used argument combinations, each against the sort-merge counterpart on the same inputs:
    # exactly one prefix with field names that are not strings; a right table that repeats a field name
    lt_ = [['k', 2019], [1, 'l1'], [2, 'l2'], [2, 'l2b']]
    rt_ = [['k', 7, 2020.5], [1, 'x', 'r1'], [2, 'y', 'r2'], [3, 'z', 'r3']]
    dup_r = [['id', 'shape', 'id'], [1, 'sq', 10], [2, 'ci', 20], [2, 'tr', 30]]
    dup_l = [['id', 'colour'], [1, 'red'], [2, 'blue'], [4, 'green']]
    combos = []
    for hname, mname in (('hashjoin', 'join'), ('hashleftjoin', 'leftjoin'), ('hashrightjoin', 'rightjoin'), ('hashlookupjoin', 'lookupjoin')):
        for kw in ({'lprefix': 'L_'}, {'rprefix': 'R_'}, {'lprefix': 'L_', 'rprefix': 'R_'}, {}):
            combos.append((hname, mname, lt_, rt_, dict(kw, key='k')))
        combos.append((hname, mname, dup_l, dup_r, {'key': 'id'}))
    combos.append(('hashantijoin', 'antijoin', dup_l, dup_r, {'key': 'id'}))
    for hname, mname, lt, rt, kw in combos:
        chk.count(('rare-args', hname, json.dumps(sorted(kw), default=str)))
        chk.replayed += 1
        try:
            h = [tuple(r) for r in getattr(etl, hname)(lt, rt, **kw)]
            m = [tuple(r) for r in getattr(etl, mname)(lt, rt, **kw)]
        except Exception as e:
            chk.violation({'op': hname, 'kind': 'rare-args'}, '%s(%r) raised %r' % (hname, kw, e), {'kind': 'rare-args', 'name': hname})
            continue
        if repr(h[0]) != repr(m[0]) or sorted(map(repr, h[1:])) != sorted(map(repr, m[1:])):
            chk.violation({'op': hname, 'kind': 'rare-args'},
                          '%s(left=%r, right=%r, %r) delivers %r, %s delivers %r' % (hname, lt, rt, kw, h, mname, m), {'kind': 'rare-args', 'name': hname})
    # the hash joins WITHOUT a cache argument re-read both sides on every pass
    for name, merge in (('hashlookupjoin', 'lookupjoin'), ('hashantijoin', 'antijoin')):
        left = [['k', 'a'], [1, 'l1'], [2, 'l2'], [3, 'l3']]
        right = [['k', 'b'], [1, 'r1'], [2, 'r2']]
        v = getattr(etl, name)(left, right, key='k')
        p1 = [tuple(r) for r in v]
        right[1] = [1, 'EDITED']
        right.append([3, 'NEW'])
        left.append([4, 'l4'])
        p2 = [tuple(r) for r in v]
        fresh = [tuple(r) for r in getattr(etl, name)(left, right, key='k')]
        ref = [tuple(r) for r in getattr(etl, merge)(left, right, key='k')]
        chk.count(('cache-semantics', name))
        chk.replayed += 1
        if p2 != fresh or sorted(map(repr, p2)) != sorted(map(repr, ref)):
            chk.violation({'op': name, 'kind': 'cache-semantics'},
                          '%s: after editing both sources the second pass of the same view delivers %r, a fresh view %r, %s %r'
                          % (name, p2, fresh, merge, ref), {'kind': 'cache-semantics', 'name': name})


def run(tier, seed):
    chk = Check(PID, tier, seed)
    full = tier == 'thorough'
    cfg = 'HashJoinMC' if full else 'HashJoinMCq'
    r = tlc.require_ok(tlc.run('HashJoin', cfg=cfg, timeout=1800), 'HashJoin')
    tlc.check_coverage(r, ACTIONS, 'HashJoin')
    chk.add_tlc(r, 'HashJoin', cfg, ACTIONS)
    cases, _x, lcases = common.gen('JoinGen', 'JoinGen', outs=('OUT', 'OUT2', 'OUT3'))
    profiles = ['ints', 'mixed', 'text', 'compound', 'equalreps', 'collide'] if full else ['ints', 'mixed', 'equalreps', 'compound', 'collide']
    if not full:
        rng = random.Random(seed)
        cases = [c for c in cases if not c06._ragged(c) or rng.random() < 0.34]
    check_cases(chk, cases, profiles, full)
    check_lookups(chk, lcases, profiles)
    check_cache_semantics(chk)
    traces, concrete = c06.record_traces(2500 if full else 300, seed, fns=joinlib.HASH_FN)
    c06.validate_traces(chk, traces, concrete, seed, label='hash join')
    chk.exhaustive = full
    chk.assumptions = ['hashable key values (as C07 states); rectangular inputs for the anti-joins',
                       'bounds as in C06; dict preserves insertion order (CPython >= 3.7)']
    return chk.finish(rule='G: C06 case set x hash operator x value profile x (cache, prefix, natural key) variants, 2 passes, '
                           'plus comparison with the real sort-merge counterpart; lookup cases x 8 lookup functions x strict; '
                           'V: Hypothesis pairs validated by JoinTrace with stream order; distinct = (case, profile, variant)')


def replay(path):
    with open(path) as f:
        rp = json.load(f)['replay']
    if rp['kind'] == 'hash':
        msg, _ = run_hash(rp['case'], rp['profile'], rp['variant'], rp['occ'])
    elif rp['kind'] == 'lookup':
        msg = run_lookup(rp['case'], rp['profile'])
    else:
        print('trace replay: rerun ./check C07 with VERIF_SEED=%s; concrete: %r' % (rp['seed'], rp['concrete']))
        return 0
    print(msg or 'holds')
    return 1 if msg else 0
