"""C06 - sort-merge joins implement the relational join operators exactly.

TLC:  MergeJoin  - the merge loops of iterjoin / iterantijoin / iterlookupjoin (all exits and both
                   flush blocks) against RelJoin's definitions, for all pairs of key columns.
      (the "orig" variant of the same module is run as a sensitivity test: TLC must report F3/F4 on it)
G:    JoinGen    - every small pair of tables (rectangular, ragged, different lkey/rkey, compound keys,
                   missing values) x operator with the rows/header the definition prescribes, replayed on the
                   real join functions under value profiles and option variants; crossjoin.
V:    JoinTrace  - Hypothesis table pairs recorded as pass events of <<l, r>> pairs, validated by TLC.
"""
import json
import random

from harness import tlc, values, common, joinlib
from harness.core import Check
from harness.concretize import PROFILES, ID_BASE

PID = 'C06'
VARIANTS_QUICK = [{}, {'natural': True}, {'prefix': True}, {'presorted': True}, {'buffersize': 1}, {'buffersize': 2, 'cache': False},
                  {'indexkey': True}, {'indexkey': True, 'sharednames': True}, {'inputs': 'revsorted'}, {'inputs': 'revsorted', 'buffersize': 2}, {'natural': True, 'intnames': True}]
ACTIONS = ['PickLeft', 'PickRight', 'Less', 'Greater', 'Equal', 'FlushLeft', 'FlushRight']


def run_case(case, pname, variant, occ=0):
    prof = PROFILES[pname]
    try:
        got = joinlib.run_merge(case, prof, variant, occ)
    except Exception as e:
        return 'raised %r' % (e,), None
    return joinlib.compare(case, prof, got, variant)


def _job(j):
    ci, case, pname, variant = j
    return run_case(case, pname, dict(variant), occ=ci)


def check_cases(chk, cases, profiles, full):
    jobs = []
    for ci, case in enumerate(cases):
        if full:
            combos = [(p, v) for p in profiles for v in VARIANTS_QUICK]
        else:
            # rotate profiles and option variants over the cases; the plain call always runs
            combos = [(profiles[ci % len(profiles)], {}),
                      (profiles[(ci // 2) % len(profiles)], VARIANTS_QUICK[1 + ci % (len(VARIANTS_QUICK) - 1)])]
        jobs += [(ci, case, pname, variant) for pname, variant in combos]
    for (ci, case, pname, variant), (msg, drift) in zip(jobs, common.pmap(_job, jobs)):
        if True:
            chk.count(('join', ci, pname, json.dumps(variant, sort_keys=True)))
            chk.replayed += 1
            if msg:
                lkeys = [r[0] if r else None for r in case['left']]
                sig = {'op': joinlib.MERGE_FN[case['op']], 'lay': case['lay'],
                       'right_empty': len(case['right']) == 0, 'left_empty': len(case['left']) == 0}
                chk.violation(sig, '%s layout=%s profile=%s variant=%r left=%r right=%r missing=%r: %s'
                              % (joinlib.MERGE_FN[case['op']], case['lay'], pname, variant, case['left'],
                                 case['right'], case['missing'], msg),
                              {'kind': 'join', 'case': case, 'profile': pname, 'variant': variant, 'occ': ci})
            elif drift:
                chk.add_drift('%s %s: %s' % (joinlib.MERGE_FN[case['op']], case['lay'], drift))
    chk.sample({'kind': 'join-case', 'case': cases[len(cases) // 3]})


def run_cross(case, pname, prefix):
    import petl as etl
    prof = PROFILES[pname]
    tabs = [[['k', 'a']] + [prof.row(r, i) for i, r in enumerate(t)] for t in case['tables']]
    kw = {}
    if case['missing'] != 0:
        kw['missing'] = prof.conc(case['missing'])
    if prefix:
        kw['prefix'] = True
    try:
        got = [tuple(r) for r in etl.crossjoin(*tabs, **kw)]
    except Exception as e:
        return 'raised %r' % (e,)
    hdr = []
    for i in range(len(tabs)):
        hdr += [('%d_%s' % (i + 1, f)) if prefix else f for f in ('k', 'a')]
    if not got or got[0] != tuple(hdr):
        return 'header %r, spec %r' % (got[:1], tuple(hdr))
    gabs = [tuple(prof.absrow(r)) for r in got[1:]]
    want = [tuple(r) for r in case['rows']]
    if gabs != want:
        return 'rows %r, spec %r' % (gabs, want)
    return None


def check_cross(chk, cases, profiles):
    for ci, case in enumerate(cases):
        for prefix in (False, True):
            pname = profiles[ci % len(profiles)]
            msg = run_cross(case, pname, prefix)
            chk.count(('cross', ci, prefix))
            chk.replayed += 1
            if msg:
                chk.violation({'op': 'crossjoin'}, 'crossjoin tables=%r missing=%r prefix=%s profile=%s: %s'
                              % (case['tables'], case['missing'], prefix, pname, msg),
                              {'kind': 'cross', 'case': case, 'profile': pname, 'prefix': prefix})
    chk.sample({'kind': 'crossjoin-case', 'case': cases[len(cases) // 2]})


# ---- V ------------------------------------------------------------------------------------------

def record_traces(n_examples, seed, fns=None, hashable=False):
    """Random table pairs through the real joins -> traces for JoinTrace."""
    import petl as etl
    from hypothesis import given, strategies as st, seed as hseed
    fns = fns or joinlib.MERGE_FN
    traces, concrete = [], []
    cell = common.cell_values()
    keyseq = st.lists(cell, min_size=0, max_size=25)

    @hseed(seed)
    @common.hyp_settings(n_examples, seed)
    @given(keyseq, keyseq, st.sampled_from(sorted(fns)), st.sampled_from([None, 1, 3]), st.booleans())
    def go(lk, rk, op, bs, cache):
        # make matches likely: right keys drawn partly from the left ones
        rk = [lk[i % len(lk)] if (lk and i % 2 == 0) else k for i, k in enumerate(rk)]
        try:
            abst = values.abstract_batch(lk + rk)
        except (TypeError, ValueError, ArithmeticError):
            return
        left = [['k', 'a']] + [[k, ID_BASE + i + 1] for i, k in enumerate(lk)]
        right = [['k', 'b']] + [[k, 2 * ID_BASE + i + 1] for i, k in enumerate(rk)]
        kw = {'key': 'k'}
        if fns is joinlib.MERGE_FN:
            kw.update(buffersize=bs, cache=cache)
        elif op in ('join', 'left', 'right'):
            kw.update(cache=cache)   # hashantijoin / hashlookupjoin take no cache argument
        with common.private_tmp() as tmp:
            if fns is joinlib.MERGE_FN:
                kw['tempdir'] = tmp
            passes = []
            try:
                v = getattr(etl, fns[op])(left, right, **kw)
            except Exception as e:
                passes = [{'out': [], 'raised': True, 'exc': repr(e)}]
                v = None
            for _ in range(2 if v is not None else 0):
                out, exc = [], None
                try:
                    for r in etl.data(v):
                        if op == 'anti':
                            out.append([r[1] - ID_BASE, 0])
                        else:
                            a, b = r[1], r[2]
                            out.append([a - ID_BASE if a is not None else 0, b - 2 * ID_BASE if b is not None else 0])
                except Exception as e:
                    exc = repr(e)
                passes.append({'out': out, 'raised': exc is not None, 'exc': exc or ''})
            del v
        order = 'key' if fns is joinlib.MERGE_FN else ('right' if op == 'right' else 'left')
        traces.append({'op': op, 'order': order, 'LK': abst[:len(lk)], 'RK': abst[len(lk):], 'passes': passes})
        concrete.append({'fn': fns[op], 'left_keys': [repr(k) for k in lk], 'right_keys': [repr(k) for k in rk], 'kw': repr(kw)})
    go()
    return traces, concrete


def validate_traces(chk, traces, concrete, seed, label='join'):
    if not traces:
        raise tlc.MachineryError('no join traces recorded')
    r, verdicts = common.validate('JoinTrace', traces)
    chk.add_tlc(r, 'JoinTrace')
    for tid, (bad, why) in sorted(verdicts.items()):
        tr = traces[tid - 1]
        raised = [p for p in tr['passes'] if p['raised']]
        if bad or raised:
            chk.violation({'op': concrete[tid - 1]['fn'], 'kind': 'trace'},
                          'recorded %s execution rejected by JoinTrace (pass %s, clause %s%s): %r'
                          % (label, bad, why, (', raised ' + raised[0]['exc']) if raised else '', concrete[tid - 1]),
                          {'kind': 'trace', 'seed': seed, 'concrete': concrete[tid - 1], 'trace': tr})
    chk.validated += len(traces)
    chk.sample({'kind': 'trace', 'concrete': concrete[0], 'passes': traces[0]['passes'][:1]})
    cand = [i for i, t in enumerate(traces) if len(t['passes'][0]['out']) >= 1]
    if cand:
        bad = json.loads(json.dumps([traces[cand[0]]]))
        bad[0]['passes'][0]['out'].pop()
        r2, v2 = common.validate('JoinTrace', bad, name='JoinTraceBad')
        ok = v2[1][0] == 1
        chk.binding_demo = {'corrupted': 'last delivered row of pass 1 removed', 'verdict': list(v2[1]),
                            'rejected_as_expected': ok}
        if not ok and not chk.violations:
            raise tlc.MachineryError('binding demo failed: corrupted join trace accepted')


def sensitivity(chk):
    """The model of the code as found (Variant = "orig") must exhibit the known defects: evidence that
    the specification is sharp enough to see them."""
    r = tlc.run('MergeJoin', cfg='MergeJoinOrig', timeout=600)
    if r.error:
        raise tlc.MachineryError('MergeJoinOrig: ' + r.error)
    if not r.violated:
        raise tlc.MachineryError('MergeJoinOrig (model of the unrepaired loops) passed: the spec lost its sensitivity')
    chk.note('sensitivity: MergeJoin with Variant="orig" violates %s (counterexample %s)'
             % (r.violated, {k: v for k, v in (r.trace[-1] if r.trace else {}).items() if k in ('LK', 'RK', 'op', 'out', 'pc')}))


def run(tier, seed):
    chk = Check(PID, tier, seed)
    full = tier == 'thorough'
    cfg = 'MergeJoinMC' if full else 'MergeJoinMCq'
    r = tlc.require_ok(tlc.run('MergeJoin', cfg=cfg, timeout=1800), 'MergeJoin')
    tlc.check_coverage(r, ACTIONS, 'MergeJoin')
    chk.add_tlc(r, 'MergeJoin', cfg, ACTIONS)
    sensitivity(chk)
    cases, xcases, _l = common.gen('JoinGen', 'JoinGen', outs=('OUT', 'OUT2', 'OUT3'))
    profiles = ['ints', 'mixed', 'text', 'compound', 'equalreps'] if full else ['ints', 'mixed', 'equalreps', 'compound']
    if not full:
        rng = random.Random(seed)
        # quick tier: all rectangular/diff/compound cases, a seeded third of the ragged ones
        cases = [c for c in cases if not _ragged(c) or rng.random() < 0.34]
    check_cases(chk, cases, profiles, full)
    check_cross(chk, xcases, profiles)
    traces, concrete = record_traces(2500 if full else 300, seed)
    validate_traces(chk, traces, concrete, seed)
    from harness import algebra
    algebra.run(chk, ['A2', 'A4', 'A5'], full, seed)
    chk.exhaustive = full
    chk.assumptions = ['sort() itself is covered by C05; here it is used through the real JoinView',
                       'bounds: merge-loop model <= %d rows per side over 3 key values; generated tables: rectangular <= 3, '
                       'ragged <= 2, compound <= 2 rows per side' % (4 if full else 3)]
    return chk.finish(rule='G: TLC-generated (layout, operator, missing, left, right) cases x value profile x option variant '
                           '(natural key, prefixes, presorted, buffersize, cache) on the real join functions + crossjoin; '
                           'V: Hypothesis table pairs validated by JoinTrace; distinct = distinct (case, profile, variant)')


def _ragged(c):
    return c['lay'] == 'same' and (any(len(r) != 2 for r in c['left']) or any(len(r) != 2 for r in c['right']))


def replay(path):
    with open(path) as f:
        rp = json.load(f)['replay']
    if rp['kind'] == 'join':
        msg, drift = run_case(rp['case'], rp['profile'], rp['variant'], rp['occ'])
    elif rp['kind'] == 'cross':
        msg = run_cross(rp['case'], rp['profile'], rp['prefix'])
    else:
        print('trace replay: rerun ./check C06 with VERIF_SEED=%s; concrete: %r' % (rp['seed'], rp['concrete']))
        return 0
    print(msg or 'holds')
    return 1 if msg else 0
