"""Typed abstract values <-> concrete Python values (the projection shared by both conformance
directions, DESIGN.md 2.2/2.7).  An abstract value is {"c": class, "r": rank, "s": [elements]}."""
import datetime as dt
from decimal import Decimal

# several equal representatives per numeric rank (equal and hash-equal, distinguishable by type)
NUM = {
    1: [-3, -3.0, Decimal(-3)],
    2: [1, 1.0, True, Decimal(1)],
    3: [2 ** 65, float(2 ** 65), Decimal(2 ** 65)],
}
SCALAR = {
    'date': {1: [dt.date(2020, 1, 1)], 2: [dt.date(2021, 6, 2)]},
    'datetime': {1: [dt.datetime(2019, 1, 1, 0, 0, 1)], 2: [dt.datetime(2022, 1, 1)]},
    'bytes': {1: [b'B', b'B'], 2: [b'a']},          # native bytes order: b'B' < b'a'
    'time': {1: [dt.time(0, 0, 1)], 2: [dt.time(23, 0)]},
    'text': {1: [u'A'], 2: [u'\xe9']},
}


def conc(v, variant=0):
    """abstract value -> python value; `variant` picks among equal representatives and between
    tuple/list for sequences."""
    c = v['c']
    if c == 'none':
        return None
    if c == 'num':
        reps = NUM[v['r']]
        return reps[variant % len(reps)]
    if c == 'seq':
        elems = [conc(e, variant) for e in v['s']]
        return tuple(elems) if variant % 2 == 0 else elems
    reps = SCALAR[c][v['r']]
    return reps[variant % len(reps)]


def classify(x):
    if x is None:
        return 'none'
    if isinstance(x, (bool, int, float, Decimal)):
        return 'num'
    if isinstance(x, dt.datetime):
        return 'datetime'
    if isinstance(x, dt.date):
        return 'date'
    if isinstance(x, dt.time):
        return 'time'
    if isinstance(x, bytes):
        return 'bytes'
    if isinstance(x, str):
        return 'text'
    if isinstance(x, (list, tuple)):
        return 'seq'
    raise ValueError('outside the value domain: %r' % (x,))


def _collect(x, bycls):
    c = classify(x)
    if c == 'seq':
        for e in x:
            _collect(e, bycls)
    elif c != 'none':
        bycls.setdefault(c, []).append(x)


def abstract_batch(values):
    """Abstract a batch of concrete values to typed values whose ranks are the dense native
    ranks *within the batch* (computed with Python's native order per class, independently of
    petl's Comparable)."""
    bycls = {}
    for x in values:
        _collect(x, bycls)
    ranks = {}
    for c, xs in bycls.items():
        distinct = []
        for x in sorted(xs):
            if not distinct or distinct[-1] != x:   # native == inside one class
                distinct.append(x)
        ranks[c] = distinct

    def ab(x):
        c = classify(x)
        if c == 'none':
            return {'c': 'none', 'r': 0, 's': []}
        if c == 'seq':
            return {'c': 'seq', 'r': 0, 's': [ab(e) for e in x]}
        d = ranks[c]
        # position of the first element equal to x
        lo = 0
        for i, y in enumerate(d):
            if y == x:
                lo = i + 1
                break
        assert lo, (x, d)
        return {'c': c, 'r': lo, 's': []}
    return [ab(x) for x in values]
