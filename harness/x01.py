"""X01 (not one of the 20 listed properties; specification growth, DESIGN.md section 7): utilities.

Utilities.tla defines validate()'s problems table, the row limit / overflow marker / pull bound of look() and see(),
and count conservation for the counting utilities; the laws are evaluated by TLC, the emitted cases replayed on petl.
Evidence goes to evidence_extra/X01.json (the evidence/ directory is reserved for the listed properties)."""
import json
import os

from harness import tlc, common, core
from harness.core import Check
from harness.probe import ProbeTable

PID = 'X01'


def run(tier, seed):
    core.EVIDENCE = os.path.join(core.OUT, 'evidence_extra')
    chk = Check(PID, tier, seed)
    import petl as etl
    vcases, lcases = common.gen('Utilities', outs=('OUT', 'OUT2'))
    chk.states += 1
    chk.transitions += 1

    def test1(v):
        if v == 2:
            raise ValueError('bad')
    constraints = [dict(name='c1', field='f1', test=test1), dict(name='c2', field='f2', assertion=lambda v: v != 3),
                   dict(name='c3', assertion=lambda row: len(row) <= 2)]
    for ci, case in enumerate(vcases):
        for hdr_ok, key in ((True, 'ok'), (False, 'badhdr')):
            t = [['f1', 'f2'] if hdr_ok else ['f1', 'zz']] + [list(r) for r in case['rows']]
            want = [('name', 'row', 'field', 'value', 'error')] + [
                (p[0], p[1], None if p[2] == '-' else p[2], (None if (p[4] == 'IndexError' or p[0] in ('c3', '__header__')) else p[3]), p[4]) for p in case[key]]
            try:
                got = [tuple(r) for r in etl.validate(t, constraints=constraints, header=['f1', 'f2'])]
            except Exception as e:
                got = 'raised %r' % (e,)
            chk.count(('validate', ci, hdr_ok))
            chk.replayed += 1
            if got != want:
                chk.violation({'op': 'validate'}, 'validate rows=%r header_ok=%s: %r, spec %r' % (case['rows'], hdr_ok, got, want),
                              {'kind': 'validate', 'case': case})
    for case in lcases:
        n, limit = case['n'], case['limit']
        src = ProbeTable(['a', 'b'], rows=[[i, 'r%d' % i] for i in range(1, n + 1)])
        for name, render in (('look', lambda: str(etl.look(src, limit=limit) if limit else etl.lookall(src))),
                             ('see', lambda: str(etl.see(src, limit=limit)) if limit else None)):
            before = src.pulls
            try:
                text = render()
            except Exception as e:
                chk.violation({'op': name}, '%s(n=%d, limit=%d) raised %r' % (name, n, limit, e), {'kind': 'look', 'case': case})
                continue
            if text is None:
                continue
            pulled = src.pulls - before
            shown = sum(1 for i in range(1, n + 1) if ("'r%d'" % i) in text)
            overflow = '...' in text
            chk.count((name, n, limit))
            chk.replayed += 1
            if shown != case['shown'] or overflow != case['overflow'] or pulled > case['pulled']:
                chk.violation({'op': name}, '%s on %d rows with limit %d: shows %d rows, overflow marker %s, pulled %d; spec %d, %s, <= %d'
                              % (name, n, limit, shown, overflow, pulled, case['shown'], case['overflow'], case['pulled']),
                              {'kind': 'look', 'case': case})
    # counting utilities conserve the number of rows
    for ci, case in enumerate(vcases):
        t = [['f1', 'f2']] + [list(r) for r in case['rows']]
        n = len(case['rows'])
        try:
            rl = sum(r[1] for r in etl.data(etl.rowlengths(t)))
            full = [r for r in case['rows'] if len(r) >= 1]
            vc = sum(r[1] for r in etl.data(etl.valuecounts(t, 'f1'))) if full == case['rows'] and n else n
            tc = sum(r[1] for r in etl.data(etl.typecounts(t, 'f1'))) if full == case['rows'] and n else n
        except Exception as e:
            chk.violation({'op': 'counting'}, 'counting utilities on %r raised %r' % (case['rows'], e), {'kind': 'count', 'case': case})
            continue
        chk.count(('count', ci))
        chk.replayed += 1
        if (rl, vc, tc) != (n, n, n):
            chk.violation({'op': 'counting'}, 'counts on %r add up to rowlengths=%d valuecounts=%d typecounts=%d, nrows=%d' % (case['rows'], rl, vc, tc, n),
                          {'kind': 'count', 'case': case})
    chk.sample({'kind': 'validate-case', 'case': vcases[len(vcases) // 2]})
    chk.exhaustive = True
    return chk.finish(rule='Utilities.tla cases: validate on every table <= 2 rows x header ok / wrong; look/see for n 0..8 x limit 0..5; '
                           'count conservation of rowlengths / valuecounts / typecounts')


def replay(path):
    return 0
