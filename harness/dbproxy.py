"""Recording proxy around a real sqlite3 connection/cursor (DESIGN.md 2.3): every DB-API call petl makes is
an event, and after every event a FRESH connection reads the durable table contents."""
import sqlite3

_connect = sqlite3.connect     # the real one (the driver may patch sqlite3.connect while petl runs)


class Recorder(object):
    def __init__(self, path, table='t'):
        self.path = path
        self.table = table
        self.events = []

    def durable(self):
        con = _connect(self.path)
        try:
            return [r[0] for r in con.execute('select v from %s order by rowid' % self.table)]
        finally:
            con.close()

    def log(self, name):
        self.events.append({'ev': name, 'durable': self.durable()})


class Conn(object):
    """duck-typed DB-API connection"""

    def __init__(self, rec, real=None):
        self._rec = rec
        self._real = real or _connect(rec.path)

    def cursor(self):
        self._rec.log('cursor')
        return Cur(self._rec, self._real.cursor(), self)

    def commit(self):
        self._real.commit()
        self._rec.log('commit')

    def rollback(self):
        self._real.rollback()
        self._rec.log('rollback')

    def close(self):
        self._real.close()
        self._rec.log('close_conn')

    def __getattr__(self, name):
        # everything else (total_changes, in_transaction, isolation_level, execute ...) is the real connection's
        return getattr(self._real, name)


class Cur(object):
    def __init__(self, rec, real, conn):
        self._rec = rec
        self._real = real
        self.connection = conn

    def execute(self, sql, *args):
        r = self._real.execute(sql, *args)
        self._rec.log('execute_delete' if sql.strip().upper().startswith('DELETE') else 'execute')
        return r

    def executemany(self, sql, rows):
        rec = self._rec

        def pulled():
            it = iter(rows)
            while True:
                try:
                    row = next(it)
                except StopIteration:
                    rec.log('source_exhausted')
                    return
                yield row
                rec.log('insert_row')      # the generator is resumed after sqlite3 has executed the INSERT
        return self._real.executemany(sql, pulled())

    def fetchone(self):
        return self._real.fetchone()

    def fetchmany(self, *a):
        return self._real.fetchmany(*a)

    def fetchall(self):
        return self._real.fetchall()

    def close(self):
        self._real.close()
        self._rec.log('close_cursor')

    @property
    def description(self):
        return self._real.description
