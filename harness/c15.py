"""C15 - writing a table and reading it back returns the same table.

TLC:  FileStore  - store semantics (to* replaces, append* extends, header flags) and the writer stack
                   (open(mode) -> buffer -> text wrapper -> rows -> flush -> detach -> close) for all histories of 3
                   operations over small tables: StoreCorrect, RoundTrip, AppendExtends; the variant without the flush
                   before detach is a negative test TLC must refute.
G:    every history TLC generates is replayed on csv / tsv / pickle / text (+ single writes on json, jsonlines,
      jsonarrays) with cells drawn from adversarial classes (delimiter, quote chars, CR, LF, CRLF, NUL, non-ASCII, astral,
      empty, edge spaces), encodings, csv delimiter/quotechar/quoting arguments and source kinds (path, .gz, .bz2,
      MemorySource); after every operation the target is read back with the matching from* and compared with the store
      the spec prescribes (records rendered by the codec); to + append is compared byte-wise with to(cat).
V:    single operations against a recording source; buffer growth decoded to complete records and validated by
      FileStoreTrace (drives FileStore's own actions).
Character-level fidelity is sampled by the replay, not decided by TLC (DESIGN.md, C15 honest limit).
"""
import csv
import json
import os
import random

from harness import tlc, common, iolib
from harness.core import Check

PID = 'C15'
HDR = [u'f1', u'f2']
ENCODINGS = ['utf-8', 'utf-16', 'latin-1', 'cp1252', 'utf-8-sig']
DIALECTS = [{}, {'delimiter': ';'}, {'delimiter': '|', 'quotechar': "'"}, {'quoting': csv.QUOTE_ALL},
            {'delimiter': '\t', 'quoting': csv.QUOTE_ALL, 'quotechar': "'"}, {'quoting': csv.QUOTE_NONNUMERIC},
            {'quoting': csv.QUOTE_NONE}]
KINDS = ['path', 'gz', 'bz2', 'memory']


def concrete_table(ids, cls, typed=False, ragged=False):
    return [list(HDR)] + iolib.table_rows(ids, cls, typed, ragged)


def expected_records(store, cls, typed=False, ragged_ids=None):
    """spec store (0 = header record, else row id) -> concrete rows"""
    out = []
    for rec in store:
        if rec == 0:
            out.append(list(HDR))
        else:
            out.append(None)      # filled by caller (rows depend on position for raggedness)
    return out


def run_history(hist, fmt, cls, encoding, dialect, kind, tmp):
    """Returns (violation message, signature) or (None, None)."""
    import petl as etl
    tgt = iolib.Target(kind, tmp)
    typed = fmt == 'pickle'
    kw = {}
    if fmt in ('csv', 'tsv'):
        kw = dict(encoding=encoding)
        if fmt == 'csv':
            kw.update(dialect)
    elif fmt == 'text':
        kw = dict(encoding=encoding, template=u'{f1}|{f2}\n')
    stored = []          # concrete rows the spec says are in the target
    bytes_cat = None
    for step, ev in enumerate(hist):
        rows = iolib.table_rows(ev['rows'], cls, typed)
        table = [list(HDR)] + rows
        op = ev['op']
        wh = ev['write_header']
        sig = {'op': op, 'format': fmt, 'source': kind, 'encoding': encoding if fmt in ('csv', 'tsv', 'text') else '-'}
        try:
            if fmt == 'text':
                # text has no header record: write_header does not apply, the template renders data rows only
                if op == 'to':
                    etl.totext(table, tgt.src, **kw)
                elif op == 'append':
                    etl.appendtext(table, tgt.src, **kw)
                else:
                    got_rows = [tuple(r) for r in etl.teetext(table, tgt.src, **kw)]
                    if got_rows != [tuple(r) for r in table]:
                        return 'teetext delivered %r, wrapped table %r' % (got_rows, table), dict(sig, clause='tee-rows')
                stored = (stored if op == 'append' else []) + rows
                back = [r[0] for r in etl.data(etl.fromtext(tgt.read_source(), encoding=encoding, header=['lines']))]
                want = [u'%s|%s' % tuple(r) for r in stored]
                # a cell containing a line break legitimately spans lines in a plain text template: compare joined text
                if u'\n'.join(back) != u'\n'.join(w for w in want).replace(u'\r\n', u'\n').replace(u'\r', u'\n') and \
                   u'\n'.join(back) != u'\n'.join(want):
                    return 'step %d %s: text read back %r, spec %r' % (step + 1, op, back, want), dict(sig, clause='readback')
                continue
            fn = {('csv', 'to'): etl.tocsv, ('csv', 'append'): etl.appendcsv, ('csv', 'tee'): etl.teecsv,
                  ('tsv', 'to'): etl.totsv, ('tsv', 'append'): etl.appendtsv, ('tsv', 'tee'): etl.teetsv,
                  ('pickle', 'to'): etl.topickle, ('pickle', 'append'): etl.appendpickle, ('pickle', 'tee'): etl.teepickle}[(fmt, op)]
            if op == 'tee':
                got_rows = [tuple(r) for r in fn(table, tgt.src, write_header=wh, **kw)]
                if got_rows != [tuple(r) for r in table]:
                    return 'tee%s delivered %r, wrapped table %r' % (fmt, got_rows, table), dict(sig, clause='tee-rows')
            else:
                fn(table, tgt.src, write_header=wh, **kw)
        except Exception as e:
            return 'step %d %s raised %r' % (step + 1, op, e), dict(sig, clause='raises')
        stored = (stored if op == 'append' else []) + ([list(HDR)] if wh else []) + rows
        if len(stored) != len(ev['store']):
            raise tlc.MachineryError('driver and spec disagree on the store length')
        # read back everything the target holds: header=[...] makes every stored record a data row
        try:
            if fmt == 'pickle':
                back = [tuple(r) for r in etl.frompickle(tgt.read_source())]
                want = [tuple(r) for r in stored]
            else:
                rd = etl.fromcsv if fmt == 'csv' else etl.fromtsv
                rkw = dict(encoding=encoding)
                if fmt == 'csv':
                    rkw.update({k: v for k, v in dialect.items() if k != 'quoting'})
                back = [tuple(r) for r in etl.data(rd(tgt.read_source(), header=['x', 'y'], **rkw))]
                want = [iolib.render_csv(r) for r in stored]
        except Exception as e:
            return 'step %d: reading back after %s raised %r' % (step + 1, op, e), dict(sig, clause='readback-raises')
        if back != want:
            return 'step %d %s(write_header=%s): read back %r, spec %r' % (step + 1, op, wh, back, want), dict(sig, clause='readback')
        # the natural reading (first record = header) returns the table that was written
        if step == 0 and op in ('to', 'tee') and wh:
            nat = [tuple(r) for r in (etl.frompickle(tgt.read_source()) if fmt == 'pickle' else
                                      (etl.fromcsv if fmt == 'csv' else etl.fromtsv)(tgt.read_source(), **rkw))]
            wantn = [tuple(r) for r in table] if fmt == 'pickle' else [iolib.render_csv(r) for r in table]
            if nat != wantn:
                return 'to%s then from%s returned %r, table %r' % (fmt, fmt, nat, wantn), dict(sig, clause='roundtrip')
    return None, None


def run_json(ids, cls, kind, tmp):
    import petl as etl
    rows = iolib.table_rows(ids, cls)
    table = [list(HDR)] + rows
    for name, wfn, rkw in (('tojson', lambda s: etl.tojson(table, s), {}),
                           ('tojson(lines)', lambda s: etl.tojson(table, s, lines=True), {'lines': True}),
                           ('tojson(ensure_ascii=False)', lambda s: etl.tojson(table, s, ensure_ascii=False), {}),
                           ('tojson(lines, ensure_ascii=False)', lambda s: etl.tojson(table, s, lines=True, ensure_ascii=False), {'lines': True}),
                           ('tojson(lines, sort_keys, separators)', lambda s: etl.tojson(table, s, lines=True, sort_keys=True, separators=(',', ':')), {'lines': True}),
                           ('tojsonarrays', lambda s: etl.tojsonarrays(table, s), {'arrays': 'data'}),
                           ('tojsonarrays(output_header)', lambda s: etl.tojsonarrays(table, s, output_header=True), {'arrays': 'all'})):
        tgt = iolib.Target(kind, tmp, 'j')
        try:
            wfn(tgt.src)
            if 'arrays' in rkw:
                back = json.loads(tgt.raw().decode('utf-8'))
                back = [tuple(r) for r in back]
                want = [tuple(r) for r in (table if rkw['arrays'] == 'all' else table[1:])]   # arrays of data rows (header optional)
            else:
                back = [tuple(r) for r in etl.fromjson(tgt.read_source(), header=HDR, **rkw)]
                want = [tuple(r) for r in table]
        except Exception as e:
            return '%s raised %r' % (name, e), {'op': name, 'format': 'json', 'source': kind, 'clause': 'raises'}
        if back != want:
            return '%s then fromjson returned %r, table %r' % (name, back, want), {'op': name, 'format': 'json', 'source': kind, 'clause': 'roundtrip'}
    return None, None


def check_byte_concat(chk, cls, encoding, dialect, tmp):
    """append* after to* equals writing the concatenation (cat) - byte for byte (decompressed)."""
    import petl as etl
    a = concrete_table([11, 12], cls)
    b = concrete_table([13], cls)
    for kind in KINDS:
        t1, t2 = iolib.Target(kind, tmp, 'c1'), iolib.Target(kind, tmp, 'c2')
        try:
            etl.tocsv(a, t1.src, encoding=encoding, **dialect)
            etl.appendcsv(b, t1.src, encoding=encoding, **dialect)
            etl.tocsv(etl.cat(a, b), t2.src, encoding=encoding, **dialect)
        except Exception as e:
            chk.violation({'op': 'append', 'format': 'csv', 'source': kind, 'encoding': encoding, 'clause': 'raises'},
                          'tocsv + appendcsv on %s (%s) raised %r' % (kind, encoding, e), {'kind': 'concat'})
            continue
        chk.count(('concat', cls, encoding, kind))
        chk.replayed += 1
        if t1.raw() != t2.raw():
            chk.violation({'op': 'append', 'format': 'csv', 'source': kind, 'encoding': encoding, 'clause': 'concat-bytes'},
                          'tocsv + appendcsv (%s, %s, cells %s) holds %r, tocsv(cat) holds %r' % (kind, encoding, cls, t1.raw()[:120], t2.raw()[:120]),
                          {'kind': 'concat', 'cls': cls, 'encoding': encoding, 'kindsrc': kind})


def check_boundaries(chk, tmp, full):
    """Round trips of LARGE files (beyond 64 KiB / 128 KiB, i.e. across every plausible read- or write-buffer
    boundary): every data record has the same byte length R, and the first record is padded by 0..R-1 characters in
    turn, so that over the sweep every byte of a record (in particular the CR and the LF of its terminator, a quote,
    the halves of a multi-byte character) falls on every buffer offset."""
    import petl as etl
    variants = [('csv', 'utf-8', {}, 'path'), ('csv', 'utf-8', {}, 'memory'), ('csv', None, {}, 'gz'),
                ('tsv', 'utf-8', {}, 'path'), ('csv', 'utf-16', {}, 'path'), ('csv', 'latin-1', {'lineterminator': '\n'}, 'path'),
                ('csv', 'utf-8', {'quoting': csv.QUOTE_ALL}, 'bz2'), ('pickle', None, {}, 'path')]
    if not full:
        variants = variants[:5]
    for fmt, enc, dialect, kind in variants:
        cells = (u'ab', u'c\xe9') if enc not in (None,) else (u'ab', u'cd')
        rowlen = None
        for pad in range(0, 9):
            rows = [[u'x' * pad + cells[0], cells[1]]] + [[cells[0], cells[1]] for _ in range(17000 if fmt != 'pickle' else 3000)]
            t = [['f', 'g']] + rows
            tgt = iolib.Target(kind, tmp, name='big_%s_%s_%d' % (fmt, kind, pad))
            kw = dict(dialect)
            if enc:
                kw['encoding'] = enc
            try:
                if fmt == 'pickle':
                    etl.topickle(t, tgt.src)
                    back = etl.frompickle(tgt.read_source())
                else:
                    getattr(etl, 'to' + fmt)(t, tgt.src, **kw)
                    back = getattr(etl, 'from' + fmt)(tgt.read_source(), **kw)
                n = 0
                bad = None
                for i, r in enumerate(back):
                    n += 1
                    if tuple(r) != tuple(t[i]) if i < len(t) else True:
                        bad = (i, tuple(r), tuple(t[i]) if i < len(t) else None)
                        break
                size = len(tgt.raw())
            except Exception as e:
                bad, n, size = ('raised', repr(e), None), 0, 0
            chk.count(('boundary', fmt, enc, kind, pad))
            chk.replayed += 1
            if bad or n != len(t):
                chk.violation({'op': 'to' + fmt, 'format': fmt, 'kind': 'large-roundtrip'},
                              '%s encoding=%s %r source=%s, %d rows (%d bytes), first record padded by %d: read back %d rows; first difference %r'
                              % (fmt, enc, dialect, kind, len(t), size, pad, n, bad),
                              {'kind': 'boundary', 'fmt': fmt, 'enc': enc, 'dialect': dialect, 'source': kind, 'pad': pad})
            if tgt.path and os.path.exists(tgt.path):
                os.remove(tgt.path)


def check_view_reuse(chk, tmp):
    """A from* view is a view of the FILE: after the file has been rewritten with other fields (other names, another
    order, another number), the next pass of the same view object delivers the new table."""
    import petl as etl
    t1 = [[u'a', u'b', u'c']] + [[u'1', u'x', u'p'], [u'2', u'y', u'q']]
    t2 = [[u'c', u'a']] + [[u'r', u'7'], [u's', u'8'], [u't', u'9']]
    t3 = [[u'\ufeffa', u'b']] + [[u'\ufeffz', u'1']]
    fmts = [('csv', lambda t, p, **k: etl.tocsv(t, p, encoding='utf-8', **k), lambda p: etl.fromcsv(p, encoding='utf-8')),
            ('csv(default encoding)', lambda t, p, **k: etl.tocsv(t, p, **k), lambda p: etl.fromcsv(p)),
            ('tsv', lambda t, p, **k: etl.totsv(t, p, encoding='utf-8', **k), lambda p: etl.fromtsv(p, encoding='utf-8')),
            ('pickle', lambda t, p, **k: etl.topickle(t, p, **k), lambda p: etl.frompickle(p)),
            ('json', lambda t, p, **k: etl.tojson(t, p), lambda p: etl.fromjson(p)),
            ('json(lines)', lambda t, p, **k: etl.tojson(t, p, lines=True), lambda p: etl.fromjson(p, lines=True))]
    for name, w, r in fmts:
        path = os.path.join(tmp, 'reuse_%s.dat' % name.split('(')[0])
        try:
            w(t1, path)
            v = r(path)
            p1 = [tuple(x) for x in v]
            w(t2, path)
            p2 = [tuple(x) for x in v]
            w(t3, path)
            p3 = [tuple(x) for x in v]
            res = (p1, p2, p3)
        except Exception as e:
            res = 'raised %r' % (e,)
        want = tuple([tuple(x) for x in t] for t in (t1, t2, t3))
        chk.count(('view-reuse', name))
        chk.replayed += 1
        if res != want:
            chk.violation({'op': 'from' + name.split('(')[0], 'format': name, 'kind': 'view-reuse'},
                          '%s: one from* view iterated after the file was written with three different tables delivered %r, the tables are %r'
                          % (name, res, want), {'kind': 'view-reuse', 'fmt': name})
        # write_header=False where the first CELL starts with the BOM character
        if name.startswith('csv') or name == 'tsv':
            try:
                w(t3, path, write_header=False)
                back = [tuple(x) for x in (etl.fromcsv if name != 'tsv' else etl.fromtsv)(path, encoding='utf-8', header=[u'h1', u'h2'])]
                wantb = [(u'h1', u'h2')] + [tuple(x) for x in t3[1:]]
                if back != wantb:
                    chk.violation({'op': 'from' + name.split('(')[0], 'format': name, 'kind': 'view-reuse'},
                                  '%s written without header, first cell starting with U+FEFF: read back %r, table %r' % (name, back, wantb),
                                  {'kind': 'view-reuse', 'fmt': name})
            except Exception as e:
                chk.violation({'op': 'from' + name.split('(')[0], 'format': name, 'kind': 'view-reuse'}, '%s (no header, U+FEFF cell) raised %r' % (name, e),
                              {'kind': 'view-reuse', 'fmt': name})


def check_zero_columns(chk, tmp):
    """A table without any field (rows are empty tuples): with and without header record, with an explicit empty header."""
    import petl as etl
    t = [[], [], []]
    for fmt, w, r in (('csv', etl.tocsv, etl.fromcsv), ('tsv', etl.totsv, etl.fromtsv), ('pickle', etl.topickle, etl.frompickle)):
        for wh in (True, False):
            for h in ((None,) if wh else ((), [])):
                path = os.path.join(tmp, 'zero_%s.dat' % fmt)
                chk.count(('zero-columns', fmt, wh, repr(h)))
                chk.replayed += 1
                try:
                    w(t, path, write_header=wh)
                    if fmt == 'pickle':
                        back = [tuple(x) for x in r(path)]
                        want = [()] * (3 if wh else 2)
                    else:
                        back = [tuple(x) for x in (r(path) if h is None else r(path, header=h))]
                        want = [(), (), ()]
                except Exception as e:
                    back, want = 'raised %r' % (e,), None
                if back != want:
                    chk.violation({'op': 'from' + fmt, 'format': fmt, 'kind': 'zero-columns'},
                                  '%s of a table without fields (2 data rows), write_header=%s, read with header=%r: %r, spec %r' % (fmt, wh, h, back, want),
                                  {'kind': 'zero-columns', 'fmt': fmt})


def check_json_large(chk, tmp):
    """JSON round trips with MORE records than the header-discovery sample (1000 by default), and with a tiny sample."""
    import petl as etl
    for n, kw in ((1003, {}), (2001, {}), (5, {'sample': 2}), (5, {'sample': 1}), (1003, {'lines': True})):
        t = [[u'f1', u'f2']] + [[i, u'v%d' % i] for i in range(n)]
        path = os.path.join(tmp, 'big_%d.json' % n)
        chk.count(('json-large', n, json.dumps(kw, sort_keys=True)))
        chk.replayed += 1
        try:
            etl.tojson(t, path, **({'lines': True} if kw.get('lines') else {}))
            back = [tuple(r) for r in etl.fromjson(path, **kw)]
            back2 = [tuple(r) for r in etl.fromdicts(list(etl.dicts(t)), **{k: v for k, v in kw.items() if k == 'sample'})]
        except Exception as e:
            back, back2 = 'raised %r' % (e,), None
        want = [tuple(r) for r in t]
        if back != want or back2 != want:
            bad = back if back != want else back2
            d = next((i for i, (g, w_) in enumerate(zip(bad, want)) if g != w_), min(len(bad), len(want))) if isinstance(bad, list) else None
            chk.violation({'op': 'fromjson', 'format': 'json', 'kind': 'json-large'},
                          'tojson then fromjson(%r) of %d records: %s rows come back, first difference at row %s' % (kw, n, len(bad) if isinstance(bad, list) else bad, d),
                          {'kind': 'json-large', 'n': n, 'kw': kw})


def check_sources(chk):
    """Sources.tla: the decision table that maps a source argument to a source class, replayed on the real resolver."""
    from petl.io import sources as S
    table = common.gen('Sources')
    chk.states += 1
    chk.transitions += 1

    class WithOpen(object):
        def open(self, mode='rb'):
            pass

    class NoOpen(object):
        pass
    for case in table:
        a = case['arg']
        if a['kind'] == 'none':
            arg = None
        elif a['kind'] == 'object':
            arg = WithOpen() if a['open'] else NoOpen()
        else:
            proto = {'': '', 'http': 'http://', 'https': 'https://', 'ftp': 'ftp://', 'smb': 'smb://', 'other': 'zzz://'}[a['proto']]
            arg = proto + 'host_or_dir/name' + a['ext']
        fn = S.read_source_from_arg if case['mode'] == 'read' else S.write_source_from_arg
        try:
            res = fn(arg)
            got = 'same object' if res is arg else type(res).__name__
        except AssertionError:
            got = 'AssertionError'
        except Exception as e:
            got = repr(e)
        chk.count(('source', json.dumps(case['arg'], sort_keys=True), case['mode']))
        chk.replayed += 1
        if got != case['result']:
            chk.violation({'op': 'source-resolution', 'format': '-', 'source': a['ext'] or a['kind']},
                          '%s_source_from_arg(%r) resolved to %s, decision table says %s' % (case['mode'], arg, got, case['result']),
                          {'kind': 'source', 'case': case})


# ---- V ---------------------------------------------------------------------------------------------------

def record_traces(n, seed):
    import petl as etl
    rng = random.Random(seed)
    traces, problems = [], []
    for _ in range(n):
        fmt = rng.choice(['csv', 'pickle'])
        ids0 = list(range(21, 21 + rng.randrange(0, 3)))
        ids = list(range(11, 11 + rng.randrange(0, 6)))
        wh = rng.random() < 0.6
        op = rng.choice(['to', 'append', 'tee'])
        cls = rng.choice(sorted(iolib.TEXT_CLASSES))
        enc = rng.choice(['utf-8', 'utf-16'])
        init_tab = [list(HDR)] + iolib.table_rows(ids0, cls, fmt == 'pickle')
        src = iolib.RecordingSource()
        if fmt == 'csv':
            etl.tocsv(init_tab, src, encoding=enc)
            count = lambda b: iolib.count_csv_records(b, enc)
        else:
            etl.topickle(init_tab, src)
            count = iolib.count_pickle_records
        src.log = []
        table = [list(HDR)] + iolib.table_rows(ids, cls, fmt == 'pickle')
        if fmt == 'csv':
            fn = {'to': etl.tocsv, 'append': etl.appendcsv, 'tee': etl.teecsv}[op]
            res = fn(table, src, encoding=enc, write_header=wh)
        else:
            fn = {'to': etl.topickle, 'append': etl.appendpickle, 'tee': etl.teepickle}[op]
            res = fn(table, src, write_header=wh)
        if op == 'tee':
            list(iter(res))
        evs, last = [], None
        for name, payload in src.log:
            if name == 'open':
                evs.append({'ev': 'open', 'op': 'append' if payload == 'append' else op, 'n': 0})
            elif name == 'close':
                evs.append({'ev': 'close', 'op': op, 'n': count(payload)})
            else:
                c = count(payload)
                if c != last:
                    evs.append({'ev': 'grow', 'op': op, 'n': c})
                    last = c
        traces.append({'initial': [0] + ids0, 'rows': ids, 'write_header': wh, 'events': evs, 'fmt': fmt, 'op': op, 'enc': enc, 'cls': cls})
    return traces


def run(tier, seed):
    chk = Check(PID, tier, seed)
    full = tier == 'thorough'
    rng = random.Random(seed)
    r = tlc.require_ok(tlc.run('FileStore', cfg='FileStore_ok', timeout=900), 'FileStore')
    chk.add_tlc(r, 'FileStore', 'FileStore_ok')
    rn = tlc.run('FileStore', cfg='FileStore_noflush', timeout=600)
    if rn.error or not rn.violated:
        raise tlc.MachineryError('FileStore_noflush (negative test) did not fail: %s' % (rn.error or 'passed'))
    chk.note('negative test: without the flush before detach TLC refutes %s' % rn.violated)
    # unbounded layer: FileStore implements the counting abstraction FileStoreInt (TLC); its inductive invariant holds for
    # tables and histories of any length (Apalache); without the flush before detach the proof must fail
    from harness import apalache
    rr = tlc.require_ok(tlc.run('FileStoreRef', cfg='FileStoreRef', timeout=900), 'FileStoreRef')
    chk.add_tlc(rr, 'FileStoreRef', 'FileStoreRef')
    apalache.inductive(chk, 'FileStoreInt', negative=[('Variant = "ok"', 'Variant = "noflush"')])
    rg = tlc.run('FileStore', cfg='FileStoreGen', timeout=900, workers=1, coverage=False)
    if rg.error or rg.violated:
        raise tlc.MachineryError('FileStoreGen: %s' % (rg.error or rg.violated))
    hists = [json.loads(json.loads(l)) for l in sorted(set(l for l in rg.prints if l.startswith('"[')))]
    if len(hists) < 1000:
        raise tlc.MachineryError('FileStoreGen emitted only %d histories' % len(hists))
    sel = hists if full else rng.sample(hists, 500)
    classes = sorted(iolib.TEXT_CLASSES)
    with common.private_tmp() as tmp:
        for hi, hist in enumerate(sel):
            fmt = ['csv', 'csv', 'tsv', 'pickle'][hi % 4]      # plain-text templates are not a round-trip format (C16 covers teetext)
            cls = classes[hi % len(classes)]
            enc = ENCODINGS[(hi // 3) % len(ENCODINGS)]
            if enc in ('latin-1', 'cp1252') and cls not in iolib.LATIN1_OK:
                enc = 'utf-8'
            if enc == 'cp1252' and cls in ('nul',):
                enc = 'latin-1'
            dialect = DIALECTS[(hi // 7) % len(DIALECTS)] if fmt == 'csv' else {}
            if dialect.get('quoting') == csv.QUOTE_NONE and cls not in iolib.NO_SPECIALS:
                cls = ['plain', 'backslash'][hi % 2]    # QUOTE_NONE without escapechar: cells without special characters
            if fmt == 'tsv' and cls in ('delims',):
                cls = 'plain'     # a TAB inside a cell of a tab-separated file is quoted by the csv module: still fine, keep plain for variety
            if fmt == 'text' and cls in ('newlines', 'nul'):
                cls = 'plain'
            kind = KINDS[(hi // 11) % len(KINDS)]
            msg, sig = run_history(hist, fmt, cls, enc, dialect, kind, tmp)
            chk.count(('hist', hi, fmt, cls, enc, kind))
            chk.replayed += 1
            if msg:
                chk.violation(sig, '%s cells=%s encoding=%s dialect=%r source=%s history=%r: %s'
                              % (fmt, cls, enc, dialect, kind, [(e['op'], e['rows'], e['write_header']) for e in hist], msg),
                              {'kind': 'history', 'history': hist, 'fmt': fmt, 'cls': cls, 'enc': enc, 'dialect': dialect, 'source': kind})
        for ci, cls in enumerate(classes):
            for kind in KINDS:
                msg, sig = run_json([11, 12], cls, kind, tmp)
                chk.count(('json', cls, kind))
                chk.replayed += 1
                if msg:
                    chk.violation(sig, 'json cells=%s source=%s: %s' % (cls, kind, msg), {'kind': 'json', 'cls': cls, 'source': kind})
            for enc in ENCODINGS:
                if enc in ('latin-1', 'cp1252') and (cls not in iolib.LATIN1_OK or cls == 'nul'):
                    continue
                check_byte_concat(chk, cls, enc, DIALECTS[ci % len(DIALECTS)], tmp)
        check_boundaries(chk, tmp, full)
        check_view_reuse(chk, tmp)
        check_json_large(chk, tmp)
        check_zero_columns(chk, tmp)
    check_sources(chk)
    chk.sample({'kind': 'store-history', 'history': sel[0]})
    traces = record_traces(1500 if full else 250, seed)
    rr, verdicts = common.validate('FileStoreTrace', traces)
    chk.add_tlc(rr, 'FileStoreTrace')
    for tid, (bad,) in sorted(verdicts.items()):
        if bad:
            t = traces[tid - 1]
            chk.violation({'op': t['op'], 'format': t['fmt'], 'kind': 'trace'}, 'recorded buffer trace rejected by FileStoreTrace at event %d: %r' % (bad, t),
                          {'kind': 'trace', 'seed': seed, 'trace': t})
    chk.validated += len(traces)
    chk.sample({'kind': 'buffer-trace', 'trace': traces[0]})
    cand = [i for i, t in enumerate(traces) if t['events'] and t['events'][-1]['n'] > 0]
    bad = json.loads(json.dumps([traces[cand[0]]]))
    bad[0]['events'][-1]['n'] -= 1         # one record lost at close
    r2, v2 = common.validate('FileStoreTrace', bad, name='FileStoreTraceBad')
    ok = v2[1][0] != 0
    chk.binding_demo = {'corrupted': 'one record missing at close', 'verdict': list(v2[1]), 'rejected_as_expected': ok}
    if not ok and not chk.violations:
        raise tlc.MachineryError('binding demo failed')
    chk.exhaustive = full
    chk.assumptions = ['character-level encode/decode fidelity is sampled by the replay (adversarial classes x encodings x dialects), '
                       'TLC decides the store / header-flag / append / flush-order state machine',
                       'QUOTE_NONE without escapechar and QUOTE_NONNUMERIC with numeric cells are outside the stated domain; '
                       'line terminator and doublequote at their defaults']
    return chk.finish(rule='G: TLC-generated histories (3 operations over to/append/tee x tables <= 2 rows x write_header) on csv, tsv, '
                           'pickle, text x 8 adversarial cell classes x 5 encodings x 6 dialects x 4 source kinds (rotating), read back after '
                           'every operation; json/jsonlines/jsonarrays single writes; to+append vs to(cat) byte equality; '
                           'V: recording-buffer traces validated by FileStoreTrace')


def replay(path):
    with open(path) as f:
        rp = json.load(f)['replay']
    if rp['kind'] == 'history':
        with common.private_tmp() as tmp:
            msg, _ = run_history(rp['history'], rp['fmt'], rp['cls'], rp['enc'], rp['dialect'], rp['source'], tmp)
        print(msg or 'holds')
        return 1 if msg else 0
    print('replay kind %s: rerun ./check C15' % rp['kind'])
    return 0
