"""C02 - pipelines are lazy: nothing is read until rows are requested, and then only O(k).

TLC:  Lazy      - demand/pull accounting over pipelines of stage classes (map with lookahead, filter, expand, slice):
                  for every composition up to depth 3, every k: source pulls <= composed Need(k) (an expression that does
                  not mention the source length), nothing pulled before the first request, stagewise bounds, tightness.
G:    (a) every catalogue operator tagged `stream` on instrumented sources of TWO lengths (100 and 10 000 rows):
          construction pulls no data row (at most the header where documented), pulls after each of k = 1..6 rows
          are within need(k) + slack and IDENTICAL for both lengths; look()/head()/islice as consumers;
      (b) every pipeline TLC generates (155 compositions) is instantiated with real petl operators of those classes:
          pulls for k = 1..6 must be within the bound TLC computed (equality = model level) and equal at both lengths.
V:    random deeper pipelines recorded as pull/yield event sequences, validated by LazyTrace.
"""
import csv
import contextlib
import io
import itertools
import os
import json
import random

from harness import tlc, common, catalogue
from harness.core import Check
from harness.probe import ProbeTable

PID = 'C02'
SMALL = 100       # the property's "small constant" (per stage), see Lazy.tla
LENGTHS = (3000, 30000)     # both far beyond need + Small for every measured k, so that equal pull counts are meaningful
_ROWS = {}


def probe_a(n, log=None):
    if n not in _ROWS:
        _ROWS[n] = [catalogue.arow(i) for i in range(1, n + 1)]
    return ProbeTable(list(catalogue.AH), rows=_ROWS[n], log=log, name='a')


def probe_b(n):
    if ('b', n) not in _ROWS:
        _ROWS[('b', n)] = [catalogue.brow(i) for i in range(1, n + 1)]
    return ProbeTable(list(catalogue.BH), rows=_ROWS[('b', n)], name='b')


def measure_entry(e, n, kmax=6):
    """Returns dict(construction=(hdr pulls, data pulls), after=[data pulls on the streamed side after k output rows])."""
    a, b = probe_a(n), probe_b(n)
    v = e['fn'](a, b)
    cons = (a.pulls + b.pulls, a.datapulls + b.datapulls)
    it = iter(v)
    after = []
    accessor = 'accessor' in e['tags']
    try:
        if not accessor:
            next(it)                       # header
        for k in range(1, kmax + 1):
            next(it)
            if 'probe-left' in e['tags']:
                after.append(a.datapulls)
            elif 'probe-right' in e['tags']:
                after.append(b.datapulls)
            else:
                after.append(a.datapulls + b.datapulls)
    except StopIteration:
        pass
    del it
    return {'construction': cons, 'after': after}


def check_catalogue(chk):
    for e in catalogue.entries():
        if 'stream' not in e['tags']:
            continue
        ms = [measure_entry(e, n, e['kmax']) for n in LENGTHS]
        chk.count(('entry', e['name']))
        chk.replayed += 1
        sig = {'op': e['name'], 'kind': 'single'}
        hdr, data = ms[0]['construction']
        if data or ms[1]['construction'][1]:
            chk.violation(dict(sig, clause='construction'), '%s: constructing the view pulled %d data row(s) from the source' % (e['name'], max(data, ms[1]['construction'][1])),
                          {'kind': 'entry', 'name': e['name']})
            continue
        if hdr > (e['arity'] if 'hdr1' in e['tags'] else 0) and 'sample' not in e['tags']:
            chk.violation(dict(sig, clause='construction-header'), '%s: constructing the view pulled %d header row(s), allowed %d'
                          % (e['name'], hdr, e['arity'] if 'hdr1' in e['tags'] else 0), {'kind': 'entry', 'name': e['name']})
            continue
        if ms[0]['after'] != ms[1]['after']:
            chk.violation(dict(sig, clause='length-dependence'), '%s: pulls for k=1..6 rows are %r on a %d-row source but %r on a %d-row source'
                          % (e['name'], ms[0]['after'], LENGTHS[0], ms[1]['after'], LENGTHS[1]), {'kind': 'entry', 'name': e['name']})
            continue
        for k, p in enumerate(ms[0]['after'], 1):
            need = e['need'](k) if e['need'] else -(-k // e['fan'])
            if 'accessor' in e['tags']:
                need = k
            bound = need + e['slack'] + SMALL
            if p > bound:
                chk.violation(dict(sig, clause='bound'), '%s: %d data rows pulled for %d output rows, bound need(k) + lookahead + small constant = %d'
                              % (e['name'], p, k, bound), {'kind': 'entry', 'name': e['name']})
                break
            if p > need + e['slack']:
                chk.add_drift('%s: %d data rows pulled for %d output rows, the code as found needs at most %d (still within the small constant)'
                              % (e['name'], p, k, need + e['slack']))
                break
    chk.sample({'kind': 'pull-measurement', 'op': 'addfieldusingcontext',
                'pulls_k1_6': measure_entry(catalogue.by_name()['addfieldusingcontext'], 100)['after']})


# ---- compositions generated by TLC -------------------------------------------------------------------

def stage(cls, variant=0):
    """A real petl operator of the given stage class, as a function table -> table."""
    import petl as etl
    kind = cls[0]
    H = list(catalogue.AH)
    if kind == 'map' and cls[1] == 0:
        return [lambda t: etl.convert(t, 'n', lambda v: v), lambda t: etl.cutout(etl.addfield(t, 'z', 1), 'z'),
                lambda t: etl.rename(etl.rename(t, 'k', 'kk'), 'kk', 'k'), lambda t: etl.sub(t, 's', 'q', 'q')][variant % 4]
    if kind == 'map':
        return [lambda t: etl.cutout(etl.addfieldusingcontext(t, 'z', lambda p, c, n: 0), 'z'),
                lambda t: etl.selectusingcontext(t, lambda p, c, n: True)][variant % 2]
    if kind == 'filter':
        def f(t):
            c = [0]

            def pred(r):
                c[0] += 1
                return c[0] % cls[1] == 0
            return etl.select(t, pred)
        return f
    if kind == 'expand':
        return [lambda t: etl.rowmapmany(t, lambda r: [r] * cls[1], header=H),
                lambda t: etl.rowmapmany(t, lambda r: [list(r)] * cls[1], header=H)][variant % 2]
    if kind == 'slice':
        return lambda t: etl.rowslice(t, cls[1], None, cls[2])
    raise ValueError(cls)


def build_pipeline(pipe, src, variant=0):
    t = src
    for i, cls in enumerate(pipe):
        t = stage(cls, variant + i)(t)
    return t


def measure_pipeline(pipe, n, kmax, variant=0, log=None):
    a = probe_a(n, log=log)
    v = build_pipeline(pipe, a, variant)
    cons = a.datapulls
    it = iter(v)
    after = []
    try:
        next(it)
        for k in range(1, kmax + 1):
            next(it)
            if log is not None:
                log.append(('yield',))
            after.append(a.datapulls)
    except StopIteration:
        pass
    del it
    return cons, after


def check_pipelines(chk, cases, full):
    for ci, case in enumerate(cases):
        pipe = case['pipe']
        for variant in ((0, 1) if full else (ci % 2,)):
            res = [measure_pipeline(pipe, n, 6, variant) for n in LENGTHS]
            chk.count(('pipe', json.dumps(pipe), variant))
            chk.replayed += 1
            sig = {'op': 'pipeline', 'kind': 'composition'}
            what = 'pipeline %r' % (pipe,)
            if res[0][0] or res[1][0]:
                chk.violation(dict(sig, clause='construction'), '%s: construction pulled data rows' % what, {'kind': 'pipe', 'pipe': pipe, 'variant': variant})
            elif res[0][1] != res[1][1]:
                chk.violation(dict(sig, clause='length-dependence'), '%s: pulls %r at %d rows, %r at %d rows' % (what, res[0][1], LENGTHS[0], res[1][1], LENGTHS[1]),
                              {'kind': 'pipe', 'pipe': pipe, 'variant': variant})
            else:
                for k, p in enumerate(res[1][1], 1):
                    if p > case['bound'][k - 1]:
                        chk.violation(dict(sig, clause='bound'), '%s: %d rows pulled for %d output rows, composed bound (need + small constant per stage) %d'
                                      % (what, p, k, case['bound'][k - 1]), {'kind': 'pipe', 'pipe': pipe, 'variant': variant})
                        break
                    if p != case['need'][k - 1]:
                        chk.add_drift('%s: %d rows pulled for %d output rows, model pulls exactly %d' % (what, p, k, case['need'][k - 1]))
                        break
    chk.sample({'kind': 'pipeline-case', 'case': cases[len(cases) // 2], 'measured': measure_pipeline(cases[len(cases) // 2]['pipe'], 100, 6)[1]})


def check_consumers(chk):
    import petl as etl
    consumers = [('look(limit=3)', lambda v: str(etl.look(v, limit=3)), 5), ('head(3)', lambda v: list(iter(etl.head(v, 3))), 4),
                 ('islice(4)', lambda v: list(itertools.islice(v, 5)), 5), ('repr', lambda v: repr(etl.wrap(v)), 8),
                 ('see(limit=2)', lambda v: str(etl.see(v, limit=2)), 4), ('nthrow', lambda v: etl.wrap(v)[3], 4),
                 ("look(limit=3, style='minimal')", lambda v: str(etl.look(v, limit=3, style='minimal')), 5),
                 ("look(limit=3, style='simple')", lambda v: str(etl.look(v, limit=3, style='simple')), 5),
                 ("look(default limit, style='minimal')", lambda v: str(etl.look(v, style='minimal')), 7),
                 ('lookstr(limit=2)', lambda v: etl.lookstr(v, limit=2), 4), ("see(limit=2, style)", lambda v: str(etl.see(v, limit=2, index_header=True)), 4),
                 ('look(truncate, vrepr)', lambda v: str(etl.look(v, limit=3, truncate=4, vrepr=str, width=30)), 5),
                 ('tohtml-ish display limit', lambda v: etl.wrap(v)._repr_html_(), 8)]
    pipe = [['map', 0], ['filter', 2], ['map', 1]]
    for name, consume, rows in consumers:
        pulls = []
        for n in LENGTHS:
            a = probe_a(n)
            v = build_pipeline(pipe, a)
            consume(v)
            pulls.append(a.datapulls)
        chk.count(('consumer', name))
        chk.replayed += 1
        bound = 2 * (rows + 1 + SMALL) + 1 + 2 * SMALL
        if pulls[0] != pulls[1] or pulls[1] > bound:
            chk.violation({'op': name, 'kind': 'consumer'}, '%s over a lazy pipeline pulled %r data rows at lengths %r (bound %d, must not depend on length)'
                          % (name, pulls, LENGTHS, bound), {'kind': 'consumer', 'name': name})


class _CountRaw(io.FileIO):
    def __init__(self, path, counter):
        io.FileIO.__init__(self, path, 'rb')
        self._counter = counter

    def readinto(self, b):
        n = io.FileIO.readinto(self, b)
        self._counter[0] += n or 0
        return n

    def readall(self):
        d = io.FileIO.readall(self)
        self._counter[0] += len(d)
        return d


class CountingSource(object):
    """A petl source (has .open) over a real file that counts the bytes actually read from it."""

    def __init__(self, path):
        self.path = path
        self.counter = [0]
        self.opens = 0

    @contextlib.contextmanager
    def open(self, mode='rb'):
        self.opens += 1
        f = io.BufferedReader(_CountRaw(self.path, self.counter))
        try:
            yield f
        finally:
            f.close()


def check_extractors(chk, tmp):
    """The extractors: constructing the view reads nothing; k rows cost a number of BYTES that does not depend on the
    length of the file (same count for a 300-row and a 30000-row file) and stays within a few buffers."""
    import petl as etl
    sizes = (30000, 120000)     # both files far beyond the few buffers (4 x 64 KiB) an extractor may read ahead
    files = {}
    for n in sizes:
        t = [['f', 'g', 'h']] + [[i, u'v%d' % i, u'text %d' % (i * 7)] for i in range(n)]
        etl.tocsv(t, os.path.join(tmp, 'x%d.csv' % n))
        etl.tocsv(t, os.path.join(tmp, 'x%d_16.csv' % n), encoding='utf-16')
        etl.tocsv(t, os.path.join(tmp, 'x%d_lt.csv' % n), lineterminator=';\n')
        etl.totsv(t, os.path.join(tmp, 'x%d.tsv' % n))
        etl.topickle(t, os.path.join(tmp, 'x%d.p' % n))
        etl.tojson(t, os.path.join(tmp, 'x%d.jsonl' % n), lines=True)
        etl.totext(t, os.path.join(tmp, 'x%d.txt' % n), template=u'{f} {g} {h}\n')
    ex = [('fromcsv', 'csv', lambda s: etl.fromcsv(s)), ('fromcsv(header=)', 'csv', lambda s: etl.fromcsv(s, header=['a', 'b', 'c'])),
          ('fromcsv(utf-16)', '_16.csv', lambda s: etl.fromcsv(s, encoding='utf-16')),
          ('fromcsv(errors=ignore, delimiter)', 'csv', lambda s: etl.fromcsv(s, encoding='utf-8', errors='ignore', delimiter=',')),
          # csv dialect arguments, also the ones csv.reader ignores (lineterminator) - none of them may change how much is read
          ("fromcsv(lineterminator=';\\n')", 'csv', lambda s: etl.fromcsv(s, lineterminator=';\n')),
          ("fromcsv(lineterminator=';\\n') on a file written with it", '_lt.csv', lambda s: etl.fromcsv(s, lineterminator=';\n')),
          ("fromcsv(lineterminator='|', quoting, quotechar)", 'csv', lambda s: etl.fromcsv(s, lineterminator='|', quoting=csv.QUOTE_MINIMAL, quotechar="'")),
          ('fromcsv(doublequote=False, escapechar, skipinitialspace, strict)', 'csv',
           lambda s: etl.fromcsv(s, doublequote=False, escapechar='\\', skipinitialspace=True, strict=True)),
          ("fromcsv(dialect='excel-tab') on the tsv file", 'tsv', lambda s: etl.fromcsv(s, dialect='excel-tab')),
          ("fromtsv(lineterminator='\\r\\r')", 'tsv', lambda s: etl.fromtsv(s, lineterminator='\r\r')),
          ('fromtsv', 'tsv', lambda s: etl.fromtsv(s)),
          ('frompickle', 'p', lambda s: etl.frompickle(s)),
          ('fromtext', 'txt', lambda s: etl.fromtext(s)), ('fromtext(strip=False)', 'txt', lambda s: etl.fromtext(s, strip=False)),
          ("fromtext(strip='x')", 'txt', lambda s: etl.fromtext(s, strip='x')), ('fromtext(header=, encoding)', 'txt', lambda s: etl.fromtext(s, header=['l'], encoding='utf-8')),
          ("fromtext(strip=False, errors)", 'txt', lambda s: etl.fromtext(s, strip=False, errors='replace')),
          ('fromjson(lines=True)', 'jsonl', lambda s: etl.fromjson(s, lines=True)),
          ('fromcsv |> convert |> select', 'csv', lambda s: etl.select(etl.convert(etl.fromcsv(s), 'f', int), lambda r: r[0] % 2 == 0))]
    for name, ext, mk in ex:
        res = []
        raised = None
        for n in sizes:
            src = CountingSource(os.path.join(tmp, 'x%d%s%s' % (n, '' if ext.startswith('_') else '.', ext)))
            v = mk(src)
            cons = (src.counter[0], src.opens)
            per_k = []
            for k in (1, 5, 40):
                before = src.counter[0]
                try:
                    rows = list(itertools.islice(iter(v), k + 1))
                except Exception as e:          # reported below (-1): reading the first rows of a well-formed file never raises
                    rows = []
                    raised = repr(e)
                per_k.append(src.counter[0] - before)
                if len(rows) != k + 1:
                    per_k.append(-1)
            res.append((cons, per_k))
        chk.count(('extractor', name))
        chk.replayed += 1
        sig = {'op': name.split('(')[0], 'kind': 'extractor'}
        if res[0][0][0] or res[1][0][0]:
            chk.violation(dict(sig, clause='construction'), '%s: constructing the view read %d / %d bytes of the source' % (name, res[0][0][0], res[1][0][0]),
                          {'kind': 'extractor', 'name': name})
        elif res[0][1] != res[1][1] or max(res[1][1]) > 4 * 65536 or -1 in res[1][1]:
            chk.violation(dict(sig, clause='length-dependence'),
                          '%s: bytes read for 1, 5, 40 rows are %r on a %d-row file and %r on a %d-row file (must be equal and within a few buffers)'
                          % (name, res[0][1], sizes[0], res[1][1], sizes[1]) + (' - raised %s' % raised if raised else ''), {'kind': 'extractor', 'name': name})


def check_sequences(chk):
    """multi-pass sequences on caching / pass-through views: a partial pass, then another partial pass that goes a
    little further - the second pass may only pull what it newly needs, independent of the source length."""
    import petl as etl
    views = [('cache()', lambda t: etl.wrap(t).cache()), ('cache(3)', lambda t: etl.wrap(t).cache(3)),
             ('cache() over convert', lambda t: etl.convert(t, 'n', lambda v: v).cache()),
             ('hashjoin(cache)', None), ('wrap', lambda t: etl.wrap(t)), ('progress', lambda t: etl.progress(t, 1000, out=catalogue._Null()))]
    for name, mk in views:
        res = []
        for n in LENGTHS:
            a = probe_a(n)
            v = mk(a) if mk else etl.hashjoin(a, probe_b(50), key='k')
            pulls = []
            for k in (3, 5, 2, 8):
                before = a.datapulls
                list(itertools.islice(iter(v), k + 1))          # header + k rows, then abandon
                pulls.append(a.datapulls - before)
            res.append(pulls)
        chk.count(('sequence', name))
        chk.replayed += 1
        if res[0] != res[1] or max(res[1]) > 12 + SMALL:
            chk.violation({'op': name, 'kind': 'sequence'},
                          '%s: partial passes of 3, 5, 2, 8 rows pulled %r data rows on a %d-row source and %r on a %d-row source '
                          '(must be small and independent of the length)' % (name, res[0], LENGTHS[0], res[1], LENGTHS[1]),
                          {'kind': 'sequence', 'name': name})


# ---- V ---------------------------------------------------------------------------------------------------

def record_traces(n, seed):
    rng = random.Random(seed)
    classes = [['map', 0], ['map', 1], ['filter', 2], ['expand', 2], ['slice', 1, 2]]
    traces = []
    for _ in range(n):
        pipe = [rng.choice(classes) for _ in range(rng.randrange(1, 5))]
        log = []
        cons, after = measure_pipeline(pipe, 3000, rng.randrange(1, 11), rng.randrange(4), log=log)
        evs = ['y' if e[0] == 'yield' else 'p' for e in log if e[0] == 'yield' or (e[0] == 'pull' and e[3] >= 1)]
        traces.append({'pipe': pipe, 'construction': cons, 'events': evs})
    return traces


def validate_traces(chk, traces, seed):
    r, verdicts = common.validate('LazyTrace', traces)
    chk.add_tlc(r, 'LazyTrace')
    for tid, (bad, drift) in sorted(verdicts.items()):
        if not bad and drift:
            chk.add_drift('pipeline %r pulls beyond the exact composed need at event %d (within the small constant)' % (traces[tid - 1]['pipe'], drift))
        if bad:
            t = traces[tid - 1]
            chk.violation({'op': 'pipeline', 'kind': 'trace'}, 'recorded pull/yield trace of pipeline %r rejected by LazyTrace at event %d: %s'
                          % (t['pipe'], bad, ''.join(t['events'])), {'kind': 'trace', 'seed': seed, 'trace': t})
    chk.validated += len(traces)
    chk.sample({'kind': 'pull-trace', 'pipe': traces[0]['pipe'], 'events': ''.join(traces[0]['events'])})
    bad = json.loads(json.dumps([traces[0]]))
    bad[0]['events'] = ['p'] * 5000 + bad[0]['events']        # a full scan before the first row
    r2, v2 = common.validate('LazyTrace', bad, name='LazyTraceBad')
    ok = v2[1][0] != 0
    chk.binding_demo = {'corrupted': '5000 extra pulls before the first yield', 'verdict': list(v2[1]), 'rejected_as_expected': ok}
    if not ok and not chk.violations:
        raise tlc.MachineryError('binding demo failed: eager trace accepted')


def run(tier, seed):
    chk = Check(PID, tier, seed)
    full = tier == 'thorough'
    r = tlc.require_ok(tlc.run('Lazy', cfg='LazyMC', timeout=900), 'Lazy')
    chk.add_tlc(r, 'Lazy', 'LazyMC')
    cases = common.gen('LazyGen')
    check_catalogue(chk)
    check_pipelines(chk, cases, full)
    check_consumers(chk)
    check_sequences(chk)
    with common.private_tmp() as tmp:
        check_extractors(chk, tmp)
    traces = record_traces(2000 if full else 300, seed)
    validate_traces(chk, traces, seed)
    chk.exhaustive = True
    chk.assumptions = ['blocking operators (sort-backed, tail, transpose, recast, pivot, crossjoin, flatten) are outside the statement',
                       'hash joins / hash set operations: the law applies to the streamed (probe) side; the build side is read at iter()',
                       'sampling operators are run with an explicit small sample size']
    return chk.finish(rule='G(a): 100 streaming catalogue operators x 2 source lengths x k=1..6; G(b): 155 TLC-generated compositions '
                           '(depth <= 3) instantiated with real operators x 2 lengths x k=1..6 against the TLC-computed need; consumers '
                           'look/head/islice/repr; V: random pipelines (depth <= 4) validated by LazyTrace')


def replay(path):
    with open(path) as f:
        rp = json.load(f)['replay']
    chk = Check(PID, 'quick', 0)
    if rp['kind'] == 'pipe':
        print([measure_pipeline(rp['pipe'], n, 6, rp['variant']) for n in LENGTHS])
    elif rp['kind'] == 'entry':
        print([measure_entry(catalogue.by_name()[rp['name']], n) for n in LENGTHS])
    return 0
