"""C01 - table views are re-iterable and their iterators are mutually independent.

TLC:  Iterators  - the allowed behaviour (each iterator delivers a prefix of the solo pass);
      CacheView, SortCache, DictsSpill, RandomSrc - implementation-shaped models of the views that share state
      between iterators, all interleavings of iter/next/drop for 2-3 iterators: Independent, CacheSound, NoCrash.
      The models of the code as found ("orig"/"global" variants) are sensitivity runs: TLC must produce the
      F1 / F2 / F6 counterexamples, and those counterexample schedules are replayed on the real views.
G:    every schedule of 2 iterators (and sampled schedules of 3) generated from Iterators.tla is replayed on
      the real stateful views, and a rotating subset on every catalogue view + file/db extract views; each next()
      is compared with the solo pass, remaining iterators are drained, and a fresh pass must equal the solo pass.
V:    random longer schedules (<= 4 iterators, larger tables) on random views, validated by IteratorsTrace.
"""
import gc
import itertools
import json
import os
import random
import sqlite3

from harness import tlc, common, catalogue
from harness.core import Check

PID = 'C01'


def norm(x):
    if isinstance(x, (list, tuple)):
        return repr(tuple(x))
    return repr(x)


# ---- views -------------------------------------------------------------------------------------------

def stateful_views(tmp):
    """(name, factory) - factory() builds a NEW identical view (fresh sources where they are one-shot)."""
    import petl as etl
    a = catalogue.atable(4)
    b = catalogue.btable(3)

    def gen_dicts(n):
        return ({'k': i, 'v': 'r%d' % i} for i in range(1, n + 1))
    V = [
        ('cache', lambda: etl.wrap(a).cache()),
        ('cache(n=2)', lambda: etl.wrap(a).cache(2)),
        ('cache(n=3)', lambda: etl.wrap(a).cache(3)),
        ('cache(n=5)', lambda: etl.wrap(a).cache(5)),
        ('sort(mem)', lambda: etl.sort(a, 'k')),
        ('sort(file)', lambda: etl.sort(a, 'k', buffersize=2, tempdir=tmp)),
        ('sort(file,reverse)', lambda: etl.sort(a, 'k', buffersize=1, reverse=True, tempdir=tmp)),
        ('sort(mem,nocache)', lambda: etl.sort(a, 'k', cache=False)),
        ('sort(file,key=n,reverse)', lambda: etl.sort(a, 'n', reverse=True, buffersize=2, tempdir=tmp)),
        ('sort(mem,key=(s,k))', lambda: etl.sort(a, ('s', 'k'))),
        ('sort(file,key=s,reverse)', lambda: etl.sort(a, 's', reverse=True, buffersize=1, tempdir=tmp)),
        ('sort(file,nocache)', lambda: etl.sort(a, 'k', buffersize=2, cache=False, tempdir=tmp)),
        ('hashjoin', lambda: etl.hashjoin(a, b, key='k')),
        ('hashjoin(nocache)', lambda: etl.hashjoin(a, b, key='k', cache=False)),
        ('hashleftjoin', lambda: etl.hashleftjoin(a, b, key='k')),
        ('hashrightjoin', lambda: etl.hashrightjoin(a, b, key='k')),
        ('join(file)', lambda: etl.join(a, b, key='k', buffersize=1, tempdir=tmp)),
        ('mergesort', lambda: etl.mergesort(etl.cut(a, 'k', 'n'), etl.cut(b, 'k'), key='k', buffersize=2, tempdir=tmp)),
        ('fromdicts(generator)', lambda: etl.fromdicts(gen_dicts(3))),
        ('fromdicts(generator,sample=1)', lambda: etl.fromdicts(gen_dicts(3), sample=1)),
        ('fromdicts(generator,header)', lambda: etl.fromdicts(gen_dicts(3), header=['k', 'v'])),
        # compositions: shared state several layers down
        ('cache(sort(join))', lambda: etl.wrap(etl.sort(etl.join(a, b, key='k', buffersize=2, tempdir=tmp), 'n', buffersize=2, tempdir=tmp)).cache()),
        ('aggregate(hashjoin)', lambda: etl.aggregate(etl.hashjoin(a, b, key='k'), 'k', len, buffersize=1, tempdir=tmp)),
        ('select(sort(cache))', lambda: etl.select(etl.sort(etl.wrap(a).cache(2), 'n', reverse=True), lambda r: True)),
        ('sort(fromdicts(generator))', lambda: etl.sort(etl.fromdicts(gen_dicts(3)), 'k', buffersize=2, tempdir=tmp)),
        ('mergesort(presorted,missing)', lambda: etl.mergesort(etl.sort(etl.cut(a, 'k', 'n'), 'k'), etl.sort(etl.cut(b, 'k'), 'k'), key='k', presorted=True, missing='M')),
        ('mergesort(missing,header)', lambda: etl.mergesort(etl.cut(a, 'k', 'n'), etl.cut(b, 'k'), key='k', missing='M', header=['n', 'k', 'z'])),
        ('hashjoin(prefixes)', lambda: etl.hashjoin(a, b, key='k', lprefix='l_', rprefix='r_')),
        ('hashleftjoin(rprefix)', lambda: etl.hashleftjoin(a, b, key='k', rprefix='r_')),
        ('hashrightjoin(lprefix)', lambda: etl.hashrightjoin(a, b, key='k', lprefix='l_')),
        ('join(prefixes)', lambda: etl.join(a, b, key='k', lprefix='l_', rprefix='r_')),
        ('mergeduplicates(key=list)', lambda: etl.mergeduplicates(etl.cut(a, 'k', 's', 'n'), key=['k', 's'])),
        ('mergeduplicates(key=list, rows to merge)', lambda: etl.mergeduplicates([['k', 'j', 'v', 'w'], [1, 1, 'a', None], [1, 1, None, 'b'], [2, 1, 'c', 'd']], key=['k', 'j'])),
        ('merge(key=list)', lambda: etl.merge([['k', 'j', 'v', 'w'], [1, 1, 'a', None], [2, 1, 'c', 'd']], [['k', 'j', 'v', 'w'], [1, 1, None, 'b']], key=['k', 'j'])),
        ('aggregate(key=list)', lambda: etl.aggregate(a, ['k'], len)),
        ('distinct(key=list)', lambda: etl.distinct(a, key=['k'])),
        ('randomtable', lambda: etl.randomtable(2, 3, seed=42)),
        ('randomtable(seed=0)', lambda: etl.randomtable(2, 3, seed=0)),
        ("randomtable(seed='')", lambda: etl.randomtable(2, 3, seed='')),
        ('dummytable', lambda: etl.dummytable(3, seed=42)),
    ]
    return V


def io_views(tmp):
    import petl as etl
    a = [['k', 's'], [1, 'a'], [2, 'b'], [3, 'c']]
    p = lambda n: os.path.join(tmp, n)
    etl.tocsv(a, p('t.csv'))
    etl.totsv(a, p('t.tsv'))
    etl.topickle(a, p('t.p'))
    etl.tojson(a, p('t.json'))
    etl.tojson(a, p('t.jsonl'), lines=True)
    with open(p('t2.json'), 'w') as f:
        json.dump([{'k': 1}, {'k': 2, 's': 'b'}, {'k': 3, 's': 'c', 'z': 0}], f)
    etl.totext(a, p('t.txt'), template='{k} {s}\n')
    etl.tocsv(a, p('t.csv.gz'))
    _mem_sources()
    con = sqlite3.connect(p('t.db'))
    con.execute('create table t (k integer, s text)')
    con.executemany('insert into t values (?, ?)', a[1:])
    con.commit()
    con.close()
    with open(p('t.xml'), 'w') as f:
        f.write('<t><r><k>1</k><s>a</s></r><r><k>2</k><s>b</s></r></t>')
    with open(p('t.html'), 'w') as f:
        pass
    V = [
        ('fromcsv', lambda: etl.fromcsv(p('t.csv'))),
        ('fromcsv(gz)', lambda: etl.fromcsv(p('t.csv.gz'))),
        ('fromtsv', lambda: etl.fromtsv(p('t.tsv'))),
        ('frompickle', lambda: etl.frompickle(p('t.p'))),
        ('fromjson', lambda: etl.fromjson(p('t.json'))),
        ('fromjson(sample=1, late keys)', lambda: etl.fromjson(p('t2.json'), sample=1)),
        ('fromjson(sample=2, late keys)', lambda: etl.fromjson(p('t2.json'), sample=2)),
        ('fromjson(header=)', lambda: etl.fromjson(p('t2.json'), header=['z', 'k'])),
        ('fromjson(lines)', lambda: etl.fromjson(p('t.jsonl'), lines=True)),
        ('fromtext', lambda: etl.fromtext(p('t.txt'))),
        ('fromdb', lambda: etl.fromdb(lambda: sqlite3.connect(p('t.db')).cursor(), 'select * from t')),
        ('fromdb(connection)', lambda: etl.fromdb(sqlite3.connect(p('t.db')), 'select * from t')),
        ('fromxml', lambda: etl.fromxml(p('t.xml'), 'r', {'k': 'k', 's': 's'})),
        ('fromcolumns', lambda: etl.fromcolumns([[1, 2, 3], ['a', 'b', 'c']], header=['k', 's'])),
        ('fromdicts(list)', lambda: etl.fromdicts([{'k': 1, 's': 'a'}, {'k': 2, 's': 'b'}])),
        ('empty', lambda: etl.empty()),
        ('memorysource csv', lambda: etl.fromcsv(etl.MemorySource(b'k,s\n1,a\n2,b\n'))),
        ('memorysource csv (40 KB)', lambda: etl.fromcsv(_BIGCSV)),
        ('memorysource pickle', lambda: etl.frompickle(_MEMPICKLE)),
        ('memorysource json lines', lambda: etl.fromjson(_MEMJSONL, lines=True)),
    ]
    return V


def _mem_sources():
    import petl as etl
    global _BIGCSV, _MEMPICKLE, _MEMJSONL
    big = [['k', 's']] + [[i, 'x' * 40] for i in range(900)]
    m = etl.MemorySource()
    etl.tocsv(big, m)
    _BIGCSV = etl.MemorySource(m.getvalue())          # ONE MemorySource object shared by all iterators of the view
    m = etl.MemorySource()
    etl.topickle([['k', 's'], [1, 'a'], [2, 'b'], [3, 'c']], m)
    _MEMPICKLE = etl.MemorySource(m.getvalue())
    m = etl.MemorySource()
    etl.tojson([['k', 's'], [1, 'a'], [2, 'b'], [3, 'c']], m, lines=True)
    _MEMJSONL = etl.MemorySource(m.getvalue())


_BIGCSV = _MEMPICKLE = _MEMJSONL = None


def catalogue_views():
    a = catalogue.atable(5)
    b = catalogue.btable(3)
    return [(e['name'], (lambda e: lambda: e['fn'](a, b))(e)) for e in catalogue.entries()]


# ---- schedule replay ---------------------------------------------------------------------------------

def replay_schedule(mk, sched, solo=None, record=None):
    """Drive the schedule on a fresh view. Returns violation message or None. `record`, if a list, receives
    the events <<i, a, res>> for trace validation."""
    if solo is None:
        solo = [norm(r) for r in mk()]
    view = mk()
    its, pos = {}, {}
    msg = None

    def step_next(i):
        try:
            got = next(its[i])
        except StopIteration:
            res = 0
            ok = pos[i] == len(solo)
            why = 'StopIteration after %d of %d items' % (pos[i], len(solo))
        except Exception as e:
            res, ok, why = -1, False, 'raised %r' % (e,)
        else:
            g = norm(got)
            if pos[i] < len(solo) and g == solo[pos[i]]:
                res, ok, why = pos[i] + 1, True, ''
                pos[i] += 1
            else:
                res, ok = -1, False
                why = 'delivered %s, solo pass has %s at position %d' % (g, solo[pos[i]] if pos[i] < len(solo) else '<end>', pos[i] + 1)
        if record is not None:
            record.append([i, 'next', res])
        if res == 0 or res == -1:
            its.pop(i, None)
        return None if ok else why

    for n, (i, a) in enumerate(sched):
        if a == 'iter':
            its[i] = iter(view)
            pos[i] = 0
            if record is not None:
                record.append([i, 'iter', 0])
        elif a == 'drop':
            if i in its and record is not None:
                record.append([i, 'drop', 0])     # only a live iterator can be dropped
            its.pop(i, None)
        elif i in its:
            why = step_next(i)
            if why and msg is None:
                msg = 'step %d: next(it%d) %s' % (n + 1, i, why)
    # drain the survivors round-robin
    guard = 0
    while its and guard < 10000:
        for i in sorted(its):
            guard += 1
            why = step_next(i)
            if why and msg is None:
                msg = 'drain: next(it%d) %s' % (i, why)
    if msg is None:
        try:
            fresh = [norm(r) for r in view]
        except Exception as e:
            msg = 'fresh pass after the schedule raised %r' % (e,)
        else:
            if fresh != solo:
                msg = 'fresh pass after the schedule delivers %r, solo pass %r' % (fresh, solo)
    del view
    return msg


def concurrency(sched):
    """'interleave' if at some point two iterators are alive at once, else 'sequential'."""
    live, mx = set(), 0
    for i, a in sched:
        if a == 'iter':
            live.add(i)
        elif a == 'drop':
            live.discard(i)
        mx = max(mx, len(live))
    return 'interleave' if mx >= 2 else 'sequential'


def _views_of(group, tmp):
    if group in ('stateful', 'edge-cover'):
        return dict(stateful_views(tmp))
    if group == 'io':
        return dict(io_views(tmp))
    return dict(catalogue_views())


def _view_job(j):
    """All schedules of one view, in a worker with its own temp directory; returns ('machinery', msg) or a list of
    (schedule, message) for the failing schedules."""
    group, name, scheds = j
    with common.private_tmp() as tmp:
        mk = _views_of(group, tmp)[name]
        try:
            solo = [norm(r) for r in mk()]
            solo2 = [norm(r) for r in mk()]
        except Exception as e:
            return ('machinery', 'cannot build view %s: %r' % (name, e))
        if solo != solo2:
            # two fresh views disagree: if already two passes of ONE view disagree this is the property itself
            v = mk()
            p1 = [norm(r) for r in v]
            p2 = [norm(r) for r in v]
            if p1 != p2:
                return ('unrepeatable', '%s: two consecutive full passes of the same view differ: %r / %r' % (name, p1[:6], p2[:6]))
            return ('machinery', 'view factory %s is not deterministic' % name)
        bad = []
        for sched in scheds:
            msg = replay_schedule(mk, sched, solo)
            if msg:
                bad.append((sched, msg))
        gc.collect()
        return ('ok', bad)


def check_views(chk, views, schedules, per_view, rng, label):
    jobs = []
    for name, _mk in views:
        scheds = schedules if per_view is None or per_view >= len(schedules) else rng.sample(schedules, per_view)
        jobs.append((label, name, scheds))
    for (_g, name, scheds), (status, res) in zip(jobs, common.pmap(_view_job, jobs, chunksize=1, min_items=4)):
        if status == 'machinery':
            raise tlc.MachineryError(res)
        if status == 'unrepeatable':
            chk.violation({'op': name, 'kind': 'sequential'}, res,
                          {'kind': 'schedule', 'view': name, 'group': label, 'schedule': [[1, 'iter'], [1, 'next'], [1, 'drop'], [2, 'iter'], [2, 'next']]})
            continue
        for sched in scheds:
            chk.count((label, name, json.dumps(sched)))
            chk.replayed += 1
        for nbad, (sched, msg) in enumerate(res, 1):
            if nbad <= 3:
                chk.violation({'op': name, 'kind': concurrency(sched)},
                              '%s schedule=%r: %s' % (name, sched, msg),
                              {'kind': 'schedule', 'view': name, 'group': label, 'schedule': sched})
            else:
                chk.violation({'op': name, 'kind': concurrency(sched)}, '%s: further failing schedule' % name,
                              {'kind': 'schedule', 'view': name, 'group': label, 'schedule': sched})


def scale_views(tmp, n):
    """The stateful views and the whole catalogue over sources of n rows (beyond CPython's small-int cache, beyond one
    chunk / sample / batch of every default)."""
    import petl as etl
    a, b = catalogue.atable(n), catalogue.btable(n)

    def gen_dicts():
        return ({'k': i, 'v': 'r%d' % i} for i in range(1, n + 1))
    V = [('cache', lambda: etl.wrap(a).cache()), ('cache(n=%d)' % (n - 20), lambda: etl.wrap(a).cache(n - 20)),
         ('cache(n=%d)' % (n + 20), lambda: etl.wrap(a).cache(n + 20)),
         ('sort(mem)', lambda: etl.sort(a, 'k')), ('sort(file)', lambda: etl.sort(a, 'k', buffersize=7, tempdir=tmp)),
         ('sort(file,reverse)', lambda: etl.sort(a, 'n', reverse=True, buffersize=2, tempdir=tmp)),
         ('fromdicts(generator)', lambda: etl.fromdicts(gen_dicts())), ('fromdicts(generator,sample=5)', lambda: etl.fromdicts(gen_dicts(), sample=5)),
         ('randomtable', lambda: etl.randomtable(3, n, seed=7)), ('hashjoin', lambda: etl.hashjoin(a, b, key='k')),
         ('cache(sort(file))', lambda: etl.wrap(etl.sort(a, 'k', buffersize=50, tempdir=tmp)).cache())]
    V += [(e['name'], (lambda e: lambda: e['fn'](a, b))(e)) for e in catalogue.entries() if 'crossjoin' not in e['name']]
    return V


def _scale_job(j):
    name, n = j
    with common.private_tmp() as tmp:
        mk = dict(scale_views(tmp, n))[name]
        return _scale_one(name, mk, n)


def _scale_one(name, mk, n):
    """Returns ('machinery', msg) / ('ok', violation message or None)."""
    if True:
        try:
            solo = [norm(r) for r in mk()]
        except Exception as e:
            return ('machinery', 'cannot build large view %s: %r' % (name, e))
        msg = None
        try:
            v = mk()
            p1 = [norm(r) for r in v]
            p2 = [norm(r) for r in v]
            if p1 != solo or p2 != solo:
                w = p1 if p1 != solo else p2
                d = next((i for i in range(min(len(w), len(solo))) if w[i] != solo[i]), min(len(w), len(solo)))
                msg = 'pass %d of the same view delivers %d items, a fresh view %d; first difference at item %d' % (
                    1 if p1 != solo else 2, len(w), len(solo), d)
            if msg is None:
                for k in (1, 258, len(solo) - 1):
                    v = mk()
                    it = iter(v)
                    part = [norm(r) for r in itertools.islice(it, k)]
                    del it
                    fullp = [norm(r) for r in v]
                    if part != solo[:k] or fullp != solo:
                        msg = 'after a partial pass of %d items the next full pass delivers %d items (fresh view: %d)' % (k, len(fullp), len(solo))
                        break
            if msg is None:
                v = mk()
                i1, i2 = iter(v), iter(v)
                lead = [norm(r) for r in itertools.islice(i1, 259)]
                both = []
                for x, y in zip(i1, i2):
                    both.append((norm(x), norm(y)))
                rest2 = [norm(r) for r in i2]
                got1 = lead + [x for x, _ in both]
                got2 = [y for _, y in both] + rest2
                # second pattern: the trailing iterator has already delivered 50 items when the leader runs 200 ahead
                if msg is None and 'dummytable' not in name:
                    v = mk()
                    j1, j2 = iter(v), iter(v)
                    t_first = [norm(r) for r in itertools.islice(j2, 50)]
                    l_first = [norm(r) for r in itertools.islice(j1, 250)]
                    t_rest, l_rest = [], []
                    for x, y in zip(j1, j2):
                        l_rest.append(norm(x))
                        t_rest.append(norm(y))
                    t_rest += [norm(r) for r in j2]
                    if (l_first + l_rest) != solo[:len(l_first) + len(l_rest)] or (t_first + t_rest) != solo:
                        msg = ('trailing iterator 50 items in, leader 250 items in, then in turn: leader delivered %d items, trailing one %d, solo %d; '
                               'first difference of the trailing one at item %s' % (len(l_first) + len(l_rest), len(t_first) + len(t_rest), len(solo),
                                                                                    next((i for i, (g, w) in enumerate(zip(t_first + t_rest, solo)) if g != w), 'n/a')))
                if name.startswith('dummytable') or 'dummytable' in name:
                    pass
                elif msg is None and (got1 != solo[:len(got1)] or got2 != solo):
                    msg = 'two iterators 259 items apart: the leading one delivered %d items, the trailing one %d, solo %d%s' % (
                        len(got1), len(got2), len(solo), '' if got2 == solo else '; trailing iterator differs from the solo pass')
        except Exception as e:
            msg = 'raised %r' % (e,)
        gc.collect()
        return ('ok', msg)


def check_scale(chk, tmp, full):
    """Sequential histories on LARGE views: full, full; partial (k rows), full; two iterators one of which runs
    ahead by a fixed lag - every pass compared with the pass of a fresh view."""
    n = 600 if full else 300
    names = [nm for nm, _mk in scale_views(tmp, n)]
    for name, (status, msg) in zip(names, common.pmap(_scale_job, [(nm, n) for nm in names], chunksize=2)):
        if status == 'machinery':
            raise tlc.MachineryError(msg)
        chk.count(('scale', name))
        chk.replayed += 1
        if msg:
            chk.violation({'op': name, 'kind': 'scale'}, '%s over %d-row sources: %s' % (name, n, msg), {'kind': 'scale', 'view': name, 'n': n})


# ---- TLC ----------------------------------------------------------------------------------------------

MODELS = [
    # module, passing configs, (failing config of the code as found, real view(s) to replay the counterexample on)
    ('CacheView', ['CacheView_fixed_0', 'CacheView_fixed_2'], ('CacheView_orig_0', ['cache'])),
    ('SortCache', ['SortCache_fixed_mem', 'SortCache_fixed_file'], ('SortCache_orig_mem', ['sort(mem)', 'sort(file)'])),
    ('DictsSpill', ['DictsSpill_1', 'DictsSpill_5'], None),
    ('RandomSrc', ['RandomSrc_private'], ('RandomSrc_global', ['randomtable', 'dummytable'])),
]


def schedule_from_trace(trace):
    sched = []
    for s in trace[1:]:
        a = s['_action']
        name, _, arg = a.partition('(')
        i = int(arg.rstrip(')')) if arg else 1
        if name == 'Iter':
            sched.append([i, 'iter'])
        elif name == 'Drop':
            sched.append([i, 'drop'])
        else:
            sched.append([i, 'next'])
    return sched


def model_checks(chk):
    cex = []
    r = tlc.require_ok(tlc.run('Iterators', cfg='IteratorsMC', timeout=600), 'Iterators')
    chk.add_tlc(r, 'Iterators', 'IteratorsMC')
    for module, good, orig in MODELS:
        for cfg in good:
            r = tlc.require_ok(tlc.run(module, cfg=cfg, timeout=900), module + '/' + cfg)
            if r.distinct < 50:
                raise tlc.MachineryError('%s/%s explored only %d states' % (module, cfg, r.distinct))
            chk.add_tlc(r, module, cfg)
        if orig:
            r = tlc.run(module, cfg=orig[0], timeout=600)
            if r.error:
                raise tlc.MachineryError('%s/%s: %s' % (module, orig[0], r.error))
            if not r.violated:
                raise tlc.MachineryError('%s/%s (model of the code as found) passed: spec lost its sensitivity' % (module, orig[0]))
            sched = schedule_from_trace(r.trace)
            chk.note('sensitivity: %s/%s violates %s; counterexample schedule %r' % (module, orig[0], r.violated, sched))
            cex.append((orig[1], sched))
    return cex


def unbounded_proofs(chk):
    """CacheView for EVERY inner length M and every limit n (3 iterators): TLC shows that the sequence-level model
    implements the integer abstraction CacheViewInt, Apalache proves the abstraction's inductive invariant."""
    from harness import apalache
    for L in (0, 2, 3):
        r = tlc.require_ok(tlc.run('CacheViewRef', cfg='CacheViewRef_%d' % L, timeout=900), 'CacheViewRef_%d' % L)
        chk.add_tlc(r, 'CacheViewRef', 'CacheViewRef_%d' % L)
    for P in ('mem', 'file'):
        for C in ('TRUE', 'FALSE'):
            cfg = 'SortCacheRef_%s_%s' % (P, C)
            r = tlc.require_ok(tlc.run('SortCacheRef', cfg=cfg, timeout=900), cfg)
            chk.add_tlc(r, 'SortCacheRef', cfg)
    from concurrent.futures import ThreadPoolExecutor
    for S in (1, 5):
        r = tlc.require_ok(tlc.run('DictsSpillRef', cfg='DictsSpillRef_%d' % S, timeout=900), 'DictsSpillRef_%d' % S)
        chk.add_tlc(r, 'DictsSpillRef', 'DictsSpillRef_%d' % S)
    jobs = [('DictsSpillInt', [("/\\ buffered' = Min(Sample, NRows)", "/\\ buffered' = 0")]),       # sampled rows not chained back
            ('CacheViewInt', [('Variant = "fixed"', 'Variant = "orig"')]),
            ('SortCacheInt', [('CacheFlag \\in BOOLEAN /\\ Variant = "fixed"', 'CacheFlag \\in BOOLEAN /\\ Variant = "orig"')])]
    with ThreadPoolExecutor(max_workers=3) as ex:
        list(ex.map(lambda j: apalache.inductive(chk, j[0], negative=j[1]), jobs))


COVER = [
    # implementation-shaped model -> real views driven through EVERY transition of its state graph
    ('CacheView', 'CacheView_fixed_0', ['cache']),
    ('CacheView', 'CacheView_fixed_3', ['cache(n=3)']),
    ('SortCache', 'SortCache_fixed_mem', ['sort(mem)', 'sort(mem,key=(s,k))']),
    ('SortCache', 'SortCache_fixed_file', ['sort(file)', 'sort(file,key=n,reverse)', 'sort(file,key=s,reverse)']),
    ('DictsSpill', 'DictsSpill_1', ['fromdicts(generator,sample=1)']),
    ('DictsSpill', 'DictsSpill_5', ['fromdicts(generator)']),
    ('RandomSrc', 'RandomSrc_private', ['randomtable']),
]


def edge_cover_schedules(chk):
    from harness import graph
    out = []
    for module, cfg, views in COVER:
        cover, r = graph.edge_cover(module, cfg)
        chk.note('edge cover of %s/%s: %d transitions -> %d schedules' % (module, cfg, r.generated, len(cover)))
        out.append((views, [graph.to_schedule(p) for p in cover]))
    return out


def gen_schedules(seed, full):
    r = tlc.run('Iterators', cfg='IteratorsGen2', timeout=900, workers=1, coverage=False)
    if r.error or r.violated:
        raise tlc.MachineryError('IteratorsGen2: %s' % (r.error or r.violated))
    s2 = [json.loads(json.loads(l)) for l in r.prints if l.startswith('"[')]
    r3 = tlc.run('Iterators', cfg='IteratorsGen3', timeout=900, workers=1, coverage=False,
                 sim='num=%d' % (3000 if full else 400), seed=seed + 1)
    if r3.error or r3.violated:
        raise tlc.MachineryError('IteratorsGen3: %s' % (r3.error or r3.violated))
    s3 = [json.loads(json.loads(l)) for l in r3.prints if l.startswith('"[')]
    s3 = [list(x) for x in sorted(set(tuple(map(tuple, s)) for s in s3))]
    if len(s2) < 500 or len(s3) < 50:
        raise tlc.MachineryError('too few schedules generated: %d / %d' % (len(s2), len(s3)))
    return s2, s3


# ---- V --------------------------------------------------------------------------------------------------

def record_traces(n, seed, tmp):
    rng = random.Random(seed)
    a = catalogue.atable(12)
    b = catalogue.btable(7)
    views = [(e['name'], (lambda e: lambda: e['fn'](a, b))(e)) for e in catalogue.entries()] + stateful_views(tmp)
    traces, meta = [], []
    for _ in range(n):
        name, mk = rng.choice(views)
        solo = [norm(r) for r in mk()]
        k = rng.randrange(2, 5)
        sched, born, live = [], 0, []
        for _s in range(rng.randrange(5, 40)):
            c = rng.random()
            if born < k and (c < 0.2 or not live):
                born += 1
                live.append(born)
                sched.append([born, 'iter'])
            elif live and c < 0.9:
                sched.append([rng.choice(live), 'next'])
            elif live:
                i = rng.choice(live)
                live.remove(i)
                sched.append([i, 'drop'])
        rec = []
        replay_schedule(mk, sched, solo, record=rec)
        traces.append({'m': len(solo), 'events': rec})
        meta.append({'view': name, 'schedule': sched})
    return traces, meta


def validate_traces(chk, traces, meta, seed):
    r, verdicts = common.validate('IteratorsTrace', traces)
    chk.add_tlc(r, 'IteratorsTrace')
    for tid, (bad,) in sorted(verdicts.items()):
        if bad:
            m = meta[tid - 1]
            chk.violation({'op': m['view'], 'kind': concurrency(m['schedule'])},
                          'recorded schedule on %s rejected by IteratorsTrace at event %d (%r)'
                          % (m['view'], bad, traces[tid - 1]['events'][bad - 1]),
                          {'kind': 'trace', 'seed': seed, 'view': m['view'], 'schedule': m['schedule']})
    chk.validated += len(traces)
    chk.sample({'kind': 'trace', 'view': meta[0]['view'], 'events': traces[0]['events'][:12]})
    cand = [i for i, t in enumerate(traces) if sum(1 for e in t['events'] if e[1] == 'next' and e[2] > 1) >= 1]
    if cand:
        bad = json.loads(json.dumps([traces[cand[0]]]))
        for e in bad[0]['events']:
            if e[1] == 'next' and e[2] > 1:
                e[2] -= 1       # the iterator delivered the previous item again
                break
        r2, v2 = common.validate('IteratorsTrace', bad, name='IteratorsTraceBad')
        ok = v2[1][0] != 0
        chk.binding_demo = {'corrupted': 'one next event re-delivers the previous item', 'verdict': list(v2[1]), 'rejected_as_expected': ok}
        if not ok and not chk.violations:
            raise tlc.MachineryError('binding demo failed: corrupted iterator trace accepted')


def run(tier, seed):
    chk = Check(PID, tier, seed)
    full = tier == 'thorough'
    rng = random.Random(seed)
    cex = model_checks(chk)
    unbounded_proofs(chk)
    s2, s3 = gen_schedules(seed, full)
    with common.private_tmp() as tmp:
        sv = stateful_views(tmp)
        byname = dict(sv)
        # counterexample schedules of the as-found models, on the corresponding real views
        for names, sched in cex:
            for nme in names:
                msg = replay_schedule(byname[nme], sched)
                chk.count(('cex', nme))
                chk.replayed += 1
                if msg:
                    chk.violation({'op': nme, 'kind': concurrency(sched)}, '%s schedule=%r (TLC counterexample of the as-found model): %s' % (nme, sched, msg),
                                  {'kind': 'schedule', 'view': nme, 'group': 'stateful', 'schedule': sched})
        check_views(chk, sv, s2 + s3, None, rng, 'stateful')
        for names, scheds in edge_cover_schedules(chk):
            check_views(chk, [(n, byname[n]) for n in names], scheds, None if full else 2500, rng, 'edge-cover')
        check_views(chk, io_views(tmp), s2 + s3, None if full else 60, rng, 'io')
        check_views(chk, catalogue_views(), s2 + s3, None if full else 40, rng, 'catalogue')
        check_scale(chk, tmp, full)
        traces, meta = record_traces(1500 if full else 250, seed, tmp)
        validate_traces(chk, traces, meta, seed)
    chk.sample({'kind': 'schedule', 'schedule': s2[len(s2) // 2]})
    chk.exhaustive = full
    chk.assumptions = ['CPython, single thread; generator bodies start at the first next()',
                       'tee* views excluded as the property states; optional-dependency views (xlsx, avro, numpy, ...) not installed']
    return chk.finish(rule='G: all 2-iterator schedules (M=3) + sampled 3-iterator schedules from Iterators.tla on 20 stateful views '
                           '(all), 14 extract views and 140 catalogue views (rotating subset in quick), each followed by a drain and a '
                           'fresh pass; TLC counterexample schedules of the as-found models replayed on the real views; '
                           'V: random schedules (<= 4 iterators) validated by IteratorsTrace')


def replay(path):
    with open(path) as f:
        rp = json.load(f)['replay']
    if rp.get('kind') == 'scale':
        chk = Check(PID, 'quick', 0)
        with common.private_tmp() as tmp:
            check_scale(chk, tmp, rp.get('n', 300) > 300)
        bad = [v for v in chk.violations if v['sig'].get('op') == rp['view']]
        print('violated' if bad else 'holds')
        return 1 if bad else 0
    with common.private_tmp() as tmp:
        views = dict(stateful_views(tmp) + io_views(tmp) + catalogue_views())
        msg = replay_schedule(views[rp['view']], rp['schedule'])
    print(msg or 'holds')
    return 1 if msg else 0
