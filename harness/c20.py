"""C20 - tables with a header and no data rows are handled by every operator.

TLC:  ZeroRows  - lemmas: what the definition modules (RelJoin, SetDefs, DedupDefs, GroupDefs) give when an input has
                  no rows, for all small partners; the algorithm models MergeJoin, HashJoin, SetOps, Dedup, GroupBy,
                  ExtSort are run on their zero/one-row instances (NoCrash, result = definition).
G:    the whole operator catalogue (140 view constructors) plus scalar accessors is run with a header-only table in
      every input position (alone, left, right, both): must not raise on construction, full iteration and a second pass,
      must deliver its usual header, and the number of rows the definitions prescribe (TLC-emitted table for the binary
      operators; 0 for unary ones, 1 for the documented single-row cases).
"""
import json

from harness import tlc, common, catalogue
from harness.core import Check

PID = 'C20'
Z_MODELS = ['MergeJoin', 'HashJoin', 'SetOps', 'Dedup', 'GroupBy', 'ExtSort']
# header depends on the data (column values become fields): only "does not raise" is checked for the header
DATA_DEPENDENT_HEADER = {'transpose', 'pivot', 'recast', 'recast(samplesize=1)', 'unpackdict(sample)', 'unpackdict(samplesize=1)', 'flatten', 'unflatten', 'facet', 'fromcolumns',
                         'fromdicts(list)'}
NO_HEADER = {'values', 'values(multi)', 'data', 'dicts', 'records', 'namedtuples', 'flatten'}
# addcolumn: the 3 column values still make 3 rows (padded with missing); transpose: the 3 remaining fields become rows
UNARY_ROWS = {'aggregate(key=None)': 1, 'aggregate(key=None,sum)': 1, 'aggregate(key=None,list)': 1, 'pushheader': 1, 'transpose': 3, 'flatten': 0, 'addcolumn': 3, 'addcolumn(index=1)': 3}
# skip(1) skips the header row itself: nothing at all is left of a header-only table, by definition
EMPTY_OK = {'skip'}
COUNT_FREE = {'merge', 'unflatten', 'fromcolumns', 'fromdicts(list)', 'facet'}


RECT = {}


def base_name(n):
    return n.split('(')[0]


def run_position(e, na, nb):
    """Returns (problem or None, header, nrows)."""
    a, b = catalogue.atable(na), catalogue.btable(nb)
    if nb:
        b[1][0] = None          # a None key on the non-empty side (outer joins must still return that row)
    try:
        v = e['fn'](a, b)
        p1 = [r for r in v]
        p2 = [r for r in v]
    except Exception as ex:
        return 'raised %r' % (ex,), None, None
    if repr(p1) != repr(p2):
        return 'second pass differs: %r vs %r' % (p1, p2), None, None
    if e['name'] in NO_HEADER:
        return None, None, len(p1)
    if not p1:
        if e['name'] in EMPTY_OK:
            return None, None, 0
        return 'delivered nothing at all (not even a header)', None, None
    odd = [tuple(r) for r in p1[1:] if len(r) != len(p1[0])]
    if (na, nb) == (3, 3):
        RECT[e['name']] = not odd           # the operator delivers rectangular rows on ordinary input
    elif odd and RECT.get(e['name']) and e['name'] not in DATA_DEPENDENT_HEADER:
        # rows made of the other input's cells and fill values still have the header's width
        return 'data row(s) %r do not have the width of the header %r' % (odd[:2], tuple(p1[0])), None, None
    return None, tuple(p1[0]), len(p1) - 1


def check_catalogue(chk, zero_table):
    import petl as etl
    zt = {(z['op'], z['na'], z['nb']): z['rows'] for z in zero_table}
    for e in catalogue.entries():
        if e['skip_empty']:
            positions = []
        elif e['arity'] == 1:
            positions = [(0, 3)]
        else:
            positions = [(0, 3), (3, 0), (0, 0)]
        ref_prob, ref_hdr, _ = run_position(e, 3, 3)
        if ref_prob:
            raise tlc.MachineryError('catalogue entry %s fails on ordinary input: %s' % (e['name'], ref_prob))
        for na, nb in positions:
            prob, hdr, nrows = run_position(e, na, nb)
            chk.count(('zero', e['name'], na, nb))
            chk.replayed += 1
            pos = 'a' if (na == 0 and nb) else ('b' if (nb == 0 and na) else 'both')
            sig = {'op': e['name'], 'kind': 'header-only', 'pos': pos if e['arity'] == 2 else 'a'}
            what = '%s with header-only input (%d, %d data rows)' % (e['name'], na, nb)
            if prob:
                chk.violation(dict(sig, clause='raises'), '%s: %s' % (what, prob), {'kind': 'zero', 'name': e['name'], 'na': na, 'nb': nb})
                continue
            if e['name'] not in DATA_DEPENDENT_HEADER and e['name'] not in NO_HEADER and e['name'] not in EMPTY_OK and hdr != ref_hdr:
                # binary operators whose header is the union of both inputs keep it as well
                chk.violation(dict(sig, clause='header'), '%s: header %r, usual header %r' % (what, hdr, ref_hdr),
                              {'kind': 'zero', 'name': e['name'], 'na': na, 'nb': nb})
                continue
            if e['name'] in COUNT_FREE:
                continue
            if e['arity'] == 1:
                want = UNARY_ROWS.get(e['name'], 0)
            else:
                want = zt.get((base_name(e['name']), na, nb))
                if want is None:
                    raise tlc.MachineryError('no zero-row expectation for binary operator %s' % e['name'])
            if nrows != want:
                chk.violation(dict(sig, clause='rows'), '%s: %d data rows, the definition gives %d' % (what, nrows, want),
                              {'kind': 'zero', 'name': e['name'], 'na': na, 'nb': nb})
    # exact contents where a header-only input still yields data rows: the rows are entirely made of the other
    # input's cells and of the fill value, for every fill value (None, and non-default ones incl. falsy / string ones)
    A0, B0 = catalogue.atable(0), catalogue.btable(0)
    bt = catalogue.btable(3)
    bt[1][0] = None
    at = catalogue.atable(2)
    brows = [tuple(r) for r in bt[1:]]
    arows = [tuple(r) for r in at[1:]]
    exact = []
    for m in (None, 'NA', 0, False, u'', (None,)):
        kw = {} if m is None else {'missing': m}
        fa, fb = (m,) * len(catalogue.AH), (m,) * len(catalogue.BH)
        exact += [
            ('addcolumn(%r)' % (kw,), lambda kw=kw: etl.addcolumn(A0, 'z', [1, 2, 3], **kw), [fa + (v,) for v in (1, 2, 3)]),
            ('addcolumn(index=0, %r)' % (kw,), lambda kw=kw: etl.addcolumn(A0, 'z', [1, 2], index=0, **kw), [(v,) + fa for v in (1, 2)]),
            ('annex(header-only, b, %r)' % (kw,), lambda kw=kw: etl.annex(A0, bt, **kw), [fa + r for r in brows]),
            ('annex(a, header-only, %r)' % (kw,), lambda kw=kw: etl.annex(at, B0, **kw), [r + fb for r in arows]),
            ('cat(header-only, b, %r)' % (kw,), lambda kw=kw: etl.cat(A0, bt, **kw), [(r[0], m, m, m, r[1]) for r in brows]),
            ('stack(header-only, b, %r)' % (kw,), lambda kw=kw: etl.stack(A0, bt, **kw), [r + (m, m) for r in brows]),
            ('rightjoin(header-only, b, %r)' % (kw,), lambda kw=kw: etl.rightjoin(A0, bt, key='k', **kw),
             [(r[0], m, m, m, r[1]) for r in sorted(brows, key=lambda r: (r[0] is not None, r[0] or 0))]),
            ('outerjoin(a, header-only, %r)' % (kw,), lambda kw=kw: etl.outerjoin(at, B0, key='k', **kw),
             [r + (m,) for r in sorted(arows, key=lambda r: r[0])]),
            ('leftjoin(a, header-only, %r)' % (kw,), lambda kw=kw: etl.leftjoin(at, B0, key='k', **kw),
             [r + (m,) for r in sorted(arows, key=lambda r: r[0])]),
            ('hashrightjoin(header-only, b, %r)' % (kw,), lambda kw=kw: etl.hashrightjoin(A0, bt, key='k', **kw),
             [(r[0], m, m, m, r[1]) for r in brows]),
            ('hashleftjoin(a, header-only, %r)' % (kw,), lambda kw=kw: etl.hashleftjoin(at, B0, key='k', **kw), [r + (m,) for r in arows]),
            ('unflatten(%r)' % (kw,), lambda kw=kw: etl.unflatten([1, 2, 3], 2, **kw), [(1, 2), (3, m)]),
        ]
    for ukw in ({}, {'key': 'k'}, {'autoincrement': (5, 2)}, {'presorted': True}):
        exact += [('unjoin(s, %r)[0]' % (ukw,), lambda ukw=ukw: etl.unjoin(A0, 's', **ukw)[0], []),
                  ('unjoin(s, %r)[1]' % (ukw,), lambda ukw=ukw: etl.unjoin(A0, 's', **ukw)[1], [])]
    exact += [('complement(a, header-only, strict=True)', lambda: etl.complement(etl.cut(at, 'k', 'n'), [['k', 'n']], strict=True), [(1, 20), (2, 10)]),
              ('recordcomplement(a, header-only, strict=True)', lambda: etl.recordcomplement(etl.cut(at, 'k', 'n'), [['n', 'k']], strict=True), [(1, 20), (2, 10)]),
              ('diff(a, header-only, strict=True)[1]', lambda: etl.diff(etl.cut(at, 'k', 'n'), [['k', 'n']], strict=True)[1], [(1, 20), (2, 10)]),
              ('diff(a, header-only, strict=True)[0]', lambda: etl.diff(etl.cut(at, 'k', 'n'), [['k', 'n']], strict=True)[0], []),
              ('crossjoin(a, header-only, b)', lambda: etl.crossjoin(at, B0, bt), []),
              ('crossjoin(a, b, header-only, b)', lambda: etl.crossjoin(at, bt, B0, bt), []),
              ('crossjoin(a, b, b) 3 tables', lambda: etl.crossjoin(etl.cut(at, 'k'), etl.cut(bt, 'm'), etl.cut(at, 'n')),
               [(x[0], y[1], z[2]) for x in arows for y in brows for z in arows])]
    for name, fn, want in exact:
        chk.count(('exact', name))
        chk.replayed += 1
        sig = {'op': name.split('(')[0], 'kind': 'header-only', 'clause': 'contents'}
        try:
            got1 = [tuple(r) for r in fn()][1:]
            v = fn()
            got2 = [tuple(r) for r in v][1:]
            got3 = [tuple(r) for r in v][1:]
        except Exception as ex:
            chk.violation(dict(sig, clause='raises'), '%s raised %r' % (name, ex), {'kind': 'exact', 'name': name})
            continue
        if not (repr(got1) == repr(want) == repr(got2) == repr(got3)):
            chk.violation(sig, '%s delivered data rows %r (second pass %r), the definition gives %r' % (name, got1, got3, want),
                          {'kind': 'exact', 'name': name})
    # scalar accessors / utilities on a header-only table
    t0 = catalogue.atable(0)
    scalars = [('nrows', lambda: etl.nrows(t0), 0), ('header', lambda: tuple(etl.header(t0)), catalogue.AH),
               ('fieldnames', lambda: tuple(etl.fieldnames(t0)), catalogue.AH),
               ('isunique', lambda: etl.isunique(t0, 'k'), True), ('issorted', lambda: etl.issorted(t0, 'k'), True),
               ('issorted(key=None)', lambda: etl.issorted(t0), True),
               ('lookup', lambda: etl.lookup(t0, 'k'), {}), ('lookupone', lambda: etl.lookupone(t0, 'k'), {}),
               ('dictlookup', lambda: etl.dictlookup(t0, 'k'), {}), ('recordlookup', lambda: etl.recordlookup(t0, 'k'), {}),
               ('columns', lambda: dict(etl.columns(t0)), {f: [] for f in catalogue.AH}),
               ('listoflists', lambda: etl.listoflists(t0), [list(catalogue.AH)]),
               ('valuecounter', lambda: dict(etl.valuecounter(t0, 'k')), {}),
               ('valuecount', lambda: etl.valuecount(t0, 'k', 1)[0], 0),
               ('typecounter', lambda: dict(etl.typecounter(t0, 'k')), {}),
               ('rowlengths', lambda: len(list(etl.data(etl.rowlengths(t0)))), 0),
               ('look', lambda: isinstance(str(etl.look(t0)), str), True), ('see', lambda: isinstance(str(etl.see(t0)), str), True),
               ('limits', None, None), ('stats', None, None),
               ('tocsv', lambda: _tocsv(t0), b'k,s,n,t\r\n')]
    for name, fn, want in scalars:
        if fn is None:
            continue
        chk.count(('scalar', name))
        chk.replayed += 1
        try:
            got = fn()
        except Exception as ex:
            chk.violation({'op': name, 'kind': 'header-only', 'clause': 'raises'}, '%s on a header-only table raised %r' % (name, ex),
                          {'kind': 'scalar', 'name': name})
            continue
        if got != want:
            chk.violation({'op': name, 'kind': 'header-only', 'clause': 'value'}, '%s on a header-only table returned %r, definition gives %r' % (name, got, want),
                          {'kind': 'scalar', 'name': name})
    chk.sample({'kind': 'header-only', 'op': 'outerjoin', 'positions': [(0, 3), (3, 0), (0, 0)],
                'rows': [run_position(catalogue.by_name()['outerjoin'], na, nb)[2] for na, nb in [(0, 3), (3, 0), (0, 0)]]})


def _tocsv(t):
    import petl as etl
    m = etl.MemorySource()
    etl.tocsv(t, m)
    return m.getvalue()


def run(tier, seed):
    chk = Check(PID, tier, seed)
    zero_table = common.gen('ZeroRows')
    for mod in Z_MODELS:
        r = tlc.require_ok(tlc.run(mod, cfg=mod + 'Z', timeout=600), mod + 'Z')
        chk.add_tlc(r, mod, mod + 'Z')
    check_catalogue(chk, zero_table)
    chk.exhaustive = True
    chk.assumptions = ['operators whose header is computed from the data (transpose, pivot, recast, unpackdict without keys, facet) '
                       'are only required not to raise and to be re-iterable',
                       'exact rows for joins / set operations with an empty side are compared cell by cell in C06-C08; here the count']
    return chk.finish(rule='140 catalogue view constructors x header-only table in each input position (1 or 3 positions) + 19 '
                           'scalar accessors: no exception, two equal passes, usual header, row count from the TLC-checked '
                           'zero-row definitions')


def replay(path):
    with open(path) as f:
        rp = json.load(f)['replay']
    if rp['kind'] == 'zero':
        print(run_position(catalogue.by_name()[rp['name']], rp['na'], rp['nb']))
    return 0
