"""C05 - sort/mergesort: stable ordered permutation, same under every buffering strategy.

TLC:  ExtSort    - the chunked external sort (read/sort/dump/merge/cache, both merge routines) delivers
                   THE stable order for every table <= MaxRows x buffersize 0..MaxRows+1 x reverse x cache x pass.
G:    SortGen    - every small ragged table x key form with the definition's order, replayed on the real
                   sort() for every buffersize 1..n+1/None x reverse x cache x 2 passes x value profiles; mergesort.
V:    SortTrace  - Hypothesis tables (<= 40 rows, mixed values, random strategy) recorded as pass events,
                   validated by TLC against Sorting!IsStableOrder (+ chunk-file count as DRIFT).
"""
import json
import os
import random

from harness import tlc, values, common
from harness.core import Check
from harness.concretize import PROFILES, ID_BASE

PID = 'C05'
KEYARG = {'a': 'a', 'ab': ('a', 'b'), 'ba': ('b', 'a'), 'none': None}


def build_table(case_rows, key, prof, occ=0):
    if key == 'none':
        hdr = ['a', 'b']
        rows = [prof.row(cells, occ + i) for i, cells in enumerate(case_rows)]
    else:
        hdr = ['id', 'a', 'b']
        rows = [[ID_BASE + i + 1] + prof.row(cells, occ + i) for i, cells in enumerate(case_rows)]
    return hdr, rows


def run_sort_case(case, prof, B, reverse, cache, tmpdir, occ=0):
    """Returns None if the real sort() delivers the spec's sequence on both passes, else a message."""
    import petl as etl
    hdr, rows = build_table(case['rows'], case['key'], prof, occ)
    order = case['desc'] if reverse else case['asc']
    want = [tuple(hdr)] + [tuple(rows[i - 1]) for i in order]
    t = [hdr] + rows
    try:
        v = etl.sort(t, KEYARG[case['key']], reverse=reverse, buffersize=B, tempdir=tmpdir, cache=cache)
        p1 = [tuple(r) for r in v]
        p2 = [tuple(r) for r in v]
    except Exception as e:
        return 'raised %r' % (e,)
    if p1 != want:
        return 'pass 1 delivered %r, spec %r' % (p1, want)
    if p2 != want:
        return 'pass 2 delivered %r, spec %r' % (p2, want)
    if B is None and cache:
        # issorted judges the INPUT by the same order: sorted iff the stable order is the identity; strictly sorted iff
        # moreover the stable order of the opposite direction is the exact reverse (no two equal keys)
        n = len(rows)
        ident, rev = list(range(1, n + 1)), list(range(n, 0, -1))
        fwd, bwd = (case['desc'], case['asc']) if reverse else (case['asc'], case['desc'])
        for strict, expect in ((False, fwd == ident), (True, fwd == ident and bwd == rev)):
            try:
                got = etl.issorted(t, KEYARG[case['key']], reverse=reverse, strict=strict)
            except Exception as e:
                return 'issorted(reverse=%s, strict=%s) raised %r' % (reverse, strict, e)
            if bool(got) != expect:
                return 'issorted(key=%r, reverse=%s, strict=%s) says %r, the definition (stable order = identity%s) %r' % (
                    KEYARG[case['key']], reverse, strict, got, ', no equal keys' if strict else '', expect)
        try:
            if not etl.issorted(p1, KEYARG[case['key']], reverse=reverse):
                return 'issorted(sort(t)) is False for the same key and direction'
        except Exception as e:
            return 'issorted(sort(t)) raised %r' % (e,)
    return None


def run_sort_spelling_case(case, prof, B, reverse, tmpdir, occ=0):
    """The same sort with the key SPELLED differently: field index, one-element tuple / list, index 0 and the empty
    string as a field name (both falsy).  Key field(s) first, id last: header (a, b, id)."""
    import petl as etl
    if case['key'] == 'none':
        return None
    _, rows = build_table(case['rows'], case['key'], prof, occ)
    # rows are [id, a?, b?] (ragged): move the id to the end only for rectangular rows, otherwise keep the layout
    order = case['desc'] if reverse else case['asc']
    msgs = []

    def run(label, hdr, rws, key):
        want = [tuple(hdr)] + [tuple(rws[i - 1]) for i in order]
        try:
            v = etl.sort([hdr] + rws, key, reverse=reverse, buffersize=B, tempdir=tmpdir)
            p1 = [tuple(r) for r in v]
            p2 = [tuple(r) for r in v]
        except Exception as e:
            msgs.append('%s raised %r' % (label, e))
            return
        if p1 != want or p2 != want:
            msgs.append('%s delivered %r (second pass %r), spec %r' % (label, p1, p2 if p2 != p1 else 'same', want))
    hdr = ['id', 'a', 'b']
    spell = {'a': [1, ('a',), ['a'], (1,)], 'ab': [(1, 2), ['a', 'b'], ('a', 2)], 'ba': [(2, 1), ['b', 'a'], (2, 'a')]}[case['key']]
    for k in spell:
        run('key=%r on header (id, a, b)' % (k,), hdr, rows, k)
    if all(len(r) == 3 for r in rows):
        rot = [[r[1], r[2], r[0]] for r in rows]
        spell0 = {'a': [0, (0,), 'a'], 'ab': [(0, 1), (0, 'b')], 'ba': [(1, 0), ('b', 0)]}[case['key']]
        for k in spell0:
            run('key=%r on header (a, b, id)' % (k,), ['a', 'b', 'id'], rot, k)
        spell_e = {'a': [u'', (u'',)], 'ab': [(u'', 'b')], 'ba': [('b', u'')]}[case['key']]
        for k in spell_e:
            run("key=%r on header ('', b, id)" % (k,), [u'', 'b', 'id'], rot, k)
            run("key=%r on header (id, '', b)" % (k,), ['id', u'', 'b'], rows, k)
    return '; '.join(msgs) if msgs else None


def bsizes(n):
    return [None] + list(range(1, n + 2))


def _sort_job(j):
    """All strategies for one (case, profile); returns (counts, violations) for the parent to record."""
    ci, case, pname, spelling = j
    prof = PROFILES[pname]
    n = len(case['rows'])
    counts, viols = [], []
    with common.private_tmp() as tmp:
        for B in bsizes(n):
            for reverse in (False, True):
                if B in (None, 1, n) and spelling:      # key spellings: one (rotating) profile per case
                    msg = run_sort_spelling_case(case, prof, B, reverse, tmp, occ=ci)
                    counts.append(('sort-spelling', ci, B, reverse))
                    if msg:
                        viols.append(({'op': 'sort', 'key': case['key'], 'kind': 'key-spelling'},
                                      'sort(reverse=%s, buffersize=%s) profile=%s rows=%r: %s' % (reverse, B, pname, case['rows'], msg),
                                      {'kind': 'sort-spelling', 'case': case, 'profile': pname, 'B': B, 'reverse': reverse, 'occ': ci}))
                for cache in (True, False):
                    msg = run_sort_case(case, prof, B, reverse, cache, tmp, occ=ci)
                    counts.append(('sort', ci, B, reverse, cache))
                    if msg:
                        viols.append(({'op': 'sort', 'key': case['key']},
                                      'sort(key=%r, reverse=%s, buffersize=%s, cache=%s) profile=%s rows=%r: %s'
                                      % (KEYARG[case['key']], reverse, B, cache, pname, case['rows'], msg),
                                      {'kind': 'sort', 'case': case, 'profile': pname, 'B': B,
                                       'reverse': reverse, 'cache': cache, 'occ': ci}))
        left = len(os.listdir(tmp))
    return counts, viols, left


def check_sort_cases(chk, cases, profiles, full):
    jobs = []
    for ci, case in enumerate(cases):
        for pi, pname in enumerate(profiles):
            # quick: rotate profiles over cases; thorough: all profiles for every case
            rot = (ci + pi) % len(profiles) == 0
            if not full and not rot:
                continue
            jobs.append((ci, case, pname, rot))
    left = 0
    for counts, viols, l in common.pmap(_sort_job, jobs):
        for c in counts:
            chk.count(c)
            chk.replayed += 1
        for sig, msg, rp in viols:
            chk.violation(sig, msg, rp)
        left += l
    if left:
        chk.add_drift('temp files left behind after sort cases: %d' % left)
    if cases:
        chk.sample({'kind': 'sort-case', 'case': cases[len(cases) // 2]})


def run_merge_case(case, prof, B, reverse, presorted, tmpdir):
    import petl as etl
    hdr = ['a', 'b'] if case['key'] == 'none' else ['id', 'a', 'b']
    tables, allrows, k = [], [], 0
    for t in case['tables']:
        rows = []
        for cells in t:
            k += 1
            rows.append(([] if case['key'] == 'none' else [ID_BASE + k]) + prof.row(cells, k))
        tables.append([hdr] + rows)
        allrows.extend(rows)
    order = case['desc'] if reverse else case['asc']
    want = [tuple(hdr)] + [tuple(allrows[i - 1]) for i in order]
    key = KEYARG[case['key']]
    try:
        if presorted:
            srcs = [list(etl.sort(t, key, reverse=reverse)) for t in tables]
            got = [tuple(r) for r in etl.mergesort(*srcs, key=key, reverse=reverse, presorted=True)]
        else:
            got = [tuple(r) for r in etl.mergesort(*tables, key=key, reverse=reverse, buffersize=B, tempdir=tmpdir)]
        ref = [tuple(r) for r in etl.sort(etl.cat(*tables), key, reverse=reverse)]
    except Exception as e:
        return 'raised %r' % (e,)
    if got != want:
        return 'mergesort delivered %r, spec %r' % (got, want)
    if ref != want:
        return 'sort(cat(..)) delivered %r, spec %r' % (ref, want)
    # rarely used arguments: a non-default `missing` (short rows are padded with it BEFORE keying, in cat as in
    # mergesort) and an explicit `header` that moves the key field - the property's own identity mergesort == sort(cat)
    if not presorted and B in (None, 1):
        for kw in ({'missing': prof.conc(2)}, {'missing': u'zz'}, {'header': list(reversed(hdr))}, {'header': hdr[1:] + ['extra'] + hdr[:1]},
                   {'header': list(reversed(hdr)), 'missing': prof.conc(1)}):
            if key is None and 'header' in kw:
                continue
            # with `missing`: ragged variants of the tables (rows cut to 1, 2, .. cells in rotation)
            tabs = tables if 'missing' not in kw else [[t[0]] + [r[:1 + (i + j) % len(hdr)] for j, r in enumerate(t[1:])]
                                                       for i, t in enumerate(tables)]
            try:
                got = [tuple(r) for r in etl.mergesort(*tabs, key=key, reverse=reverse, buffersize=B, tempdir=tmpdir, **kw)]
                ref = [tuple(r) for r in etl.sort(etl.cat(*tabs, **kw), key, reverse=reverse)]
            except Exception as e:
                return 'with %r raised %r' % (kw, e)
            if got != ref:
                return 'mergesort(.., %s) over %r delivered %r, sort(cat(.., %s), key) delivers %r' % (kw, tabs, got, kw, ref)
            if 'missing' in kw and 'header' not in kw and key is not None:
                # presorted=True with ragged inputs: each input sorted as padded, then its trailing filler cells are
                # cut off again (still in key order once filled); merged as they are
                m = kw['missing']

                def cut(r):
                    r = list(r)
                    while len(r) > 1 and r[-1] is m:
                        r.pop()
                    return r
                try:
                    pres = [[t[0]] + [cut(r) for r in etl.data(etl.sort(etl.stack(t, missing=m), key, reverse=reverse))] for t in tabs]
                    got = [tuple(r) for r in etl.mergesort(*pres, key=key, reverse=reverse, presorted=True, missing=m)]
                except Exception as e:
                    return 'presorted with %r raised %r' % (kw, e)
                if got != ref:
                    return 'mergesort(presorted=True, %s) over %r delivered %r, sort(cat(.., %s), key) delivers %r' % (kw, pres, got, kw, ref)
    # a source whose header REPEATS a field name (the first column of that name counts, in cat as in mergesort)
    if key is not None and B in (None, 1) and len(tables) >= 2 and len(hdr) == 3:
        dup = [tables[0]] + [[[hdr[0], hdr[1], hdr[1]]] + t[1:] for t in tables[1:]]
        try:
            ref = [tuple(r) for r in etl.sort(etl.cat(*dup), key if key != ('b', 'a') and key != ('a', 'b') else 'a', reverse=reverse)]
            got = [tuple(r) for r in etl.mergesort(*dup, key=key if key != ('b', 'a') and key != ('a', 'b') else 'a', reverse=reverse, buffersize=B, tempdir=tmpdir)]
        except Exception as e:
            return 'with a repeated field name raised %r' % (e,)
        if got != ref:
            return 'sources %r (repeated field name): mergesort delivers %r, sort(cat(..)) %r' % (dup, got, ref)
    # rows LONGER than the header: surplus cells are dropped by cat, by the default mergesort and by presorted=True alike
    if key is not None and B in (None, 1):
        tl = [[t[0]] + [list(r) + ([u'surplus', i] if (i + j) % 2 == 0 else []) for j, r in enumerate(t[1:])] for i, t in enumerate(tables)]
        try:
            ref = [tuple(r) for r in etl.sort(etl.cat(*tl), key, reverse=reverse)]
            got = [tuple(r) for r in etl.mergesort(*tl, key=key, reverse=reverse, buffersize=B, tempdir=tmpdir)]
            pres = [[t[0]] + [list(r) for r in etl.data(etl.sort(t, key, reverse=reverse))] for t in tl]
            # (sort keeps the surplus cells of long rows: the presorted inputs are as long as the originals)
            gotp = [tuple(r) for r in etl.mergesort(*pres, key=key, reverse=reverse, presorted=True)]
        except Exception as e:
            return 'with over-long rows raised %r' % (e,)
        if got != ref or gotp != ref:
            return 'over-long rows %r: mergesort delivers %r, mergesort(presorted=True) %r, sort(cat(..)) %r' % (tl, got, gotp, ref)
    return None


def _merge_job(j):
    ci, case, pname = j
    prof = PROFILES[pname]
    counts, viols = [], []
    with common.private_tmp() as tmp:
        for B in (None, 1, 2):
            for reverse in (False, True):
                for presorted in ((False, True) if B is None else (False,)):
                    msg = run_merge_case(case, prof, B, reverse, presorted, tmp)
                    counts.append(('mergesort', ci, B, reverse, presorted))
                    if msg:
                        viols.append(({'op': 'mergesort', 'key': case['key']},
                                      'mergesort(key=%r, reverse=%s, buffersize=%s, presorted=%s) tables=%r: %s'
                                      % (KEYARG[case['key']], reverse, B, presorted, case['tables'], msg),
                                      {'kind': 'mergesort', 'case': case, 'profile': prof.name, 'B': B,
                                       'reverse': reverse, 'presorted': presorted}))
    return counts, viols


def check_merge_cases(chk, cases, profiles, full):
    jobs = [(ci, case, profiles[ci % len(profiles)]) for ci, case in enumerate(cases) if full or ci % 3 == 0]
    for counts, viols in common.pmap(_merge_job, jobs):
        for c in counts:
            chk.count(c)
            chk.replayed += 1
        for sig, msg, rp in viols:
            chk.violation(sig, msg, rp)
    if cases:
        chk.sample({'kind': 'mergesort-case', 'case': cases[len(cases) // 2]})


def run_mergex_case(case, prof, reverse, perm):
    """mergesort over tables with different headers (union header); perm: table 2 lists its fields as (c, a, b)."""
    import petl as etl
    t1 = [['a', 'b']] + [prof.row(r) for r in case['t1']]
    if case['shape'] == 'ac':
        h23 = ['c', 'a'] if perm else ['a', 'c']
        cells = (lambda r: [prof.conc(r[2]), prof.conc(r[0])]) if perm else (lambda r: [prof.conc(r[0]), prof.conc(r[2])])
    else:
        h23 = ['c', 'a', 'b'] if perm else ['a', 'b', 'c']
        cells = (lambda r: [prof.conc(r[2]), prof.conc(r[0]), prof.conc(r[1])]) if perm else (lambda r: prof.row(r))
    t2 = [list(h23)] + [cells(r) for r in case['t2']]
    t3 = [['a', 'c'] if case['shape'] == 'ac' else ['a', 'b', 'c']] + [([prof.conc(r[0]), prof.conc(r[2])] if case['shape'] == 'ac' else prof.row(r)) for r in case['t3']]
    order = case['desc'] if reverse else case['asc']
    want = [('a', 'b', 'c')] + [tuple(prof.row(case['rows'][i - 1])) for i in order]
    key = None if case['key'] == 'none' else 'a'
    try:
        got = [tuple(r) for r in etl.mergesort(t1, t2, t3, key=key, reverse=reverse)]
        ref = [tuple(r) for r in etl.sort(etl.cat(t1, t2, t3), key, reverse=reverse)]
    except Exception as e:
        return 'raised %r' % (e,)
    if ref != want:
        return 'sort(cat(..)) delivered %r, spec %r' % (ref, want)
    if got != want:
        return 'mergesort delivered %r, sort(cat(..)) and spec %r' % (got, want)
    return None


def check_mergex_cases(chk, cases, profiles):
    for ci, case in enumerate(cases):
        prof = PROFILES[profiles[ci % len(profiles)]]
        for reverse in (False, True):
            for perm in (False, True):
                msg = run_mergex_case(case, prof, reverse, perm)
                chk.count(('mergesortx', ci, reverse, perm))
                chk.replayed += 1
                if msg:
                    chk.violation({'op': 'mergesort', 'key': case['key'], 'headers': 'permuted' if perm else 'different'},
                                  'mergesort(key=%r, reverse=%s) over headers (a,b) / (a,b,c) / %s tables=%r %r %r: %s'
                                  % (case['key'], reverse, '(c,a,b)' if perm else '(a,b,c)', case['t1'], case['t2'], case['t3'], msg),
                                  {'kind': 'mergesortx', 'case': case, 'profile': prof.name, 'reverse': reverse, 'perm': perm})


# ---- V: recorded executions --------------------------------------------------------------------

def record_traces(n_examples, seed):
    import petl as etl
    from hypothesis import given, strategies as st, seed as hseed
    traces, concrete = [], []
    cell = common.cell_values()
    row = st.lists(cell, min_size=0, max_size=2)

    @hseed(seed)
    @common.hyp_settings(n_examples, seed)
    @given(st.lists(row, min_size=0, max_size=40), st.sampled_from(['a', 'ab', 'ba']), st.booleans(),
           st.booleans(), st.integers(0, 45), st.booleans())
    def go(rows, key, reverse, cache, B, use_config):
        n = len(rows)
        if B > n + 1:
            B = 0
        hdr = ['id', 'a', 'b']
        t = [hdr] + [[ID_BASE + i + 1] + list(r) for i, r in enumerate(rows)]
        idx = {'a': (1,), 'ab': (1, 2), 'ba': (2, 1)}[key]

        def keyval(r):
            cells = [r[j] if j < len(r) else None for j in idx]
            return cells[0] if len(cells) == 1 else tuple(cells)
        keys = [keyval(r) for r in t[1:]]
        try:
            abst = values.abstract_batch(keys)
        except (TypeError, ValueError, ArithmeticError):
            return
        with common.private_tmp() as tmp:
            import petl.config
            if use_config:
                petl.config.sort_buffersize = (B or None)
                v = etl.sort(t, KEYARG[key], reverse=reverse, tempdir=tmp, cache=cache)
            else:
                # buffersize=None means "use the config default" (100000 > any table here)
                v = etl.sort(t, KEYARG[key], reverse=reverse, buffersize=(B or None), tempdir=tmp, cache=cache)
            passes = []
            for _ in range(2):
                it = iter(v)
                out, files, exc = [], 0, None
                try:
                    next(it)
                    for k, r in enumerate(it):
                        if k == 0:
                            files = len(os.listdir(tmp))
                        out.append(r[0] - ID_BASE)
                except Exception as e:
                    exc = repr(e)
                passes.append({'out': out, 'files': files, 'raised': exc is not None})
            del it, v
        traces.append({'keys': abst, 'reverse': reverse, 'B': B, 'cache': cache, 'passes': passes})
        concrete.append({'rows': [repr(r) for r in t[1:]], 'key': key, 'reverse': reverse, 'B': B, 'cache': cache,
                         'use_config': use_config})
    go()
    # a few LARGE tables: many duplicate keys, buffersizes that spill into > 64 / > 128 chunk files, chunks of > 256 rows
    rng = random.Random(seed)
    for n, B in ((130, 1), (343, 3), (343, 5), (700, 300), (520, 2), (1300, 2), (1100, 1), (2100, 2)):
        keys = [rng.choice([None, 1, 2, 3, 2.5, u'x']) for _ in range(n)]
        t = [['id', 'a', 'b']] + [[ID_BASE + i + 1, k, i % 3] for i, k in enumerate(keys)]
        for reverse in (False, True):
            with common.private_tmp() as tmp:
                v = etl.sort(t, 'a', reverse=reverse, buffersize=B, tempdir=tmp)
                passes = []
                for _ in range(2):
                    out = [r[0] - ID_BASE for r in etl.data(v)]
                    passes.append({'out': out, 'files': (n + B - 1) // B, 'raised': False})
                del v
            traces.append({'keys': values.abstract_batch(keys), 'reverse': reverse, 'B': B, 'cache': True, 'passes': passes})
            concrete.append({'rows': '%d rows over 6 key values' % n, 'key': 'a', 'reverse': reverse, 'B': B, 'cache': True, 'use_config': False})
    return traces, concrete


def validate_traces(chk, traces, concrete, seed):
    if not traces:
        raise tlc.MachineryError('no sort traces recorded')
    r, verdicts = common.validate('SortTrace', traces)
    chk.add_tlc(r, 'SortTrace')
    for tid, (bad, drift) in sorted(verdicts.items()):
        tr = traces[tid - 1]
        raised = any(p['raised'] for p in tr['passes'])
        if bad or raised:
            chk.violation({'op': 'sort', 'kind': 'trace'},
                          'recorded sort pass %d is not the stable order the spec prescribes (or raised): %r'
                          % (bad, concrete[tid - 1]),
                          {'kind': 'trace', 'seed': seed, 'concrete': concrete[tid - 1], 'trace': tr})
        elif drift:
            chk.add_drift('chunk-file count differs from ExtSort model in trace %d pass %d: n=%d B=%d files=%r'
                          % (tid, drift, len(tr['keys']), tr['B'], [p['files'] for p in tr['passes']]))
    chk.validated += len(traces)
    chk.sample({'kind': 'trace', 'concrete': concrete[0], 'passes': traces[0]['passes']})
    # binding demonstration: swap two delivered rows of one recorded pass
    cand = [i for i, t in enumerate(traces) if len(t['passes'][0]['out']) >= 2
            and t['keys'][t['passes'][0]['out'][0] - 1] != t['keys'][t['passes'][0]['out'][-1] - 1]]
    if cand:
        bad = json.loads(json.dumps([traces[cand[0]]]))
        o = bad[0]['passes'][0]['out']
        o[0], o[-1] = o[-1], o[0]
        r2, v2 = common.validate('SortTrace', bad, name='SortTraceBad')
        ok = v2[1][0] == 1
        chk.binding_demo = {'corrupted': 'first and last delivered row of pass 1 swapped', 'verdict': list(v2[1]),
                            'rejected_as_expected': ok}
        if not ok and not chk.violations:
            raise tlc.MachineryError('binding demo failed: corrupted sort trace accepted')


# ---- V2: petl's own DEBUG log as the trace of SortView's internal steps ------------------------------

LOGMAP = [('iterate without cache', 'nocache'), ('clear cache', 'clear'), ('caching mem', 'cachemem'),
          ('created temporary chunk file', 'chunk'), ('caching files', 'cachefiles'),
          ('iterate from memory cache', 'frommem'), ('iterate from file cache', 'fromfile')]


def record_log_traces(n, seed):
    import logging
    import petl as etl
    rng = random.Random(seed + 5)
    events = []

    class H(logging.Handler):
        def emit(self, rec):
            msg = rec.getMessage()
            for prefix, ev in LOGMAP:
                if msg.startswith(prefix):
                    events.append({'e': ev, 'id': 0})
                    return
    lg = logging.getLogger('petl.transform.sorts')
    saved = (lg.level, lg.propagate)
    h = H()
    lg.setLevel(logging.DEBUG)
    lg.addHandler(h)
    lg.propagate = False
    traces = []
    try:
        for _ in range(n):
            nrows = rng.randrange(0, 7)
            K = [rng.randrange(0, 4) for _ in range(nrows)]
            B = rng.choice([0, 1, 2, 3, nrows, nrows + 1]) if nrows else rng.choice([0, 1, 2])
            cache = rng.random() < 0.6
            reverse = rng.random() < 0.4
            t = [['k', 'id']] + [[(None if k == 0 else k), i + 1] for i, k in enumerate(K)]
            del events[:]
            with common.private_tmp() as tmp:
                v = etl.sort(t, 'k', reverse=reverse, buffersize=(B or None), cache=cache, tempdir=tmp)
                for _p in range(rng.randrange(1, 4)):
                    it = iter(v)
                    next(it)
                    for r in it:
                        events.append({'e': 'row', 'id': r[1]})
                    events.append({'e': 'passend', 'id': 0})
                del it, v
            traces.append({'K': K, 'B': B, 'cache': cache, 'reverse': reverse, 'events': list(events)})
    finally:
        lg.removeHandler(h)
        lg.setLevel(saved[0])
        lg.propagate = saved[1]
    return traces


def validate_log_traces(chk, traces, seed):
    sdir = tlc.scratch()
    path = os.path.join(sdir, 'extsortlog.ndjson')
    tlc.write_ndjson(path, traces)
    r = tlc.run('ExtSortLog', timeout=1200, env={'TRACE_FILE': path}, workers=1, coverage=False)
    if r.error:
        raise tlc.MachineryError('ExtSortLog: %s' % r.error)
    chk.add_tlc(r, 'ExtSortLog')
    v = common.verdicts(r)
    if len(v) != len(traces):
        raise tlc.MachineryError('ExtSortLog: %d verdicts for %d traces' % (len(v), len(traces)))
    if r.violated:
        chk.violation({'op': 'sort', 'kind': 'log-trace'}, 'a recorded internal trace of sort() reaches a completed pass whose output violates %s' % r.violated,
                      {'kind': 'logtrace', 'seed': seed})
    for tid, (score, total) in sorted(v.items()):
        if score != total + 1:
            t = traces[tid - 1]
            chk.add_drift('internal sort trace matched only %d of %d events: K=%r B=%d cache=%s reverse=%s next event %r'
                          % (score, total, t['K'], t['B'], t['cache'], t['reverse'], t['events'][score] if score < total else '<end: pass not completed>'))
    chk.validated += len(traces)
    chk.sample({'kind': 'internal-log-trace', 'trace': traces[0]})
    # binding demonstration: drop one `created temporary chunk file` event
    cand = [i for i, t in enumerate(traces) if any(e['e'] == 'chunk' for e in t['events'])]
    if cand:
        bad = json.loads(json.dumps([traces[cand[0]]]))
        k = [j for j, e in enumerate(bad[0]['events']) if e['e'] == 'chunk'][0]
        del bad[0]['events'][k]
        p2 = os.path.join(sdir, 'extsortlog_bad.ndjson')
        tlc.write_ndjson(p2, bad)
        r2 = tlc.run('ExtSortLog', timeout=300, env={'TRACE_FILE': p2}, workers=1, coverage=False)
        v2 = common.verdicts(r2)
        ok = v2[1][0] != v2[1][1] + 1
        chk.note('binding demo (internal log trace): one chunk-file event removed -> matched %d of %d events (%s)'
                 % (v2[1][0], v2[1][1], 'rejected as expected' if ok else 'ACCEPTED'))
        if not ok and not chk.violations:
            raise tlc.MachineryError('binding demo failed: internal log trace with a missing chunk event accepted')


def run(tier, seed):
    chk = Check(PID, tier, seed)
    full = tier == 'thorough'
    cfg = 'ExtSortMC' if full else 'ExtSortMCq'
    r = tlc.require_ok(tlc.run('ExtSort', cfg=cfg, timeout=1800), 'ExtSort')
    acts = ['Iter', 'FirstChunk', 'DecideMem', 'DecideDisk', 'DumpChunk', 'EndDump', 'MergeStep', 'EndMerge',
            'FromMem', 'FromFile', 'NextPass']
    tlc.check_coverage(r, acts, 'ExtSort')
    chk.add_tlc(r, 'ExtSort', cfg, acts)
    # the shortlist merge used by mergesort() and by the reverse chunk merge, as its own algorithm model
    cfgm = 'ShortlistMergeMC' if full else 'ShortlistMergeMCq'
    rm = tlc.require_ok(tlc.run('ShortlistMerge', cfg=cfgm, timeout=1800), 'ShortlistMerge')
    tlc.check_coverage(rm, ['Populate', 'Step'], 'ShortlistMerge')
    chk.add_tlc(rm, 'ShortlistMerge', cfgm, ['Populate', 'Step'])
    cases, mcases, mxcases = common.gen('SortGen', 'SortGen' if full else 'SortGenq', outs=('OUT', 'OUT2', 'OUT3'))
    profiles = ['ints', 'mixed', 'text', 'compound', 'equalreps'] if full else ['ints', 'mixed', 'compound']
    check_sort_cases(chk, cases, profiles, full)
    check_merge_cases(chk, mcases, profiles, full)
    check_mergex_cases(chk, mxcases, profiles)
    traces, concrete = record_traces(3000 if full else 300, seed)
    validate_traces(chk, traces, concrete, seed)
    validate_log_traces(chk, record_log_traces(1200 if full else 250, seed), seed)
    from harness import algebra
    algebra.run(chk, ['A1', 'A7'], full, seed)
    chk.exhaustive = True
    chk.assumptions = ['list.sort is stable (CPython guarantee), heapq.merge semantics of the stdlib',
                       'bounds: ExtSort tables <= %d rows over 3 key values; generated tables <= %d ragged rows'
                       % (5 if full else 4, 4 if full else 3)]
    return chk.finish(rule='G: every TLC-generated (table, key form) x buffersize None,1..n+1 x reverse x cache x 2 passes '
                           'x value profile on the real sort(); mergesort cases vs sort(cat); V: Hypothesis tables '
                           'validated by SortTrace; distinct = distinct (case, strategy) keys')


def replay(path):
    with open(path) as f:
        rp = json.load(f)['replay']
    with common.private_tmp() as tmp:
        if rp['kind'] == 'sort':
            msg = run_sort_case(rp['case'], PROFILES[rp['profile']], rp['B'], rp['reverse'], rp['cache'], tmp, rp['occ'])
        elif rp['kind'] == 'sort-spelling':
            msg = run_sort_spelling_case(rp['case'], PROFILES[rp['profile']], rp['B'], rp['reverse'], tmp, rp['occ'])
        elif rp['kind'] == 'mergesortx':
            msg = run_mergex_case(rp['case'], PROFILES[rp['profile']], rp['reverse'], rp['perm'])
        elif rp['kind'] == 'mergesort':
            msg = run_merge_case(rp['case'], PROFILES[rp['profile']], rp['B'], rp['reverse'], rp['presorted'], tmp)
        else:
            print('trace replay: rerun ./check C05 with VERIF_SEED=%s; concrete input: %r' % (rp['seed'], rp['concrete']))
            return 0
    print(msg or 'holds')
    return 1 if msg else 0
