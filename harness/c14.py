"""C14 - reshape operators are mutually inverse and cell-exact.

TLC:  Reshape / ReshapeGen - definitions of melt, recast, transpose, flatten/unflatten, pivot, unpack and the laws
                    recast(melt(t)) = t sorted by key with variables in name order (unique keys), one melt row per
                    (row, variable) cell, transpose o transpose = id, unflatten(flatten(t), n) = data(t), pivot conserves
                    the total - evaluated on every small rectangular table x key choice.
G:    every generated table replayed on the real melt / recast / transpose / flatten / unflatten / pivot (key cells under
      mixed-type profiles), unpack / unpackdict / split / capture / splitdown cases, dicts<->fromdicts, columns<->fromcolumns.
V:    random integer tables with unique keys, all outputs recorded and validated by ReshapeTrace.
"""
import json
import random
from collections import OrderedDict

from harness import tlc, common
from harness.core import Check
from harness.concretize import PROFILES

PID = 'C14'
KEYS = {'a': ('a', ['a']), 'ab': (('a', 'b'), ['a', 'b']), 'b': ('b', ['b'])}
M9 = 'M'


def run_case(case, pname, occ=0):
    import petl as etl
    prof = PROFILES[pname]

    def crow(r):        # a: profile cell; b: plain int (pivot column values must be homogeneous); c: payload
        return [prof.conc(r[0], occ), r[1], r[2]]

    def cmolt(r, nk, kf):
        out = []
        for j, c in enumerate(r[:nk]):
            out.append(prof.conc(c, occ) if kf[j] == 'a' else c)
        var, val = r[nk], r[nk + 1]
        out.append(var)
        out.append(prof.conc(val, occ) if var == 'a' else val)
        return tuple(out)
    t = [list(case['hdr'])] + [crow(r) for r in case['rows']]
    problems = []

    def eq(label, got, want):
        if got != want:
            problems.append('%s delivered %r, spec %r' % (label, got, want))

    def rows(v):
        return [tuple(r) for r in v]
    for kname, (karg, kf) in KEYS.items():
        m = case['melt'][kname]
        nk = len(kf)
        try:
            got = rows(etl.melt(t, karg))
            want = [tuple(m['mhdr'])] + [cmolt(r, nk, kf) for r in m['molten']]
            eq('melt(key=%r)' % (karg,), got, want)
            vars_ = [f for f in case['hdr'] if f not in kf]
            eq('melt(variables=%r)' % (vars_,), rows(etl.melt(t, variables=vars_)), want)
            if m['unique'] and case['rows']:
                can = m['canonical']

                def ccan(r):
                    return tuple((prof.conc(c, occ) if can['hdr'][j] == 'a' else c) for j, c in enumerate(r))
                wantc = [tuple(can['hdr'])] + [ccan(r) for r in can['rows']]
                eq('recast(melt(t, %r), key)' % (karg,), rows(etl.recast(etl.melt(t, karg), key=kf)), wantc)
                eq('recast(melt(t, %r))' % (karg,), rows(etl.recast(etl.melt(t, karg))), wantc)
                eq('recast(melt, samplesize=1)', rows(etl.recast(etl.melt(t, karg), key=kf, samplesize=1))[0][:nk], tuple(can['hdr'][:nk]))
        except Exception as e:
            problems.append('melt/recast(key=%r) raised %r' % (karg, e))
    try:
        # melt(variables=[c, b]): variables in the caller's order, key = the remaining field a
        want = [('a', 'variable', 'value')] + [(prof.conc(r[0], occ), r[1], r[2]) for r in case['meltvars']]
        eq("melt(variables=['c', 'b'])", rows(etl.melt(t, variables=['c', 'b'])), want)
    except Exception as e:
        problems.append('melt(variables in caller order) raised %r' % (e,))
    try:
        def cgrid(g):
            return [tuple((prof.conc(c, occ) if (g[ri][0] == 'a' and ci > 0) else c) for ci, c in enumerate(r)) for ri, r in enumerate(g)]
        tr = rows(etl.transpose(t))
        eq('transpose', tr, cgrid(case['transpose']))
        eq('transpose(transpose)', rows(etl.transpose(etl.transpose(t))), [tuple(r) for r in t])
    except Exception as e:
        problems.append('transpose raised %r' % (e,))
    try:
        flat = list(etl.flatten(t))
        eq('flatten', flat, [c for r in t[1:] for c in r])
        eq('unflatten(flatten, 3)', rows(etl.unflatten(etl.flatten(t), 3))[1:], [tuple(r) for r in t[1:]])
        for n, key in ((2, 'unflatten2'), (4, 'unflatten4')):
            got = rows(etl.unflatten(flat, n))
            want_rows = case[key]
            # positions of `a` cells in the flat sequence are every third starting at 0
            pos = 0
            want = []
            for r in want_rows:
                wr = []
                for c in r:
                    if pos < len(flat):
                        wr.append(flat[pos])
                    else:
                        wr.append(None)
                    pos += 1
                want.append(tuple(wr))
            eq('unflatten(%d)' % n, got[1:], want)
            eq('unflatten(%d) header' % n, got[0], tuple('f%d' % i for i in range(n)))
    except Exception as e:
        problems.append('flatten/unflatten raised %r' % (e,))
    if case['rows']:
        try:
            p = case['pivot']
            got = rows(etl.pivot(t, 'a', 'b', 'c', sum))
            want = [tuple(['a'] + p['f2vals'])] + [tuple([prof.conc(r[0], occ)] + [(None if c == 0 else c) for c in r[1:]]) for r in p['rows']]
            eq('pivot', got, want)
        except Exception as e:
            problems.append('pivot raised %r' % (e,))
    # field NAMES that are ints (a legal header): melt(key) must still read the positional complement
    try:
        ti = [['k', 0, 1]] + [list(r) for r in t[1:]]
        want = [('k', 'variable', 'value')] + [x for r in t[1:] for x in ((r[0], 0, r[1]), (r[0], 1, r[2]))]
        eq('melt(key) on a header with int field names', rows(etl.melt(ti, 'k')), want)
    except Exception as e:
        problems.append('melt on int field names raised %r' % (e,))
    # fromdicts(dicts(t)) with header discovery on a SAMPLE smaller than the table
    try:
        if case['rows']:
            eq('fromdicts(dicts(t), sample=1)', rows(etl.fromdicts(list(etl.dicts(t)), sample=1)), [tuple(r) for r in t])
            eq('fromdicts(generator of dicts, sample=1)', rows(etl.fromdicts((d for d in list(etl.dicts(t))), sample=1)), [tuple(r) for r in t])
    except Exception as e:
        problems.append('fromdicts(sample=1) raised %r' % (e,))
    # dicts <-> fromdicts, columns <-> fromcolumns (rectangular, distinct names)
    try:
        eq('fromdicts(dicts(t))', rows(etl.fromdicts(list(etl.dicts(t)), header=case['hdr'])), [tuple(r) for r in t])
        if case['rows']:
            eq('fromdicts(dicts(t)) inferred header', rows(etl.fromdicts(list(etl.dicts(t)))), [tuple(r) for r in t])
        cols = etl.columns(t)
        eq('fromcolumns(columns(t))', rows(etl.fromcolumns([cols[f] for f in case['hdr']], header=case['hdr'])), [tuple(r) for r in t])
    except Exception as e:
        problems.append('dicts/columns round trip raised %r' % (e,))
    return problems


def run_unpack_case(case):
    import petl as etl
    vals = case['vals']
    t = [['id', 'v', 'z']] + [[i + 1, tuple(v), 51 + i] for i, v in enumerate(vals)]
    problems = []

    def eq(label, got, want):
        if got != want:
            problems.append('%s delivered %r, spec %r' % (label, got, want))

    def cv(c):
        return None if c == 0 else (M9 if c == 9 else c)
    want2 = [('id', 'z', 'p', 'q')] + [tuple(cv(c) for c in r) for r in case['out2']]
    want3 = [('id', 'z', 'v1', 'v2', 'v3')] + [tuple(cv(c) for c in r) for r in case['out3']]
    try:
        eq('unpack(newfields=[p,q])', [tuple(r) for r in etl.unpack(t, 'v', ['p', 'q'])], want2)
        eq('unpack(newfields=3, missing)', [tuple(r) for r in etl.unpack(t, 'v', 3, missing=M9)], want3)
        eq('unpack(field index)', [tuple(r) for r in etl.unpack(t, 1, ['p', 'q'])], want2)
        io = [tuple(r) for r in etl.unpack(t, 'v', ['p', 'q'], include_original=True)]
        eq('unpack(include_original)', io, [('id', 'v', 'z', 'p', 'q')] + [tuple(t[i + 1]) + tuple(want2[i + 1][2:]) for i in range(len(vals))])
        # an EARLIER field holds a cell equal to the unpacked one (another field in between): the cell is dropped by position
        tw = [['w', 'id', 'v', 'z']] + [[tuple(list(v)), i + 1, tuple(v), 51 + i] for i, v in enumerate(vals)]
        eq('unpack(an earlier field holds an equal cell)', [tuple(r) for r in etl.unpack(tw, 'v', ['p', 'q'])],
           [('w', 'id', 'z', 'p', 'q')] + [(tuple(v),) + want2[i + 1] for i, v in enumerate(vals)])
        # unpackdict: the same values keyed p, q, r
        td = [['id', 'v', 'z']] + [[i + 1, dict(zip('pqr', v)), 51 + i] for i, v in enumerate(vals)]
        eq('unpackdict(keys=[p,q])', [tuple(r) for r in etl.unpackdict(td, 'v', keys=['p', 'q'])], want2)
        if any(len(v) >= 2 for v in vals):
            ks = sorted(set(k for v in vals for k in 'pqr'[:len(v)]))
            got = [tuple(r) for r in etl.unpackdict(td, 'v')]
            eq('unpackdict(sampled keys) header', got[0], ('id', 'z') + tuple(ks))
        # split / capture / splitdown on ' '-joined strings
        ts = [['id', 'v', 'z']] + [[i + 1, ' '.join('w%d' % x for x in v), 51 + i] for i, v in enumerate(vals)]
        if all(len(v) == 2 for v in vals):
            wants = [('id', 'z', 'p', 'q')] + [(i + 1, 51 + i, 'w%d' % v[0], 'w%d' % v[1]) for i, v in enumerate(vals)]
            eq('split', [tuple(r) for r in etl.split(ts, 'v', ' ', ['p', 'q'])], wants)
            eq('capture', [tuple(r) for r in etl.capture(ts, 'v', r'(\w+) (\w+)', ['p', 'q'])], wants)
            # the field given by INDEX, with and without the original field
            eq('capture(field index)', [tuple(r) for r in etl.capture(ts, 1, r'(\w+) (\w+)', ['p', 'q'])], wants)
            eq('split(field index)', [tuple(r) for r in etl.split(ts, 1, ' ', ['p', 'q'])], wants)
            wio = [('id', 'v', 'z', 'p', 'q')] + [tuple(ts[i + 1]) + tuple(wants[i + 1][2:]) for i in range(len(vals))]
            eq('capture(field index, include_original)', [tuple(r) for r in etl.capture(ts, 1, r'(\w+) (\w+)', ['p', 'q'], include_original=True)], wio)
            eq('capture(include_original)', [tuple(r) for r in etl.capture(ts, 'v', r'(\w+) (\w+)', ['p', 'q'], include_original=True)], wio)
            eq('split(field index, include_original)', [tuple(r) for r in etl.split(ts, 1, ' ', ['p', 'q'], include_original=True)], wio)
        if all(len(v) >= 2 for v in vals):
            # more pieces than new fields: every piece is still delivered (the row grows), nothing is lumped together
            wantx = [('id', 'z', 'p', 'q')] + [(i + 1, 51 + i) + tuple('w%d' % x for x in v) for i, v in enumerate(vals)]
            eq('split(surplus pieces)', [tuple(r) for r in etl.split(ts, 'v', ' ', ['p', 'q'])], wantx)
        if all(len(v) >= 1 for v in vals):
            wantd = [('id', 'v', 'z')] + [(i + 1, 'w%d' % x, 51 + i) for i, v in enumerate(vals) for x in v]
            eq('splitdown', [tuple(r) for r in etl.splitdown(ts, 'v', ' ')], wantd)
            eq('splitdown(field index)', [tuple(r) for r in etl.splitdown(ts, 1, ' ')], wantd)
        # the `flags` argument: the same pattern string first without and then with re.I (and the other way round)
        # must each behave like Python's re with exactly those flags
        import re as _re
        tf = [['id', 'v', 'z']] + [[i + 1, u'Xa%dxB%dXc' % (i, i), 51 + i] for i in range(max(1, len(vals)))]
        for order in ((0, _re.I), (_re.I, 0)):
            for fl in order:
                kwf = {'flags': fl} if fl else {}
                wsplit = [('id', 'z', 'p', 'q', 'r')] + [(r[0], r[2]) + tuple((_re.split(u'x', r[1], flags=fl) + [None, None, None])[:3]) for r in tf[1:]]
                got = [tuple(r) for r in etl.split(tf, 'v', u'x', ['p', 'q', 'r'], **kwf)]
                eq('split(pattern x, flags=%r) after the other flags' % fl, [tuple((list(r) + [None] * 5)[:5]) for r in got], wsplit)
                wdown = [('id', 'v', 'z')] + [(r[0], piece, r[2]) for r in tf[1:] for piece in _re.split(u'x', r[1], flags=fl)]
                eq('splitdown(pattern x, flags=%r)' % fl, [tuple(r) for r in etl.splitdown(tf, 'v', u'x', **kwf)], wdown)
                wsub = [('id', 'v', 'z')] + [(r[0], _re.sub(u'x', u'_', r[1], flags=fl), r[2]) for r in tf[1:]]
                eq('sub(pattern x, flags=%r)' % fl, [tuple(r) for r in etl.sub(tf, 'v', u'x', u'_', **kwf)], wsub)
                m = [_re.search(u'x(a\\d+)', r[1], flags=fl) for r in tf[1:]]
                if all(m):
                    wcap = [('id', 'z', 'g')] + [(r[0], r[2], mm.group(1)) for r, mm in zip(tf[1:], m)]
                    eq('capture(flags=%r)' % fl, [tuple(r) for r in etl.capture(tf, 'v', u'x(a\\d+)', ['g'], **kwf)], wcap)
                wsearch = [('id', 'v', 'z')] + [tuple(r) for r in tf[1:] if _re.search(u'xa', r[1], flags=fl)]
                eq('search(flags=%r)' % fl, [tuple(r) for r in etl.search(tf, 'v', u'xa', **kwf)], wsearch)
        # unpackdict without keys=: keys spelt like fields of the table (even like the unpacked field) are unpacked too
        tk = [['id', 'v', 'z']] + [[i + 1, {'v': 10 + i, 'id2': 20 + i, 'p': 30 + i}, 51 + i] for i in range(max(1, len(vals)))]
        got = [tuple(r) for r in etl.unpackdict(tk, 'v')]
        eq('unpackdict(sampled keys incl. one named like the unpacked field)', got,
           [('id', 'z', 'id2', 'p', 'v')] + [(r[0], r[2], r[1]['id2'], r[1]['p'], r[1]['v']) for r in tk[1:]])
    except Exception as e:
        problems.append('unpack family raised %r' % (e,))
    return problems


def record_traces(n, seed):
    import petl as etl
    rng = random.Random(seed)
    names = ['a', 'b', 'c', 'd']
    traces = []
    for _ in range(n):
        nf = rng.randrange(2, 5)
        nk = rng.randrange(1, nf)
        hdr = names[:nf]
        nrows = min(rng.randrange(0, 7), 4 ** nk)      # keys are unique over a 4-value alphabet
        keys = set()
        rows = []
        for i in range(nrows):
            while True:
                k = tuple(rng.randrange(0, 4) for _ in range(nk))
                if k not in keys:
                    keys.add(k)
                    break
            rows.append(list(k) + [rng.randrange(0, 50) for _ in range(nf - nk)])
        t = [hdr] + [[(None if (c == 0 and j < nk) else c) for j, c in enumerate(r)] for r in rows]

        def ab(x):
            return 0 if x is None else x
        rec = {'hdr': hdr, 'rows': rows, 'nk': nk, 'n': nf}
        try:
            kf = hdr[:nk]
            rec['molten'] = [[ab(c) for c in r] for r in etl.data(etl.melt(t, kf))]
            if nrows:
                rc = [list(r) for r in etl.recast(etl.melt(t, kf), key=kf)]
                rec['recast'] = {'hdr': rc[0], 'rows': [[ab(c) for c in r] for r in rc[1:]]}
            else:
                rec['recast'] = {'hdr': [], 'rows': []}
            rec['transpose'] = [[ab(c) for c in r] for r in etl.transpose(t)]
            rec['transpose2'] = [[ab(c) for c in r] for r in etl.transpose(etl.transpose(t))]
            rec['flat'] = [ab(c) for c in etl.flatten(t)]
            rec['unflat'] = [[ab(c) for c in r] for r in etl.data(etl.unflatten(etl.flatten(t), nf))]
            rec['raised'] = False
        except Exception as e:
            rec.update(molten=[], recast={'hdr': [], 'rows': []}, transpose=[], transpose2=[], flat=[], unflat=[], raised=True, exc=repr(e))
        traces.append(rec)
    return traces


def run(tier, seed):
    chk = Check(PID, tier, seed)
    full = tier == 'thorough'
    cases, ucases = common.gen('ReshapeGen', 'ReshapeGenT5' if full else 'ReshapeGen', outs=('OUT', 'OUT2'))
    chk.states += 1
    chk.transitions += 1
    profiles = ['ints', 'mixed', 'text', 'compound', 'equalreps']
    for ci, case in enumerate(cases):
        for pname in (profiles if full else [profiles[ci % 5], profiles[(ci + 1) % 5]]):
            probs = run_case(case, pname, ci)
            chk.count(('case', ci, pname))
            chk.replayed += 1
            for p in probs:
                chk.violation({'op': p.split('(')[0].split(' ')[0]}, 'rows=%r profile=%s: %s' % (case['rows'], pname, p),
                              {'kind': 'case', 'case': case, 'profile': pname, 'occ': ci})
    for ci, case in enumerate(ucases):
        probs = run_unpack_case(case)
        chk.count(('unpack', ci))
        chk.replayed += 1
        for p in probs:
            chk.violation({'op': p.split('(')[0].split(' ')[0]}, 'values=%r: %s' % (case['vals'], p), {'kind': 'unpack', 'case': case})
    chk.sample({'kind': 'reshape-case', 'rows': cases[100]['rows'], 'melt_a': cases[100]['melt']['a']['molten'][:4]})
    traces = record_traces(3000 if full else 400, seed)
    r, verdicts = common.validate('ReshapeTrace', traces)
    chk.add_tlc(r, 'ReshapeTrace')
    for tid, (bad, why) in sorted(verdicts.items()):
        t = traces[tid - 1]
        if bad or t['raised']:
            chk.violation({'op': why, 'kind': 'trace'}, 'recorded reshape outputs rejected by ReshapeTrace (clause %s%s): hdr=%r rows=%r nk=%d'
                          % (why, (', raised ' + t.get('exc', '')) if t['raised'] else '', t['hdr'], t['rows'], t['nk']),
                          {'kind': 'trace', 'seed': seed, 'trace': t})
    chk.validated += len(traces)
    chk.sample({'kind': 'reshape-trace', 'hdr': traces[5]['hdr'], 'rows': traces[5]['rows'], 'nk': traces[5]['nk'], 'recast': traces[5]['recast']})
    cand = [i for i, t in enumerate(traces) if len(t['molten']) >= 2]
    bad = json.loads(json.dumps([traces[cand[0]]]))
    bad[0]['molten'].pop()
    r2, v2 = common.validate('ReshapeTrace', bad, name='ReshapeTraceBad')
    ok = v2[1][0] != 0
    chk.binding_demo = {'corrupted': 'one molten row removed', 'verdict': list(v2[1]), 'rejected_as_expected': ok}
    if not ok and not chk.violations:
        raise tlc.MachineryError('binding demo failed')
    chk.exhaustive = True
    chk.assumptions = ['pivot column values / recast variable names are homogeneous (native sorted() is used there), as the design states',
                       'recast(melt) law on unique keys only; non-unique keys need reducers and are outside the statement']
    return chk.finish(rule='G: 259 rectangular tables (<= 3 rows) x 3 key choices x value profiles on melt/recast/transpose/flatten/'
                           'unflatten/pivot/dicts/columns; 241 unpack-family cases; V: random unique-key integer tables validated by ReshapeTrace')


def replay(path):
    with open(path) as f:
        rp = json.load(f)['replay']
    if rp['kind'] == 'case':
        probs = run_case(rp['case'], rp['profile'], rp['occ'])
    elif rp['kind'] == 'unpack':
        probs = run_unpack_case(rp['case'])
    else:
        print('trace replay: rerun ./check C14 with VERIF_SEED=%s' % rp['seed'])
        return 0
    print('\n'.join(probs) or 'holds')
    return 1 if probs else 0
