"""C10 - duplicates/unique/distinct/conflicts partition rows by key multiplicity.

TLC:  Dedup      - the previous/current scans (duplicates, unique, distinct with/without count, conflicts), one
                   action per loop iteration, against the multiplicity definitions (DedupDefs); partition law;
                   isunique <=> no duplicates; sensitivity run on the model of the code as found (F8).
G:    DedupGen   - every small rectangular table x key form (single, compound, None) replayed on the real
                   functions under value profiles, buffersizes, presorted.
V:    DedupTrace - Hypothesis tables validated by TLC.
"""
import json
import random

from harness import tlc, values, common
from harness.core import Check
from harness.concretize import PROFILES, ID_BASE

PID = 'C10'
ACTIONS = ['DupStep', 'UniqStart', 'UniqStep', 'UniqEnd', 'DistStep', 'DistCountStep', 'DistCountEnd', 'ScanEnd']
KEYARG = {'k': 'k', 'kv': ('k', 'v'), 'none': None}
HDR = ['k', 'v']


def run_case(case, pname, variant, occ=0):
    import petl as etl
    prof = PROFILES[pname]
    t = [list(HDR)] + [prof.row(r, occ + i) for i, r in enumerate(case['rows'])]
    key = KEYARG[case['key']]
    kw = dict(variant)
    if kw.pop('presorted', False):
        t = list(etl.sort(t, key))
        kw = {'presorted': True}
    problems, drifts = [], []

    def rows_of(v, hdr=tuple(HDR)):
        rows = [tuple(r) for r in v]
        if not rows or rows[0] != hdr:
            raise AssertionError('header %r, spec %r' % (rows[:1], hdr))
        return rows[1:]

    def expect(label, fn, want, bag_only=False):
        try:
            got = [list(prof.absrow(r)) for r in fn()]
        except Exception as e:
            problems.append('%s raised %r' % (label, e))
            return None
        if sorted(got) != sorted(want):
            problems.append('%s delivered %r, spec (multiset) %r' % (label, got, want))
        elif got != want and not bag_only:
            drifts.append('%s order %r, model %r' % (label, got, want))
        return got

    kk = {} if key is None else {'key': key}
    expect('duplicates', lambda: rows_of(etl.duplicates(t, **kk, **kw)), case['dup'])
    expect('unique', lambda: rows_of(etl.unique(t, **kk, **kw)), case['uniq'])
    expect('distinct', lambda: rows_of(etl.distinct(t, **kk, **kw)), case['dist'])
    try:
        got = rows_of(etl.distinct(t, count='n', **kk, **kw), hdr=('k', 'v', 'n'))
        gabs = [list(prof.absrow(r[:2])) for r in got]
        cnts = [r[2] for r in got]
        if sorted(zip(map(tuple, gabs), cnts)) != sorted(zip(map(tuple, case['dist']), case['counts'])) \
           or sum(cnts) != len(case['rows']):
            problems.append('distinct(count) delivered %r counts %r, spec %r counts %r' % (gabs, cnts, case['dist'], case['counts']))
    except Exception as e:
        problems.append('distinct(count) raised %r' % (e,))
    if key is not None and not kw:
        try:
            got = etl.isunique(t, key)
            if got != case['isunique']:
                problems.append('isunique %r, spec %r' % (got, case['isunique']))
        except Exception as e:
            problems.append('isunique raised %r' % (e,))
    # the key SPELLED differently (field indices - index 0 is falsy -, one-element tuple / list)
    if key is not None and not kw.get('presorted'):
        for sp in ({'k': [0, ('k',), [0]], 'kv': [(0, 1), ['k', 'v'], ('k', 1)]}[case['key']]):
            expect('duplicates(key=%r)' % (sp,), lambda: rows_of(etl.duplicates(t, key=sp, **kw)), case['dup'])
            expect('unique(key=%r)' % (sp,), lambda: rows_of(etl.unique(t, key=sp, **kw)), case['uniq'])
            expect('distinct(key=%r)' % (sp,), lambda: rows_of(etl.distinct(t, key=sp, **kw)), case['dist'])
            try:
                got = rows_of(etl.distinct(t, key=sp, count='n', **kw), hdr=('k', 'v', 'n'))
                if sorted((tuple(prof.absrow(r[:2])), r[2]) for r in got) != sorted(zip(map(tuple, case['dist']), case['counts'])):
                    problems.append('distinct(key=%r, count) delivered %r, spec %r counts %r' % (sp, got, case['dist'], case['counts']))
                if not kw and etl.isunique(t, sp) != case['isunique']:
                    problems.append('isunique(key=%r) %r, spec %r' % (sp, etl.isunique(t, sp), case['isunique']))
            except Exception as e:
                problems.append('distinct(key=%r, count) / isunique raised %r' % (sp, e))
    if case['key'] == 'kv' and not kw:
        # (a) a header that repeats a field name, the key naming it twice = both columns; (b) the input is itself a sort
        # view on a compound key of which the dedup key is NOT a leading part
        try:
            ta = [['a', 'a', 'x']] + [list(r) + [i] for i, r in enumerate(t[1:])]
            for label, fn, want in (('duplicates', etl.duplicates, case['dup']), ('unique', etl.unique, case['uniq']), ('distinct', etl.distinct, case['dist'])):
                got = [list(prof.absrow(r[:2])) for r in fn(ta, key=('a', 'a'))][1:]
                if sorted(got) != sorted(want):
                    problems.append("%s(key=('a','a')) on header (a, a, x) delivered %r, spec (multiset) %r" % (label, got, want))
        except Exception as e:
            problems.append("dedup with key=('a','a') on a repeated field name raised %r" % (e,))
    if case['key'] == 'k' and not kw:
        try:
            sv = etl.sort(t, ('v', 'k'))
            for label, fn, want in (('duplicates', etl.duplicates, case['dup']), ('unique', etl.unique, case['uniq']), ('distinct', etl.distinct, case['dist'])):
                got = [list(prof.absrow(r)) for r in fn(sv, key='k')][1:]
                if sorted(got) != sorted(want) and label != 'distinct':
                    problems.append('%s(sort(t, (v, k)), key=k) delivered %r, spec (multiset) %r' % (label, got, want))
                if label == 'distinct' and sorted(r[0] for r in got) != sorted(r[0] for r in want):
                    problems.append('distinct(sort(t, (v, k)), key=k) delivered keys %r, spec %r' % ([r[0] for r in got], [r[0] for r in want]))
        except Exception as e:
            problems.append('dedup over a sort view raised %r' % (e,))
    if case['key'] == 'k' and not kw:
        # include / exclude given as ONE field name (a string) while another field's name is a substring of it
        try:
            t3 = [['k', 'v', 'vx', u'']] + [list(r) + [7, 8] for r in t[1:]]
            base = [tuple(r) for r in etl.conflicts(t, 'k')][1:]
            for label, ckw, want in (("conflicts(include='vx')", {'include': 'vx'}, []),
                                     ("conflicts(exclude='vx')", {'exclude': 'vx'}, [r + (7, 8) for r in base]),
                                     ("conflicts(include='v')", {'include': 'v'}, [r + (7, 8) for r in base]),
                                     ("conflicts(exclude='v')", {'exclude': 'v'}, []),
                                     ("conflicts(include=('vx', ''))", {'include': ('vx', u'')}, []),
                                     ("conflicts(exclude=['v'])", {'exclude': ['v']}, [])):
                got = [tuple(r) for r in etl.conflicts(t3, 'k', **ckw)][1:]
                if got != want:
                    problems.append('%s on fields (k, v, vx, \'\') delivered %r, spec %r' % (label, got, want))
        except Exception as e:
            problems.append('conflicts(include/exclude) raised %r' % (e,))
    if case['key'] == 'k':
        # missing=None (default) and missing=<the value abstract 1> (an equal but possibly distinct representative)
        for label, mkw, fa, fs in (('conflicts', {}, 'callowed', 'cscan'),
                                   ('conflicts(missing=1)', {'missing': prof.conc(1, occ + 7)}, 'callowed1', 'cscan1')):
            try:
                got = [list(prof.absrow(r)) for r in rows_of(etl.conflicts(t, 'k', **mkw, **kw))]
                pool = [tuple(r) for r in case[fa]]
                ok = True
                for r in got:
                    if tuple(r) in pool:
                        pool.remove(tuple(r))
                    else:
                        ok = False
                if not ok:
                    problems.append('%s delivered %r, not within the rows of disagreeing duplicate groups %r' % (label, got, case[fa]))
                elif got != case[fs]:
                    drifts.append('%s delivered %r, model scan %r' % (label, got, case[fs]))
            except Exception as e:
                problems.append('%s raised %r' % (label, e))
    return problems, drifts


def _job(j):
    ci, case, pname, variant = j
    return run_case(case, pname, variant, occ=ci)


def check_cases(chk, cases, profiles, full):
    variants = [{}, {'buffersize': 1}, {'buffersize': 2, 'cache': False}, {'presorted': True}]
    jobs = []
    for ci, case in enumerate(cases):
        # thorough: every value profile on the plain call, every strategy variant on two rotating profiles
        combos = ([(p, {}) for p in profiles] + [(profiles[(ci + k) % len(profiles)], v) for k in (0, 3) for v in variants[1:]]) if full else \
            [(profiles[ci % len(profiles)], {}), (profiles[(ci + 1) % len(profiles)], variants[1 + ci % 3])]
        jobs += [(ci, case, pname, variant) for pname, variant in combos]
    for (ci, case, pname, variant), (probs, drifts) in zip(jobs, common.pmap(_job, jobs)):
        if True:
            chk.count(('dedup', ci, pname, json.dumps(variant, sort_keys=True)))
            chk.replayed += 1
            for p in probs:
                chk.violation({'op': p.split(' ')[0], 'nrows': len(case['rows'])},
                              'rows=%r key=%r profile=%s variant=%r: %s' % (case['rows'], KEYARG[case['key']], pname, variant, p),
                              {'kind': 'dedup', 'case': case, 'profile': pname, 'variant': variant, 'occ': ci})
            for d in drifts:
                chk.add_drift('rows=%r key=%r: %s' % (case['rows'], case['key'], d))
    chk.sample({'kind': 'dedup-case', 'case': cases[len(cases) // 2]})


def record_traces(n_examples, seed):
    import petl as etl
    from hypothesis import given, strategies as st, seed as hseed
    traces, concrete = [], []
    cell = common.cell_values()

    @hseed(seed)
    @common.hyp_settings(n_examples, seed)
    @given(st.lists(st.tuples(cell, st.sampled_from([None, 1, 2, u'x'])), max_size=25), st.sampled_from([None, 1, 3]))
    def go(rows, bs):
        rows = [(rows[i // 2][0], r[1]) if i % 3 == 0 else r for i, r in enumerate(rows)]   # repeat keys
        keys = [r[0] for r in rows]
        try:
            hash(tuple(keys))
        except TypeError:
            return
        ids = {}
        K = []
        for k in keys:
            kk = (values.classify(k) if not isinstance(k, (list, tuple)) else 'seq', k) if False else k
            K.append(ids.setdefault(_eqkey(k), len(ids) + 1))
        vmap = {None: 0, 1: 1, 2: 2, u'x': 3}
        V = [vmap[r[1]] for r in rows]
        t = [['k', 'v', 'id']] + [[r[0], r[1], ID_BASE + i + 1] for i, r in enumerate(rows)]
        raised = None
        out = {}
        with common.private_tmp() as tmp:
            kw = dict(buffersize=bs, tempdir=tmp)
            try:
                out['dup'] = [r[2] - ID_BASE for r in etl.data(etl.duplicates(t, 'k', **kw))]
                out['uniq'] = [r[2] - ID_BASE for r in etl.data(etl.unique(t, 'k', **kw))]
                out['dist'] = [r[2] - ID_BASE for r in etl.data(etl.distinct(t, 'k', **kw))]
                dc = list(etl.data(etl.distinct(t, 'k', count='n', **kw)))
                out['counts'] = [r[3] for r in dc]
                if [r[2] - ID_BASE for r in dc] != out['dist']:
                    out['counts'] = [-1]
                out['isunique'] = bool(etl.isunique(t, 'k'))
                out['conf'] = [r[2] - ID_BASE for r in etl.data(etl.conflicts(etl.cut(t, 'k', 'v', 'id'), 'k', exclude='id', **kw))]
            except Exception as e:
                raised = repr(e)
        if raised:
            out = {'dup': [], 'uniq': [], 'dist': [], 'counts': [], 'isunique': False, 'conf': []}
        tr = {'K': K, 'V': V, 'raised': raised is not None, 'exc': raised or ''}
        tr.update(out)
        traces.append(tr)
        concrete.append({'rows': [repr(r) for r in rows], 'buffersize': bs})
    go()
    # LARGE tables (the chunked sort behind every dedup operator: > 64 chunk files, > 256 rows per chunk)
    rng = random.Random(seed)
    for n, bs in ((343, 3), (343, 5), (700, 300), (130, 1)):
        keys = [rng.choice([None, 1, 2, 3, u'x', 2.5, 7, 8]) for _ in range(n)]
        ids = {}
        K = [ids.setdefault(k, len(ids) + 1) for k in keys]
        V = [rng.choice([0, 1, 2]) for _ in range(n)]
        vconc = {0: None, 1: 1, 2: 2}
        t = [['k', 'v', 'id']] + [[k, vconc[v], ID_BASE + i + 1] for i, (k, v) in enumerate(zip(keys, V))]
        out, raised = {}, None
        with common.private_tmp() as tmp:
            kw = dict(buffersize=bs, tempdir=tmp)
            try:
                out['dup'] = [r[2] - ID_BASE for r in etl.data(etl.duplicates(t, 'k', **kw))]
                out['uniq'] = [r[2] - ID_BASE for r in etl.data(etl.unique(t, 'k', **kw))]
                out['dist'] = [r[2] - ID_BASE for r in etl.data(etl.distinct(t, 'k', **kw))]
                dc = list(etl.data(etl.distinct(t, 'k', count='n', **kw)))
                out['counts'] = [r[3] for r in dc]
                out['isunique'] = bool(etl.isunique(t, 'k'))
                out['conf'] = [r[2] - ID_BASE for r in etl.data(etl.conflicts(etl.cut(t, 'k', 'v', 'id'), 'k', exclude='id', **kw))]
            except Exception as e:
                raised = repr(e)
                out = {'dup': [], 'uniq': [], 'dist': [], 'counts': [], 'isunique': False, 'conf': []}
        tr = {'K': K, 'V': V, 'raised': raised is not None, 'exc': raised or ''}
        tr.update(out)
        traces.append(tr)
        concrete.append({'rows': '%d rows over 8 key values' % n, 'buffersize': bs})
    return traces, concrete


def _eqkey(k):
    """dictionary key realising Python equality + hash on the value domain (1 == 1.0 == True)."""
    return k


def validate_traces(chk, traces, concrete, seed):
    if not traces:
        raise tlc.MachineryError('no dedup traces recorded')
    r, verdicts = common.validate('DedupTrace', traces)
    chk.add_tlc(r, 'DedupTrace')
    for tid, (bad, why) in sorted(verdicts.items()):
        tr = traces[tid - 1]
        if bad or tr['raised']:
            chk.violation({'op': why, 'kind': 'trace'},
                          'recorded dedup execution rejected by DedupTrace (clause %s%s): %r'
                          % (why, (', raised ' + tr['exc']) if tr['raised'] else '', concrete[tid - 1]),
                          {'kind': 'trace', 'seed': seed, 'concrete': concrete[tid - 1], 'trace': tr})
    chk.validated += len(traces)
    chk.sample({'kind': 'trace', 'concrete': concrete[len(concrete) // 2], 'trace': traces[len(traces) // 2]})
    cand = [i for i, t in enumerate(traces) if len(t['dup']) >= 1]
    if cand:
        bad = json.loads(json.dumps([traces[cand[0]]]))
        bad[0]['dup'].pop()
        r2, v2 = common.validate('DedupTrace', bad, name='DedupTraceBad')
        ok = v2[1][0] == 1
        chk.binding_demo = {'corrupted': 'last row removed from the recorded duplicates() output', 'verdict': list(v2[1]),
                            'rejected_as_expected': ok}
        if not ok and not chk.violations:
            raise tlc.MachineryError('binding demo failed: corrupted dedup trace accepted')


def sensitivity(chk):
    r = tlc.run('Dedup', cfg='DedupOrig', timeout=600)
    if r.error:
        raise tlc.MachineryError('DedupOrig: ' + r.error)
    if not r.violated:
        raise tlc.MachineryError('DedupOrig (model of the unrepaired distinct(count)) passed: spec lost its sensitivity')
    chk.note('sensitivity: Dedup with Variant="orig" violates %s on a table without data rows (distinctcount)' % r.violated)


def run(tier, seed):
    chk = Check(PID, tier, seed)
    full = tier == 'thorough'
    cfg = 'DedupMC' if full else 'DedupMCq'
    r = tlc.require_ok(tlc.run('Dedup', cfg=cfg, timeout=1800), 'Dedup')
    tlc.check_coverage(r, ACTIONS, 'Dedup')
    chk.add_tlc(r, 'Dedup', cfg, ACTIONS)
    sensitivity(chk)
    cases = common.gen('DedupGen', 'DedupGen' if full else 'DedupGenq')
    profiles = ['ints', 'mixed', 'text', 'compound', 'equalreps', 'collide'] if full else ['ints', 'mixed', 'equalreps', 'collide']
    check_cases(chk, cases, profiles, full)
    traces, concrete = record_traces(2500 if full else 300, seed)
    validate_traces(chk, traces, concrete, seed)
    from harness import algebra
    algebra.run(chk, ['A6'], full, seed)
    chk.exhaustive = True
    chk.assumptions = ['rectangular tables as C10 states; conflicts: only the soundness clause is property-level, the exact '
                       'adjacent-pair scan is model-level (DRIFT)',
                       'bounds: scan model <= %d rows over 3 keys x 3 values; generated tables <= %d rows' % (5 if full else 4, 4 if full else 3)]
    return chk.finish(rule='G: every TLC-generated (table, key form) x 6 operator calls x value profile x strategy variant; '
                           'V: Hypothesis tables (<= 25 rows) validated by DedupTrace; distinct = (case, profile, variant)')


def replay(path):
    with open(path) as f:
        rp = json.load(f)['replay']
    if rp['kind'] == 'dedup':
        probs, _ = run_case(rp['case'], rp['profile'], rp['variant'], rp['occ'])
        print('\n'.join(probs) or 'holds')
        return 1 if probs else 0
    print('trace replay: rerun ./check C10 with VERIF_SEED=%s; concrete: %r' % (rp['seed'], rp['concrete']))
    return 0
