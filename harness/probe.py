"""Observation from outside petl (DESIGN.md 2.3): an instrumented source table."""


class InjectedFailure(Exception):
    """Raised by a ProbeTable at a chosen pull index (failure injection)."""


class ProbeTable(object):
    """A table container around a list of lists.

    * counts every row it hands out (`pulls`, header included) and every iterator it creates;
    * optionally raises InjectedFailure instead of delivering pull number `fail_at`
      (0 = the header, i = data row i, len(rows)+1 = at exhaustion);
    * its contents are a function of an editable `version`, so a pass reveals which version it read;
    * can hand out fresh mutable lists or the stored row objects themselves (aliasing tests).
    """

    def __init__(self, hdr, rows=None, rowfn=None, fail_at=None, alias=False, log=None, name='src', exc=None):
        self.hdr = hdr
        self._rows = rows
        self.rowfn = rowfn        # version -> list of rows
        self.version = 1
        self.fail_at = fail_at
        self.exc = exc or InjectedFailure      # exception class raised at the failure point
        self.alias = alias
        self.pulls = 0
        self.datapulls = 0
        self.iters = 0
        self.log = log
        self.name = name
        self.stops = 0

    def rows(self):
        return self.rowfn(self.version) if self.rowfn else self._rows

    def __iter__(self):
        self.iters += 1
        return self._gen(self.iters)

    def _gen(self, itid):
        rows = self.rows()
        if self.fail_at == 0:
            raise self.exc('header')
        self.pulls += 1
        if self.log is not None:
            self.log.append(('pull', self.name, itid, 0))
        yield self.hdr if self.alias else tuple(self.hdr)
        for i, r in enumerate(rows):
            if self.fail_at == i + 1:
                raise self.exc('row %d' % (i + 1))
            self.pulls += 1
            self.datapulls += 1
            if self.log is not None:
                self.log.append(('pull', self.name, itid, i + 1))
            yield r if self.alias else list(r)
        if self.fail_at == len(rows) + 1:
            raise self.exc('exhaustion')
        self.stops += 1
        if self.log is not None:
            self.log.append(('stop', self.name, itid, len(rows) + 1))
