"""Shared by C06 / C07 / C11: build concrete join inputs from a JoinGen case, run an operator,
project the result back to the abstract domain, compare at property level (header, bag of rows,
key-group order) and at model level (exact sequence -> DRIFT)."""
import itertools

from harness.concretize import PROFILES, ID_BASE

LAYOUT = {
    'same': dict(lh=['k', 'a'], rh=['k', 'b'], lkey='k', rkey='k', lkidx=[0]),
    'diff': dict(lh=['k', 'a'], rh=['b', 'j'], lkey='k', rkey='j', lkidx=[0]),
    'compound': dict(lh=['k', 'j', 'a'], rh=['k', 'j', 'b'], lkey=('k', 'j'), rkey=('k', 'j'), lkidx=[0, 1]),
    'cswap': dict(lh=['k', 'j', 'a'], rh=['j', 'k', 'b'], lkey=('k', 'j'), rkey=('k', 'j'), lkidx=[0, 1]),
}
MERGE_FN = {'join': 'join', 'left': 'leftjoin', 'right': 'rightjoin', 'outer': 'outerjoin', 'anti': 'antijoin',
            'lookup': 'lookupjoin'}
HASH_FN = {'join': 'hashjoin', 'left': 'hashleftjoin', 'right': 'hashrightjoin', 'anti': 'hashantijoin',
           'lookup': 'hashlookupjoin'}


def _intnames(case):
    if case['lay'] == 'diff':
        return {}                 # different key names: no natural key, the variant does not apply
    return {'k': 2, 'j': 0} if case['lay'] in ('compound', 'cswap') else {'k': 1}


def tables(case, prof, occ=0):
    lay = LAYOUT[case['lay']]
    left = [list(lay['lh'])] + [prof.row(r, occ + i) for i, r in enumerate(case['left'])]
    right = [list(lay['rh'])] + [prof.row(r, occ + 3 + i) for i, r in enumerate(case['right'])]
    return left, right


def header(case, lprefix=None, rprefix=None):
    out = []
    for side, f in case['hdr']:
        p = lprefix if side == 'L' else rprefix
        out.append(f if p is None else (str(p) + str(f)))
    return tuple(out)


def kwargs(case, prof, variant):
    """variant: dict with optional natural / prefix / presorted / buffersize / cache."""
    lay = LAYOUT[case['lay']]
    kw = {}
    if variant.get('natural') and case['lay'] in ('same', 'compound', 'cswap'):
        pass   # no key arguments: natural join on the common fields
    elif variant.get('indexkey'):
        # the key given as field INDICES (index 0 is falsy); with 'sharednames' the natural key would be wider
        li = [lay['lh'].index(f) for f in ([lay['lkey']] if not isinstance(lay['lkey'], tuple) else lay['lkey'])]
        ri = [lay['rh'].index(f) for f in ([lay['rkey']] if not isinstance(lay['rkey'], tuple) else lay['rkey'])]
        if li == ri:
            kw['key'] = li[0] if len(li) == 1 else tuple(li)
        else:
            kw['lkey'], kw['rkey'] = (li[0] if len(li) == 1 else tuple(li)), (ri[0] if len(ri) == 1 else tuple(ri))
    elif lay['lkey'] == lay['rkey']:
        kw['key'] = lay['lkey']
    else:
        kw['lkey'], kw['rkey'] = lay['lkey'], lay['rkey']
    if case['op'] not in ('join', 'anti') and (case['missing'] != 0 or variant.get('passmissing')):
        kw['missing'] = prof.conc(case['missing'])
    if variant.get('prefix') and case['op'] != 'anti':
        kw['lprefix'], kw['rprefix'] = 'L_', 'R_'
    for k in ('buffersize', 'cache', 'tempdir'):
        if k in variant:
            kw[k] = variant[k]
    return kw


def compare(case, prof, got, variant, ordered='key'):
    """Returns (violation message or None, drift message or None)."""
    lay = LAYOUT[case['lay']]
    want_hdr = header(case, 'L_' if variant.get('prefix') and case['op'] != 'anti' else None,
                      'R_' if variant.get('prefix') and case['op'] != 'anti' else None)
    if variant.get('sharednames'):
        want_hdr = tuple('a' if f == 'b' else f for f in want_hdr)
    if variant.get('intnames'):
        ren = _intnames(case)
        want_hdr = tuple(ren.get(f, f) for f in want_hdr)
    if not got:
        return 'no header row delivered', None
    if tuple(got[0]) != want_hdr:
        return 'header %r, spec %r' % (tuple(got[0]), want_hdr), None
    try:
        gabs = [tuple(prof.absrow(r)) for r in got[1:]]
    except KeyError as e:
        return 'output cell %s is not a value of the inputs: rows %r' % (e, got[1:]), None
    want = [tuple(r) for r in case['rows']]
    if sorted(gabs) != sorted(want):
        return 'rows (as multiset) %r, spec %r' % (sorted(gabs), sorted(want)), None
    if ordered == 'key':
        gk = [k for k, _ in itertools.groupby([tuple((r[i] if i < len(r) else 0) for i in lay['lkidx']) for r in gabs])]
        wk = [k for k, _ in itertools.groupby([tuple(k) for k in case['keys']])]
        if gk != wk:
            return 'key groups in order %r, spec (ascending) %r' % (gk, wk), None
    if gabs != want:
        return None, 'row order inside key groups differs from the model: %r vs %r' % (gabs, want)
    return None, None


def run_merge(case, prof, variant, occ=0):
    import petl as etl
    left, right = tables(case, prof, occ)
    kw = kwargs(case, prof, variant)
    if variant.get('presorted'):
        lay = LAYOUT[case['lay']]
        if case['op'] != 'anti':
            m = prof.conc(case['missing'])
            left, right = etl.stack(left, missing=m), etl.stack(right, missing=m)
        left = list(etl.sort(left, lay['lkey']))
        right = list(etl.sort(right, lay['rkey']))
        kw['presorted'] = True
    if variant.get('sharednames'):
        right = [['a' if f == 'b' else f for f in right[0]]] + right[1:]
    if variant.get('intnames'):
        # the common fields are NAMED by ints (names, not positions: the natural key is found by name)
        ren = _intnames(case)
        left = [[ren.get(f, f) for f in left[0]]] + left[1:]
        right = [[ren.get(f, f) for f in right[0]]] + right[1:]
    if variant.get('inputs') == 'revsorted' and all(len(r) == len(left[0]) for r in left[1:]) and all(len(r) == len(right[0]) for r in right[1:]):
        # (rectangular inputs only: sorting raw short rows would reorder rows whose keys coincide only once padded)
        # the inputs are themselves views: sort views in DESCENDING key order (the join has to sort for itself)
        lay = LAYOUT[case['lay']]
        left, right = etl.sort(left, lay['lkey'], reverse=True), etl.sort(right, lay['rkey'], reverse=True)
    fn = getattr(etl, MERGE_FN[case['op']])
    v = fn(left, right, **kw)
    return [tuple(r) for r in v]
