"""C13 - selections return exactly the satisfying rows; complement is the exact rest.

TLC:  Select / SelectGen - definitions of every selector over ragged tables (missing cells read as None, comparisons
                    under Ordering.tla), ISlice = itertools.islice; laws checked on every small table: select + complement
                    partition the input in order; lt/ge, le/gt, eq/ne, none/notnone exact complements; head/skip/tail are
                    islice instances.
G:    every generated (table, field, reference) case on the real select*/rowlenselect/select(lambda)/biselect/facet/
      search functions with complement on and off under value profiles; every slice triple on rowslice/head/tail/skip.
V:    Hypothesis columns of concrete values x comparison / range selectors, validated by SelectTrace.
"""
import itertools
import json
import random

from harness import tlc, values, common
from harness.core import Check
from harness.concretize import PROFILES

PID = 'C13'
HDR = ['a', 'b']
SELFN = {'eq': 'selecteq', 'ne': 'selectne', 'lt': 'selectlt', 'le': 'selectle', 'gt': 'selectgt', 'ge': 'selectge',
         'none': 'selectnone', 'notnone': 'selectnotnone', 'true': 'selecttrue', 'false': 'selectfalse'}
REFS = [0, 1, 2, 3]


def run_sel_case(case, pname, occ=0):
    import petl as etl
    prof = PROFILES[pname]
    rows = [prof.row([c if c != 9 else 5 for c in r], occ + i) for i, r in enumerate(case['rows'])]
    t = [list(HDR)] + rows
    fld = HDR[case['f'] - 1]
    ref = prof.conc(case['ref'], occ + 3)
    n = len(rows)
    problems = []

    def want_rows(pos):
        return [tuple(rows[p - 1]) for p in pos]

    def rest(pos):
        return [p for p in range(1, n + 1) if p not in pos]

    def check(label, fn, pos):
        try:
            got = [tuple(r) for r in fn()]
        except Exception as e:
            problems.append('%s raised %r' % (label, e))
            return
        if got[:1] != [tuple(HDR)] or got[1:] != want_rows(pos):
            problems.append('%s delivered %r, spec rows at positions %r = %r' % (label, got[1:], pos, want_rows(pos)))

    for nm, fname in SELFN.items():
        pos = case['sel'][nm]
        f = getattr(etl, fname)
        if nm in ('none', 'notnone', 'true', 'false'):
            check(fname, lambda: f(t, fld), pos)
            check(fname + '(complement)', lambda: f(t, fld, complement=True), rest(pos))
        else:
            check('%s(%r)' % (fname, ref), lambda: f(t, fld, ref), pos)
            check('%s(%r, complement)' % (fname, ref), lambda: f(t, fld, ref, complement=True), rest(pos))
    for nm, byhi in case['range'].items():
        for hi_idx, pos in enumerate(byhi):
            hi = prof.conc(REFS[hi_idx], occ + 5)
            check('select%s(%r, %r)' % (nm, ref, hi), lambda: getattr(etl, 'select' + nm)(t, fld, ref, hi), pos)
            check('select%s(%r, %r, complement)' % (nm, ref, hi), lambda: getattr(etl, 'select' + nm)(t, fld, ref, hi, complement=True), rest(pos))
    inset = (ref, prof.conc(1, occ + 9))
    check('selectin', lambda: etl.selectin(t, fld, inset), case['isin'])
    check('selectnotin', lambda: etl.selectnotin(t, fld, inset), rest(case['isin']))
    check('selectis(None)', lambda: etl.selectis(t, fld, None), case['sel']['none'])
    check('selectisnot(None)', lambda: etl.selectisnot(t, fld, None), case['sel']['notnone'])
    for ln, pos in case['rowlen'].items():
        check('rowlenselect(%s)' % ln, lambda: etl.rowlenselect(t, int(ln)), pos)
        check('rowlenselect(%s, complement)' % ln, lambda: etl.rowlenselect(t, int(ln), complement=True), rest(pos))
    # predicates returning non-bool truth values (the cell itself / None / ''): selection is by truthiness, XOR complement
    tpos = case['sel']['true']
    check('select(field, lambda v: v)', lambda: etl.select(t, fld, lambda v: v), tpos)
    check('select(field, lambda v: v, complement)', lambda: etl.select(t, fld, lambda v: v, complement=True), rest(tpos))
    check('select(field, lambda v: None if falsy)', lambda: etl.select(t, fld, lambda v: (v or None) and 'yes'), tpos)
    check('select(field, returns "")', lambda: etl.select(t, fld, lambda v: '' if v is None else [v], complement=True), rest(tpos))
    try:
        y2, n2 = etl.biselect(t, fld, lambda v: v)
        check('biselect(field)[0]', lambda: y2, tpos)
        check('biselect(field)[1]', lambda: n2, rest(tpos))
    except Exception as e:
        problems.append('biselect(field) raised %r' % (e,))
    if pname == 'text' and all(len(r) >= case['f'] for r in case['rows']):
        # selectin with a STRING as the container: Python's `in` is then the substring test (the documented predicate
        # is literally `v in value`)
        import re as _re2
        container = u''.join(prof.conc(x) for x in (1, 2)) + u'zz'
        wantp = [p for p, r in enumerate(rows, 1) if isinstance(r[case['f'] - 1], str) and r[case['f'] - 1] in container]
        if all(isinstance(r[case['f'] - 1], str) for r in rows):
            check('selectin(string container)', lambda: etl.selectin(t, fld, container), wantp)
            check('selectnotin(string container)', lambda: etl.selectnotin(t, fld, container), rest(wantp))
            # multi-character cells: substrings of the container that are not characters of it, the empty string
            # (a substring of everything), and cells whose characters all occur in the container but not adjacently
            fi = case['f'] - 1
            t2 = [list(t[0])] + [list(r[:fi]) + [(u'' if r[fi] == prof.conc(2) else r[fi] + u'q' + (u'' if r[fi] != prof.conc(3) else prof.conc(1)))]
                                 + list(r[fi + 1:]) for r in rows]
            cont2 = prof.conc(1) + u'q' + prof.conc(3) + u'q'
            wp2 = [p for p, r in enumerate(t2[1:], 1) if r[fi] in cont2]

            def check2(label, fn, want_pos):
                try:
                    got = [tuple(r) for r in fn()][1:]
                except Exception as e:
                    problems.append('%s raised %r' % (label, e))
                    return
                want = [tuple(t2[p]) for p in want_pos]
                if got != want:
                    problems.append('%s delivered %r, the rows with `v in %r` are %r' % (label, got, cont2, want))
            check2('selectin(string container, multi-character cells)', lambda: etl.selectin(t2, fld, cont2), wp2)
            check2('selectnotin(string container, multi-character cells)', lambda: etl.selectnotin(t2, fld, cont2),
                   [p for p in range(1, len(t2)) if p not in wp2])
            # the same pattern searched first without and then with flags: flags must not be forgotten
            pat = prof.conc(1).lower() if prof.conc(1).lower() != prof.conc(1) else prof.conc(1).upper()
            w0 = [p for p, r in enumerate(rows, 1) if _re2.search(pat, r[case['f'] - 1])]
            w1 = [p for p, r in enumerate(rows, 1) if _re2.search(pat, r[case['f'] - 1], _re2.I)]
            check('search(%r)' % pat, lambda: etl.search(t, fld, pat), w0)
            check('search(%r, flags=re.I) after the same pattern without flags' % pat, lambda: etl.search(t, fld, pat, flags=_re2.I), w1)
    # whole-row search with an anchored pattern: a row matches iff SOME cell, rendered as text, matches
    if pname in ('text', 'ints'):
        import re as _re
        pat = '^' + _re.escape(str(ref)) + '$'
        check('search(whole row, %r)' % pat, lambda: etl.search(t, pat), case['anycell'])
        check('searchcomplement(whole row, %r)' % pat, lambda: etl.searchcomplement(t, pat), rest(case['anycell']))
    # row predicates (Record access; a missing field reads as `missing`), biselect, facet
    pos = case['sel']['none']
    check('select(lambda rec)', lambda: etl.select(t, lambda r: r[fld] is None), pos)
    check('select(lambda rec, complement)', lambda: etl.select(t, lambda r: r[fld] is None, complement=True), rest(pos))
    check('select(expr string)', lambda: etl.select(t, '{%s} is None' % fld), pos)
    try:
        yes, no = etl.biselect(t, lambda r: r[fld] is None)
        check('biselect[0]', lambda: yes, pos)
        check('biselect[1]', lambda: no, rest(pos))
    except Exception as e:
        problems.append('biselect raised %r' % (e,))
    # biselect with a non-default `missing`: both tables are cut with the SAME predicate on the same padded records
    try:
        mk_ = prof.conc(2)
        pred = lambda r: r[fld] == mk_
        yes, no = etl.biselect(t, pred, missing=mk_)
        ref_yes = [tuple(r) for r in etl.select(t, pred, missing=mk_)]
        ref_no = [tuple(r) for r in etl.select(t, pred, missing=mk_, complement=True)]
        gy, gn = [tuple(r) for r in yes], [tuple(r) for r in no]
        wantp = [p for p, r in enumerate(case['rows'], 1) if (r[case['f'] - 1] if len(r) >= case['f'] else 2) == 2]
        if gy != ref_yes or gn != ref_no or gy[1:] != want_rows(wantp) or gn[1:] != want_rows(rest(wantp)):
            problems.append('biselect(missing=%r) delivered %r / %r, spec rows at %r / the rest' % (mk_, gy[1:], gn[1:], wantp))
    except Exception as e:
        problems.append('biselect(missing) raised %r' % (e,))
    # equality selections use plain ==: a LIST cell never equals a TUPLE reference (and vice versa)
    try:
        tl = [list(t[0])] + [[([c, 1] if i == case['f'] - 1 else c) for i, c in enumerate(r)] for r in rows]
        if all(len(r) >= case['f'] for r in rows):
            refv = (rows[0][case['f'] - 1], 1) if rows else (0, 1)
            for label, fn, want_all in (('selecteq(list cell, tuple reference)', lambda: etl.selecteq(tl, fld, refv), False),
                                        ('selectne(list cell, tuple reference)', lambda: etl.selectne(tl, fld, refv), True),
                                        ('selecteq(list cell, equal list reference)', lambda: etl.selecteq(tl, fld, list(refv)), None),
                                        ('selectin(list cell, (tuple,))', lambda: etl.selectin(tl, fld, (refv,)), False)):
                got = [tuple(map(repr, r)) for r in fn()][1:]
                allr = [tuple(map(repr, r)) for r in tl[1:]]
                if want_all is None:
                    want = [tuple(map(repr, r)) for r in tl[1:] if r[case['f'] - 1] == list(refv)]
                else:
                    want = allr if want_all else []
                if got != want:
                    problems.append('%s on cells %r delivered %r, plain == gives %r' % (label, [r[case['f'] - 1] for r in tl[1:]], got, want))
    except Exception as e:
        problems.append('selecteq on list cells raised %r' % (e,))
    if all(len(r) >= case['f'] for r in case['rows']):
        try:
            fc = etl.facet(t, fld)
            got = {}
            for k, tab in fc.items():
                got[prof.abs(k)] = [tuple(r) for r in tab][1:]
            want = {}
            for p, r in enumerate(case['rows'], 1):
                want.setdefault(r[case['f'] - 1], []).append(tuple(rows[p - 1]))
            if got != want:
                problems.append('facet tables %r, spec %r' % (got, want))
        except Exception as e:
            problems.append('facet raised %r' % (e,))
    # search / searchcomplement partition on text cells
    if pname == 'text' and all(len(r) >= case['f'] and r[case['f'] - 1] != 0 for r in case['rows']):
        pat = prof.conc(1)
        pos = [p for p, r in enumerate(case['rows'], 1) if r[case['f'] - 1] == 1]
        check('search', lambda: etl.search(t, fld, '^' + pat + '$'), pos)
        check('searchcomplement', lambda: etl.searchcomplement(t, fld, '^' + pat + '$'), rest(pos))
    return problems


def check_extra(chk):
    """(a) the short fluent aliases select the same rows as the functions they abbreviate; (b) search by field index 0 /
    by a field named ''.  (Values outside the ordering's domain - NaN, sets - are not judged: C13 quantifies over C04's domain.)"""
    import petl as etl
    t = [['x', 'y'], [1, 'a'], [5, 'b'], [5, 'c'], [9, 'd'], [None, 'e']]
    w = etl.wrap(t)
    pairs = [('eq', etl.selecteq), ('ne', etl.selectne), ('lt', etl.selectlt), ('le', etl.selectle), ('gt', etl.selectgt), ('ge', etl.selectge)]
    for alias, fn in pairs:
        for comp in (False, True):
            chk.count(('alias', alias, comp))
            chk.replayed += 1
            try:
                got = [tuple(r) for r in getattr(w, alias)('x', 5, complement=comp)]
                want = [tuple(r) for r in fn(t, 'x', 5, complement=comp)]
                got2 = [tuple(r) for r in getattr(w, 'select' + alias)('x', 5, complement=comp)]
            except Exception as e:
                got, want, got2 = 'raised %r' % (e,), None, None
            if got != want or got2 != want:
                chk.violation({'op': 'select' + alias, 'kind': 'alias'}, 'wrap(t).%s(x, 5, complement=%s) delivers %r, select%s %r, wrap(t).select%s %r'
                              % (alias, comp, got, alias, want, alias, got2), {'kind': 'extra', 'what': 'alias'})
    for alias, fn, args in (('rangeopen', etl.selectrangeopen, ('x', 1, 5)), ('rangeclosed', etl.selectrangeclosed, ('x', 1, 5)),
                            ('rangeopenleft', etl.selectrangeopenleft, ('x', 1, 5)), ('rangeopenright', etl.selectrangeopenright, ('x', 1, 5)),
                            ('contains', etl.selectcontains, ('y', 'a')), ('notin', etl.selectnotin, ('x', (1, 9))), ('none', etl.selectnone, ('x',)),
                            ('notnone', etl.selectnotnone, ('x',)), ('true', etl.selecttrue, ('x',)), ('false', etl.selectfalse, ('x',)),
                            ('is', etl.selectis, ('x', None)), ('isnot', etl.selectisnot, ('x', None)), ('isinstance', etl.selectisinstance, ('x', int))):
        if not hasattr(w, alias):
            continue
        chk.count(('alias', alias))
        chk.replayed += 1
        got = [tuple(r) for r in getattr(w, alias)(*args)]
        want = [tuple(r) for r in fn(t, *args)]
        if got != want:
            chk.violation({'op': 'select' + alias, 'kind': 'alias'}, 'wrap(t).%s%r delivers %r, the function %r' % (alias, args, got, want), {'kind': 'extra', 'what': 'alias'})
    # (b) field given as index 0 / named '' : only that field is searched
    for hdr in (['p', 'q'], [u'', 'q']):
        ts = [list(hdr), ['xa', 'ob'], ['ob', 'xa'], ['oo', 'oo']]
        for fld in (0, hdr[0]):
            for fn, want in ((etl.search, [('xa', 'ob')]), (etl.searchcomplement, [('ob', 'xa'), ('oo', 'oo')])):
                chk.count(('search-field', repr(hdr), repr(fld), fn.__name__))
                chk.replayed += 1
                try:
                    got = [tuple(r) for r in fn(ts, fld, 'x')][1:]
                except Exception as e:
                    got = 'raised %r' % (e,)
                if got != want:
                    chk.violation({'op': fn.__name__, 'kind': 'falsy-field'}, '%s(t, %r, "x") on header %r delivers %r, the rows whose first field matches are %r'
                                  % (fn.__name__, fld, hdr, got, want), {'kind': 'extra', 'what': 'search-field'})


def run_slice_case(case):
    import petl as etl
    n = case['n']
    t = [['i', 'x']] + [[i, 'r%d' % i] for i in range(1, n + 1)]
    problems = []

    def check(label, fn, pos):
        try:
            got = [tuple(r) for r in fn()]
        except Exception as e:
            problems.append('%s raised %r' % (label, e))
            return
        want = [('i', 'x')] + [(p, 'r%d' % p) for p in pos]
        ref = None
        if got != want:
            problems.append('%s on %d rows delivered %r, spec (islice) %r' % (label, n, got[1:], want[1:]))
    for s in case['slices']:
        stop = None if s['stop'] == -1 else s['stop']
        check('rowslice(%d, %r, %d)' % (s['start'], stop, s['step']), lambda: etl.rowslice(t, s['start'], stop, s['step']), s['out'])
        # the oracle the property names: itertools.islice itself
        isl = [r[0] for r in itertools.islice(t[1:], s['start'], stop, s['step'])]
        if isl != s['out']:
            raise tlc.MachineryError('Select!ISlice disagrees with itertools.islice on %r' % (s,))
        if s['step'] == 1:
            check('rowslice(%d, %r)' % (s['start'], stop), lambda: etl.rowslice(t, s['start'], stop), s['out'])
        if s['start'] == 0 and s['step'] == 1 and stop is not None:
            check('rowslice(%r)' % stop, lambda: etl.rowslice(t, stop), s['out'])
    # NESTED slices compose like itertools.islice (the oracle the property names)
    sl = case['slices']
    for i, s1 in enumerate(sl):
        for s2 in sl[(i % 3)::3]:
            st1 = None if s1['stop'] == -1 else s1['stop']
            st2 = None if s2['stop'] == -1 else s2['stop']
            inner = list(itertools.islice(t[1:], s1['start'], st1, s1['step']))
            want = [r[0] for r in itertools.islice(inner, s2['start'], st2, s2['step'])]
            check('rowslice(rowslice(t, %d, %r, %d), %d, %r, %d)' % (s1['start'], st1, s1['step'], s2['start'], st2, s2['step']),
                  lambda: etl.rowslice(etl.rowslice(t, s1['start'], st1, s1['step']), s2['start'], st2, s2['step']), want)
        for k in (0, 1, 2, 3):
            st1 = None if s1['stop'] == -1 else s1['stop']
            inner = [r[0] for r in itertools.islice(t[1:], s1['start'], st1, s1['step'])]
            check('head(rowslice(t, %d, %r, %d), %d)' % (s1['start'], st1, s1['step'], k),
                  lambda: etl.head(etl.rowslice(t, s1['start'], st1, s1['step']), k), inner[:k])
            check('tail(rowslice(..), %d)' % k, lambda: etl.tail(etl.rowslice(t, s1['start'], st1, s1['step']), k), inner[-k:] if k else [])
            check('rowslice(head(t, %d), %d, %r, %d)' % (k + 2, s1['start'], st1, s1['step']),
                  lambda: etl.rowslice(etl.head(t, k + 2), s1['start'], st1, s1['step']),
                  [r[0] for r in itertools.islice(t[1:k + 3], s1['start'], st1, s1['step'])])
    for k, pos in _items(case['head']):
        check('head(%d)' % k, lambda: etl.head(t, k), pos)
    for k, pos in _items(case['tail']):
        check('tail(%d)' % k, lambda: etl.tail(t, k), pos)
    for k, pos in _items(case['skip'], base=1):
        try:
            got = [tuple(r) for r in etl.skip(t, k)]
            want = [(p, 'r%d' % p) for p in pos]
            if got != want:
                problems.append('skip(%d) on %d rows delivered %r, spec %r' % (k, n, got, want))
        except Exception as e:
            problems.append('skip(%d) raised %r' % (k, e))
    return problems


def _items(x, base=0):
    if isinstance(x, dict):
        return sorted((int(k), v) for k, v in x.items())
    return [(i + base, v) for i, v in enumerate(x)]


def record_traces(n_examples, seed):
    import petl as etl
    from hypothesis import given, strategies as st, seed as hseed
    traces, concrete = [], []
    cell = common.cell_values()
    ops = ['selecteq', 'selectne', 'selectlt', 'selectle', 'selectgt', 'selectge', 'selectrangeopen', 'selectrangeopenleft',
           'selectrangeopenright', 'selectrangeclosed']

    @hseed(seed)
    @common.hyp_settings(n_examples, seed)
    @given(st.lists(st.one_of(cell, st.just('<absent>')), max_size=15), cell, cell, st.sampled_from(ops), st.booleans())
    def go(cells, a, b, op, complement):
        col = [None if c == '<absent>' else c for c in cells]
        if cells and cells[0] != '<absent>' and len(cells) % 2:
            a = cells[0]
        try:
            abst = values.abstract_batch(col + [a, b])
        except (TypeError, ValueError, ArithmeticError):
            return
        t = [['id', 'v']] + [([i + 1] if c == '<absent>' else [i + 1, c]) for i, c in enumerate(cells)]
        try:
            if 'range' in op:
                v = getattr(etl, op)(t, 'v', a, b, complement=complement)
            else:
                v = getattr(etl, op)(t, 'v', a, complement=complement)
            out = [r[0] for r in etl.data(v)]
            raised = False
        except Exception as e:
            out, raised = [], True
        traces.append({'op': op, 'cells': abst[:len(col)], 'a': abst[-2], 'b': abst[-1], 'complement': complement, 'out': out,
                       'raised': raised})
        concrete.append({'op': op, 'cells': [repr(c) for c in cells], 'a': repr(a), 'b': repr(b), 'complement': complement})
    go()
    return traces, concrete


def run(tier, seed):
    chk = Check(PID, tier, seed)
    full = tier == 'thorough'
    # the laws are ASSUMEs of SelectGen: evaluating the module IS the model check of the definitions
    cases, slices = common.gen('SelectGen', 'SelectGenT' if full else 'SelectGen', outs=('OUT', 'OUT2'))
    r = tlc.require_ok(tlc.run('OrderingMC', cfg='OrderingMCq', timeout=900), 'OrderingMC')
    chk.add_tlc(r, 'OrderingMC', 'OrderingMCq')
    profiles = ['ints', 'mixed', 'text', 'equalreps', 'compound']
    for ci, case in enumerate(cases):
        for pname in (profiles if full else [profiles[ci % 5], profiles[(ci + 2) % 5]]):
            probs = run_sel_case(case, pname, ci)
            chk.count(('sel', ci, pname))
            chk.replayed += 1
            for p in probs:
                chk.violation({'op': p.split('(')[0].split(' ')[0], 'kind': 'select'},
                              'rows=%r field=%s ref=%r profile=%s: %s' % (case['rows'], HDR[case['f'] - 1], case['ref'], pname, p),
                              {'kind': 'sel', 'case': case, 'profile': pname, 'occ': ci})
    check_extra(chk)
    for case in slices:
        probs = run_slice_case(case)
        chk.count(('slice', case['n']))
        chk.replayed += 1
        for p in probs:
            chk.violation({'op': p.split('(')[0], 'kind': 'slice'}, p, {'kind': 'slice', 'case': case})
    chk.sample({'kind': 'select-case', 'case': cases[len(cases) // 2]})
    traces, concrete = record_traces(3000 if full else 400, seed)
    rr, verdicts = common.validate('SelectTrace', traces)
    chk.add_tlc(rr, 'SelectTrace')
    for tid, (bad,) in sorted(verdicts.items()):
        if bad or traces[tid - 1]['raised']:
            chk.violation({'op': traces[tid - 1]['op'], 'kind': 'trace'},
                          'recorded selection rejected by SelectTrace: %r delivered positions %r' % (concrete[tid - 1], traces[tid - 1]['out']),
                          {'kind': 'trace', 'seed': seed, 'concrete': concrete[tid - 1]})
    chk.validated += len(traces)
    chk.sample({'kind': 'select-trace', 'concrete': concrete[3], 'out': traces[3]['out']})
    cand = [i for i, t in enumerate(traces) if t['out']]
    bad = json.loads(json.dumps([traces[cand[0]]]))
    bad[0]['out'].pop()
    r2, v2 = common.validate('SelectTrace', bad, name='SelectTraceBad')
    ok = v2[1][0] != 0
    chk.binding_demo = {'corrupted': 'last selected row removed from the recorded output', 'verdict': list(v2[1]), 'rejected_as_expected': ok}
    if not ok and not chk.violations:
        raise tlc.MachineryError('binding demo failed')
    # SelectGen has no state space of its own; its laws are evaluated as assumptions (counted as one obligation set)
    chk.states += 1
    chk.transitions += 1
    chk.exhaustive = True
    chk.assumptions = ['the cell alphabet has no falsy value besides None (selecttrue/false are exercised on None vs non-None)',
                       'search/searchcomplement on text cells only']
    return chk.finish(rule='G: every TLC-generated (ragged table <= %d rows, field, reference) x ~60 selector calls (complement on/off) x '
                           'value profiles; every slice triple x rowslice/head/tail/skip on 0..5 rows, ISlice cross-checked with '
                           'itertools.islice; V: Hypothesis columns validated by SelectTrace' % (3 if full else 2))


def replay(path):
    with open(path) as f:
        rp = json.load(f)['replay']
    if rp['kind'] == 'sel':
        probs = run_sel_case(rp['case'], rp['profile'], rp['occ'])
    elif rp['kind'] == 'slice':
        probs = run_slice_case(rp['case'])
    else:
        print('trace replay: rerun ./check C13 with VERIF_SEED=%s' % rp['seed'])
        return 0
    print('\n'.join(probs) or 'holds')
    return 1 if probs else 0
