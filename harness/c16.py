"""C16 - pass-through views are transparent; a consumed tee writes what to* writes.

TLC:  FileStore   - the tee protocol (write the row, then yield it; flush at exhaustion; detach; close): TeeTransparent
                    (delivered = wrapped table, target = To(table)) for all tables and header flags;
      PassThrough - progress (batch sizes), clock, wrap, cache(n) on sequential passes deliver exactly the wrapped items.
G:    for every generated table shape (incl. header-only, ragged, empty rows) x arguments: rows of teecsv / teetsv /
      teepickle / teetext / teehtml, progress / log_progress (batch sizes 1..4), clock, cache (limits None, 1..4), wrap are
      compared with the wrapped table; after exhaustion the tee target is compared BYTE FOR BYTE with what the matching
      to* writes for the same table and arguments (path, .gz, MemorySource).
V:    recording-buffer traces of the tees validated by FileStoreTrace (shared with C15).
"""
import io
import json
import logging
import random

from harness import tlc, common, iolib
from harness.core import Check

PID = 'C16'
HDR = [u'f1', u'f2']


def tables():
    T = []
    for cls in ('plain', 'quotes', 'newlines', 'nonascii', 'astral', 'edges'):
        for ids in ([], [11], [11, 12], [11, 12, 13, 14, 15]):
            T.append((cls, [list(HDR)] + iolib.table_rows(ids, cls)))
        T.append((cls + '+ragged', [list(HDR)] + iolib.table_rows([11, 12, 13], cls, ragged=True)))
    T.append(('typed', [list(HDR)] + iolib.table_rows([11, 12, 13], 'plain', typed=True)))
    T.append(('emptyrows', [list(HDR), [], [u'x'], []]))
    T.append(('no header at all', []))
    return T


def tee_pairs():
    import petl as etl
    tmpl = u'{f1} - {f2}\n'
    P = []
    for wh in (True, False):
        for enc in ('utf-8', 'utf-16', 'latin-1'):
            P.append(('csv wh=%s %s' % (wh, enc), lambda t, s, wh=wh, enc=enc: etl.teecsv(t, s, encoding=enc, write_header=wh),
                      lambda t, s, wh=wh, enc=enc: etl.tocsv(t, s, encoding=enc, write_header=wh), enc))
        P.append(('csv ; QUOTE_ALL wh=%s' % wh, lambda t, s, wh=wh: etl.teecsv(t, s, encoding='utf-8', write_header=wh, delimiter=';', quoting=1),
                  lambda t, s, wh=wh: etl.tocsv(t, s, encoding='utf-8', write_header=wh, delimiter=';', quoting=1), 'utf-8'))
        P.append(('tsv wh=%s' % wh, lambda t, s, wh=wh: etl.teetsv(t, s, encoding='utf-8', write_header=wh),
                  lambda t, s, wh=wh: etl.totsv(t, s, encoding='utf-8', write_header=wh), 'utf-8'))
        P.append(('pickle wh=%s' % wh, lambda t, s, wh=wh: etl.teepickle(t, s, write_header=wh),
                  lambda t, s, wh=wh: etl.topickle(t, s, write_header=wh), None))
    for enc in ('utf-8', 'utf-16'):
        P.append(('text %s' % enc, lambda t, s, enc=enc: etl.teetext(t, s, encoding=enc, template=tmpl, prologue=u'BEGIN\n', epilogue=u'END\n'),
                  lambda t, s, enc=enc: etl.totext(t, s, encoding=enc, template=tmpl, prologue=u'BEGIN\n', epilogue=u'END\n'), enc))
        P.append(('html %s' % enc, lambda t, s, enc=enc: etl.teehtml(t, s, encoding=enc, caption=u'cap'),
                  lambda t, s, enc=enc: etl.tohtml(t, s, encoding=enc, caption=u'cap'), enc))
    return P


def encodable(table, enc):
    if enc in (None, 'utf-8', 'utf-16'):
        return True
    try:
        for r in table:
            for c in r:
                if isinstance(c, str):
                    c.encode(enc)
        return True
    except UnicodeError:
        return False


def rectangular(table):
    return all(len(r) == len(table[0]) for r in table)


def check_tees(chk, tmp):
    for cls, table in tables():
        for name, tee, to, enc in tee_pairs():
            if not encodable(table, enc):
                continue
            if 'html' in name and not rectangular(table):
                continue       # html rows are rendered cell by cell: exercised on rectangular tables
            for kind in ('path', 'memory', 'gz'):
                t1, t2 = iolib.Target(kind, tmp, 'tee'), iolib.Target(kind, tmp, 'to')
                sig = {'op': 'tee' + name.split(' ')[0], 'kind': 'tee', 'source': kind}
                what = 'tee%s vs to%s on %s table (%d rows), %s' % (name, name, cls, len(table) - 1, kind)
                chk.count(('tee', cls, len(table), name, kind))
                chk.replayed += 1
                try:
                    got = [tuple(r) for r in tee(table, t1.src)]
                    to(table, t2.src)
                except Exception as e:
                    chk.violation(dict(sig, clause='raises'), '%s: raised %r' % (what, e), {'kind': 'tee', 'name': name, 'cls': cls})
                    continue
                if got != [tuple(r) for r in table]:
                    chk.violation(dict(sig, clause='rows'), '%s: the tee view delivered %r, wrapped table %r' % (what, got, table),
                                  {'kind': 'tee', 'name': name, 'cls': cls})
                elif t1.raw() != t2.raw():
                    chk.violation(dict(sig, clause='bytes'), '%s: target holds %r, to* writes %r' % (what, t1.raw()[:200], t2.raw()[:200]),
                                  {'kind': 'tee', 'name': name, 'cls': cls})


class _Null(object):
    def write(self, *_a):
        pass

    def flush(self):
        pass


def check_tees_odd_headers(chk, tmp):
    """Headers whose field names are not strings (None, ints, floats) and the writer arguments that look at them:
    quoting modes for csv, td_styles keyed by field name and truncate for html."""
    import petl as etl
    import csv as _csv
    tables_ = [('None / int / float field names', [[u'id', None, 2019, 2020.5], [1, u'a', 2, 3.5], [2, u'b', 4, 5.5]]),
               ('int field names', [[0, 1], [u'x', u'y']])]
    pairs = [('csv', lambda t, s: etl.teecsv(t, s, encoding='utf-8'), lambda t, s: etl.tocsv(t, s, encoding='utf-8')),
             ('csv QUOTE_NONNUMERIC', lambda t, s: etl.teecsv(t, s, encoding='utf-8', quoting=_csv.QUOTE_NONNUMERIC),
              lambda t, s: etl.tocsv(t, s, encoding='utf-8', quoting=_csv.QUOTE_NONNUMERIC)),
             ('csv QUOTE_ALL', lambda t, s: etl.teecsv(t, s, encoding='utf-8', quoting=_csv.QUOTE_ALL), lambda t, s: etl.tocsv(t, s, encoding='utf-8', quoting=_csv.QUOTE_ALL)),
             ('tsv', lambda t, s: etl.teetsv(t, s, encoding='utf-8'), lambda t, s: etl.totsv(t, s, encoding='utf-8')),
             ('pickle', lambda t, s: etl.teepickle(t, s), lambda t, s: etl.topickle(t, s)),
             ('html', lambda t, s: etl.teehtml(t, s, encoding='utf-8'), lambda t, s: etl.tohtml(t, s, encoding='utf-8')),
             ('html td_styles by field', lambda t, s: etl.teehtml(t, s, encoding='utf-8', td_styles={t[0][-1]: 'color: red', t[0][0]: 'x: y'}),
              lambda t, s: etl.tohtml(t, s, encoding='utf-8', td_styles={t[0][-1]: 'color: red', t[0][0]: 'x: y'})),
             ('html tr_style, index_header, vrepr', lambda t, s: etl.teehtml(t, s, encoding='utf-8', tr_style=lambda r: 'a: b', index_header=True, vrepr=repr),
              lambda t, s: etl.tohtml(t, s, encoding='utf-8', tr_style=lambda r: 'a: b', index_header=True, vrepr=repr))]
    for cls, table in tables_:
        for name, tee, to in pairs:
            t1, t2 = iolib.Target('path', tmp, 'tee'), iolib.Target('path', tmp, 'to')
            chk.count(('tee-odd-header', cls, name))
            chk.replayed += 1
            res = []
            for fn, tgt in ((tee, t1), (to, t2)):
                try:
                    out = fn(table, tgt.src)
                    rows = [tuple(r) for r in out] if out is not None else None
                    res.append(('ok', rows, tgt.raw()))
                except Exception as e:
                    res.append(('raised', type(e).__name__, None))
            (s1, rows, b1), (s2, _r, b2) = res
            sig = {'op': 'tee' + name.split(' ')[0], 'kind': 'tee', 'source': 'path'}
            what = 'tee%s vs to%s on a table with %s' % (name, name, cls)
            if s1 != s2:
                chk.violation(dict(sig, clause='raises'), '%s: tee %s %r, to* %s %r' % (what, s1, res[0][1] if s1 == 'raised' else '', s2, res[1][1] if s2 == 'raised' else ''),
                              {'kind': 'tee-odd', 'name': name, 'cls': cls})
            elif s1 == 'ok' and rows != [tuple(r) for r in table]:
                chk.violation(dict(sig, clause='rows'), '%s: the tee view delivered %r' % (what, rows), {'kind': 'tee-odd', 'name': name, 'cls': cls})
            elif s1 == 'ok' and b1 != b2:
                chk.violation(dict(sig, clause='bytes'), '%s: target holds %r, to* writes %r' % (what, b1[:300], b2[:300]), {'kind': 'tee-odd', 'name': name, 'cls': cls})


def check_tees_sequences(chk, tmp):
    """(a) a tee view that is peeked at first (header(), a partial pass) and THEN consumed: the target still holds what
    to* writes; (b) templates with nested format specs; (c) errors= with characters the encoding cannot represent."""
    import petl as etl
    t = [[u'f1', u'f2', u'w', u'p']] + [[u'a\u20ac', 1.5, 8, 2], [u'b', 22.25, 6, 1], [u'c\xe9', 3.0, 7, 3]]
    tmpl = u'{f1}|{f2:>{w}.{p}f}|{f2!r}\n'
    pairs = [('tsv', lambda s: etl.teetsv(t, s, encoding='utf-8'), lambda s: etl.totsv(t, s, encoding='utf-8')),
             ('csv dialect=excel-tab', lambda s: etl.teecsv(t, s, encoding='utf-8', dialect='excel-tab'), lambda s: etl.tocsv(t, s, encoding='utf-8', dialect='excel-tab')),
             ('csv ; QUOTE_ALL', lambda s: etl.teecsv(t, s, encoding='utf-8', delimiter=';', quoting=1), lambda s: etl.tocsv(t, s, encoding='utf-8', delimiter=';', quoting=1)),
             ('pickle protocol=2', lambda s: etl.teepickle(t, s, protocol=2), lambda s: etl.topickle(t, s, protocol=2)),
             ('text nested format spec', lambda s: etl.teetext(t, s, encoding='utf-8', template=tmpl, prologue=u'P\n', epilogue=u'E\n'),
              lambda s: etl.totext(t, s, encoding='utf-8', template=tmpl, prologue=u'P\n', epilogue=u'E\n')),
             ('text errors=replace ascii', lambda s: etl.teetext(t, s, encoding='ascii', errors='replace', template=u'{f1} {f2}\n'),
              lambda s: etl.totext(t, s, encoding='ascii', errors='replace', template=u'{f1} {f2}\n')),
             ('csv errors=replace ascii', lambda s: etl.teecsv(t, s, encoding='ascii', errors='replace'), lambda s: etl.tocsv(t, s, encoding='ascii', errors='replace')),
             ('html errors=xmlcharrefreplace ascii', lambda s: etl.teehtml(t, s, encoding='ascii', errors='xmlcharrefreplace', caption=u'c\u20ac'),
              lambda s: etl.tohtml(t, s, encoding='ascii', errors='xmlcharrefreplace', caption=u'c\u20ac')),
             ('html errors=ignore latin-1', lambda s: etl.teehtml(t, s, encoding='latin-1', errors='ignore'), lambda s: etl.tohtml(t, s, encoding='latin-1', errors='ignore'))]
    for name, tee, to in pairs:
        for plan in ('full', 'header() then full', 'partial pass then full', 'two full passes'):
            t1, t2 = iolib.Target('path', tmp, 'tee'), iolib.Target('path', tmp, 'to')
            chk.count(('tee-seq', name, plan))
            chk.replayed += 1
            try:
                v = tee(t1.src)
                if plan == 'header() then full':
                    etl.header(v)
                elif plan == 'partial pass then full':
                    it = iter(v)
                    next(it)
                    next(it)
                    del it
                elif plan == 'two full passes':
                    list(iter(v))
                rows = [tuple(r) for r in v]
                to(t2.src)
                res = None
                if rows != [tuple(r) for r in t]:
                    res = 'the tee view delivered %r' % (rows,)
                elif t1.raw() != t2.raw():
                    res = 'target holds %r, to* writes %r' % (t1.raw()[:300], t2.raw()[:300])
            except Exception as e:
                res = 'raised %r' % (e,)
            if res:
                chk.violation({'op': 'tee' + name.split(' ')[0], 'kind': 'tee', 'source': 'path', 'clause': 'sequence'},
                              'tee%s, %s: %s' % (name, plan, res), {'kind': 'tee-seq', 'name': name, 'plan': plan})


def check_passthrough(chk):
    import petl as etl
    logging.getLogger('petl.util.timing').setLevel(logging.CRITICAL)
    views = []
    for b in (1, 2, 3, 4):
        views.append(('progress(%d)' % b, lambda t, b=b: etl.progress(t, b, out=_Null())))
        views.append(('progress(%d, prefix)' % b, lambda t, b=b: etl.progress(t, b, prefix='p: ', out=_Null())))
        views.append(('log_progress(%d)' % b, lambda t, b=b: etl.log_progress(t, b, logger=logging.getLogger('verif.null'))))
    # prefixes with characters that are special to %-formatting / str.format, default batch size with a table beyond it
    for pf in (u'10% done: ', u'%s %d %%', u'{0} {x}', u'\xe9\u4e2d: '):
        views.append(('progress(2, prefix=%r)' % pf, lambda t, pf=pf: etl.progress(t, 2, prefix=pf, out=_Null())))
        views.append(('log_progress(2, prefix=%r)' % pf, lambda t, pf=pf: etl.log_progress(t, 2, prefix=pf, logger=logging.getLogger('verif.null'))))
    logging.getLogger('verif.null').addHandler(logging.NullHandler())
    logging.getLogger('verif.null').propagate = False
    views.append(('clock', lambda t: etl.clock(t)))
    views.append(('wrap', lambda t: etl.wrap(t)))
    for n in (None, 1, 2, 3, 4, 10):
        views.append(('cache(%r)' % n, lambda t, n=n: etl.wrap(t).cache(n)))
    for cls, table in tables():
        for name, mk in views:
            chk.count(('pass', cls, len(table), name))
            chk.replayed += 1
            try:
                v = mk(table)
                p1 = [tuple(r) for r in v]
                p2 = [tuple(r) for r in v]
                p3 = [tuple(r) for r in v]
            except Exception as e:
                chk.violation({'op': name.split('(')[0], 'kind': 'passthrough', 'clause': 'raises'}, '%s over %s table raised %r' % (name, cls, e),
                              {'kind': 'pass', 'name': name, 'cls': cls})
                continue
            want = [tuple(r) for r in table]
            for label, got in (('pass 1', p1), ('pass 2', p2), ('pass 3', p3)):
                if got != want:
                    chk.violation({'op': name.split('(')[0], 'kind': 'passthrough', 'clause': 'rows'},
                                  '%s over %s table, %s delivered %r, wrapped table %r' % (name, cls, label, got, want),
                                  {'kind': 'pass', 'name': name, 'cls': cls})
                    break


def check_passthrough_large(chk):
    """Default batch sizes (1000) and cache limits on a table beyond them."""
    import petl as etl
    big = [['f', 'g']] + [[i, u'v%d' % i] for i in range(2500)]
    want = [tuple(r) for r in big]
    views = [('progress(default batch)', lambda: etl.progress(big, out=_Null())),
             ('progress(default batch, prefix=%r)' % u'10% done: ', lambda: etl.progress(big, prefix=u'10% done: ', out=_Null())),
             ('log_progress(default batch, prefix=%r)' % u'%s: ', lambda: etl.log_progress(big, prefix=u'%s: ', logger=logging.getLogger('verif.null'))),
             ('progress(1000)', lambda: etl.progress(big, 1000, out=_Null())), ('progress(999)', lambda: etl.progress(big, 999, out=_Null())),
             ('clock', lambda: etl.clock(big)), ('cache()', lambda: etl.wrap(big).cache()), ('cache(1000)', lambda: etl.wrap(big).cache(1000)),
             ('cache(3000)', lambda: etl.wrap(big).cache(3000))]
    for name, mk in views:
        chk.count(('pass-large', name))
        chk.replayed += 1
        try:
            v = mk()
            passes = [[tuple(r) for r in v] for _ in range(3)]
        except Exception as e:
            chk.violation({'op': name.split('(')[0], 'kind': 'passthrough', 'clause': 'raises'}, '%s over a 2500-row table raised %r' % (name, e),
                          {'kind': 'pass-large', 'name': name})
            continue
        for k, got in enumerate(passes):
            if got != want:
                chk.violation({'op': name.split('(')[0], 'kind': 'passthrough', 'clause': 'rows'},
                              '%s over a 2500-row table: pass %d delivered %d rows (wrapped table: %d)' % (name, k + 1, len(got), len(want)),
                              {'kind': 'pass-large', 'name': name})
                break


def run(tier, seed):
    chk = Check(PID, tier, seed)
    r = tlc.require_ok(tlc.run('FileStore', cfg='FileStore_ok', timeout=900), 'FileStore')
    chk.add_tlc(r, 'FileStore', 'FileStore_ok')
    for b in (1, 2, 3):
        rp = tlc.require_ok(tlc.run('PassThrough', cfg='PassThrough_%d' % b, timeout=300), 'PassThrough_%d' % b)
        chk.add_tlc(rp, 'PassThrough', 'PassThrough_%d' % b)
    with common.private_tmp() as tmp:
        check_tees(chk, tmp)
        check_tees_odd_headers(chk, tmp)
        check_tees_sequences(chk, tmp)
    check_passthrough(chk)
    check_passthrough_large(chk)
    # V: tee traces through the recording source (same trace spec as C15)
    from harness import c15
    traces = [t for t in c15.record_traces(900 if tier == 'thorough' else 300, seed + 16) if t['op'] == 'tee']
    rr, verdicts = common.validate('FileStoreTrace', traces)
    chk.add_tlc(rr, 'FileStoreTrace')
    for tid, (bad,) in sorted(verdicts.items()):
        if bad:
            chk.violation({'op': 'tee' + traces[tid - 1]['fmt'], 'kind': 'trace'}, 'recorded tee buffer trace rejected by FileStoreTrace at event %d: %r'
                          % (bad, traces[tid - 1]), {'kind': 'trace', 'trace': traces[tid - 1]})
    chk.validated += len(traces)
    chk.sample({'kind': 'tee-case', 'pair': 'teecsv vs tocsv', 'table': tables()[6][1]})
    chk.exhaustive = True
    chk.assumptions = ['teetext / teehtml on rectangular tables (templates address every field)',
                       'byte equality on plain files, MemorySource and (decompressed) gzip targets']
    return chk.finish(rule='G: 32 tables (adversarial cell classes, header-only, ragged, empty rows) x 20 tee/to pairs (header flags, '
                           'encodings, dialect, templates) x 3 source kinds: rows and byte equality; x 19 pass-through views, three passes; '
                           'V: tee buffer traces validated by FileStoreTrace')


def replay(path):
    print('rerun ./check C16 (cases are deterministic)')
    return 0
