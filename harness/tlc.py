"""Thin, careful wrapper around TLC (tla2tools 1.8) for the petl verification harness.

Run modes (DESIGN.md 2.4):
  mc     exhaustive check of a cfg; parse state counts, depth, per-action coverage, violations
  gen    exhaustive enumeration with case emission to an ndjson file (IOEnv.OUT)
  trace  batch validation of recorded executions (IOEnv.TRACE_FILE -> IOEnv.OUT verdicts)
  sim    tlc -simulate under timeout

Every call runs under `timeout`, with its metadir in the caller's scratch directory.
"""
import json
import os
import re
import shutil
import subprocess
import tempfile
import time

SPECS = os.path.join(os.path.dirname(os.path.dirname(os.path.abspath(__file__))), 'specs')
JAR = '/opt/veriftools/tla/tla2tools.jar'
DEPS = '/opt/veriftools/tla/CommunityModules-deps.jar'


class MachineryError(Exception):
    """TLC / SANY failed, or output could not be understood: exit code 2, never a VIOLATION."""


class TLCResult(object):
    def __init__(self):
        self.stdout = ''
        self.generated = 0
        self.distinct = 0
        self.depth = 0
        self.violated = None       # name of violated invariant / property, or None
        self.error = None          # other TLC error text
        self.trace = []            # counterexample states (list of dict var -> text)
        self.coverage = {}         # action name -> (distinct, generated)
        self.prints = []           # PrintT lines
        self.wall = 0.0
        self.cmd = ''

    @property
    def ok(self):
        return self.violated is None and self.error is None


_scratch_root = None


def scratch():
    """Per-process scratch directory under $TMPDIR, removed at exit by the check CLI."""
    global _scratch_root
    if _scratch_root is None:
        base = os.environ.get('VERIF_TMP')
        if not base:
            # a memory-backed file system if there is one with room: the replays create and unlink chunk files by the
            # thousand per second; otherwise the default temp directory
            try:
                st = os.statvfs('/dev/shm')
                if os.access('/dev/shm', os.W_OK) and st.f_bavail * st.f_frsize > 4 * 2 ** 30:
                    base = '/dev/shm'
            except OSError:
                base = None
        _scratch_root = tempfile.mkdtemp(prefix='petlverif_', dir=base or None)
    return _scratch_root


def cleanup():
    global _scratch_root
    if _scratch_root and os.path.isdir(_scratch_root):
        shutil.rmtree(_scratch_root, ignore_errors=True)
    _scratch_root = None


_STATE_RE = re.compile(r'^(\d+) states generated, (\d+) distinct states found, (\d+) states left on queue', re.M)
_DEPTH_RE = re.compile(r'The depth of the complete state graph search is (\d+)')
_COV_RE = re.compile(r'^<(\w+) line \d+, col \d+ to line \d+, col \d+ of module (\w+)>: (\d+):(\d+)', re.M)
_INV_RE = re.compile(r'Error: Invariant (\S+) is violated')
_PROP_RE = re.compile(r'Error: (?:Action|Temporal) propert(?:y|ies) (\S+)? ?.*violated|Error: Action property (\S+) is violated')


def run(module, cfg=None, workers=16, env=None, timeout=600, mode='mc', coverage=True,
        sim=None, seed=None, deadlock=False, extra=None, javaopts=None, dump=None):
    """Run TLC on specs/<module>.tla with specs/<cfg>.cfg (default: same name)."""
    cfg = cfg or module
    sdir = scratch()
    meta = tempfile.mkdtemp(prefix='meta_', dir=sdir)
    cmd = ['timeout', str(timeout), 'java', '-XX:+UseParallelGC', '-Xmx8g']
    if javaopts:
        cmd += list(javaopts)
    cmd += ['-cp', JAR + ':' + DEPS, 'tlc2.TLC',
            '-workers', str(workers), '-metadir', meta, '-noGenerateSpecTE',
            '-config', cfg if cfg.endswith('.cfg') else cfg + '.cfg']
    if coverage:
        cmd += ['-coverage', '1']
    if not deadlock:
        cmd += ['-deadlock']   # -deadlock = do NOT check for deadlock
    if sim:
        cmd += ['-simulate', sim]
    if seed is not None:
        cmd += ['-seed', str(seed)]
    if dump:
        cmd += ['-dump', 'dot,actionlabels', dump]
    if extra:
        cmd += list(extra)
    cmd += [module + '.tla']
    e = dict(os.environ)
    if env:
        e.update({k: str(v) for k, v in env.items()})
    t0 = time.time()
    p = subprocess.run(cmd, cwd=SPECS, env=e, stdout=subprocess.PIPE, stderr=subprocess.STDOUT,
                       universal_newlines=True)
    r = TLCResult()
    r.wall = time.time() - t0
    r.stdout = p.stdout
    r.cmd = ' '.join(cmd)
    shutil.rmtree(meta, ignore_errors=True)
    out = p.stdout
    if p.returncode == 124:
        raise MachineryError('TLC timed out after %ss: %s' % (timeout, r.cmd))
    ms = _STATE_RE.findall(out)
    if ms:
        r.generated, r.distinct = int(ms[-1][0]), int(ms[-1][1])
    m = _DEPTH_RE.search(out)
    if m:
        r.depth = int(m.group(1))
    for name, mod, d, g in _COV_RE.findall(out):
        prev = r.coverage.get(name, (0, 0))
        r.coverage[name] = (prev[0] + int(d), prev[1] + int(g))
    m = _INV_RE.search(out)
    has_error = re.search(r'^Error:', out, re.M) is not None
    if m:
        r.violated = m.group(1)
    elif has_error and 'is violated' in out:
        m2 = re.search(r'^Error: (.*is violated.*)', out, re.M)
        r.violated = m2.group(1) if m2 else 'property'
    elif has_error or ('Exception' in out and 'Finished' not in out):
        # any other error: parse error, evaluation error, assumption false ...
        m3 = re.search(r'^Error:', out, re.M)
        idx = m3.start() if m3 else -1
        r.error = out[idx:idx + 3000] if idx >= 0 else out[-3000:]
    elif not ms and not sim:
        r.error = 'no state statistics in TLC output:\n' + out[-3000:]
    if r.violated:
        r.trace = parse_trace(out)
    r.prints = [l for l in out.splitlines() if l.startswith('<<"') or l.startswith('"')]
    return r


_TSTATE = re.compile(r'^State (\d+): <(.*)>$')


def parse_trace(out):
    """Counterexample -> list of {'_action': str, var: text}."""
    states = []
    cur = None
    for line in out.splitlines():
        m = _TSTATE.match(line)
        if m:
            cur = {'_action': m.group(2).split(' line ')[0]}
            states.append(cur)
            continue
        if cur is not None:
            if line.startswith('/\\ '):
                k, _, v = line[3:].partition(' = ')
                cur[k.strip()] = v.strip()
                cur['_last'] = k.strip()
            elif ' = ' in line and not line.startswith(' ') and re.match(r'^\w+ = ', line):
                k, _, v = line.partition(' = ')
                cur[k.strip()] = v.strip()
                cur['_last'] = k.strip()
            elif line.strip() == '' or line.startswith('Error') or line.startswith('The coverage'):
                if line.startswith('The coverage'):
                    cur = None
            elif '_last' in cur:
                cur[cur['_last']] += ' ' + line.strip()
    for s in states:
        s.pop('_last', None)
    return states


def read_ndjson(path):
    out = []
    with open(path) as f:
        for line in f:
            line = line.strip()
            if line:
                out.append(json.loads(line))
    return out


def write_ndjson(path, recs):
    with open(path, 'w') as f:
        for r in recs:
            f.write(json.dumps(r, separators=(',', ':')))
            f.write('\n')


def require_ok(r, what):
    """mc run that must pass on the spec itself: a failure of the *specification's* own
    invariants is a machinery problem (the model is wrong), not a code violation."""
    if r.error:
        raise MachineryError('%s: TLC error\n%s' % (what, r.error))
    if r.violated:
        raise MachineryError('%s: spec-level property %s violated on the model\n%s'
                             % (what, r.violated, '\n'.join(str(s) for s in r.trace[-3:])))
    return r


def check_coverage(r, actions, what):
    """Vacuity guard: every named action must have been taken at least once."""
    missing = [a for a in actions if r.coverage.get(a, (0, 0))[1] == 0]
    if missing:
        raise MachineryError('%s: vacuous coverage, actions never taken: %s' % (what, missing))
