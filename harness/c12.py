"""C12 - row- and field-level transforms touch only what they are asked to.

TLC:  RowOps / RowOpsGen - definitions of cut, cutout, movefield, addfield, addrownumbers, addcolumn, cat, stack, annex,
                    setheader/extendheader/pushheader/rename, convert, fillright/fillleft/filldown, values, written with
                    asindices' field-resolution rule and Python's list.insert / padding semantics (PyData); frame-condition
                    laws evaluated on every small table (1:1 rows, removing the inserted cell gives the original row, short
                    rows padded never dropped, field-name multiplicities preserved by movefield ...).
G:    every generated table (headers with duplicate names, ragged rows of unique cells) x argument forms (names, indices,
      mixed, repeated, unknown field; insertion indices None, 0.., beyond the end, negative) replayed cell by cell on the real
      functions and their aliases/equivalent forms (addfields, rename dict, fieldmap, rowmap, data, records ...).
V:    Hypothesis ragged tables, one apply event per call, validated by RowOpsTrace against the same definitions.
"""
import itertools
import json
import random
from collections import OrderedDict

from harness import tlc, common
from harness.core import Check

PID = 'C12'
M9 = 'M'          # the concrete `missing` marker standing for abstract 9
ERR_HDR = ['FieldSelectionError']
T2 = [['b', 'c'], [71, 72], [81], [91, 92, 93]]


def cv(c):
    return None if c == 0 else (M9 if c == 9 else c)


def crows(rows):
    return [[cv(c) for c in r] for r in rows]


def spec_args(spec):
    return [s[1] for s in spec]


def materialise(fn):
    """Returns ('ok', hdr, rows) or ('err', exception name)."""
    from petl.errors import FieldSelectionError
    try:
        out = [tuple(r) for r in fn()]
    except FieldSelectionError:
        return ('err', 'FieldSelectionError')
    except Exception as e:
        return ('exc', repr(e))
    return ('ok', out[0] if out else None, out[1:])


def want_of(out):
    if out['hdr'] == ERR_HDR:
        return ('err', 'FieldSelectionError')
    return ('ok', tuple(out['hdr']), [tuple(cv(c) for c in r) for r in out['rows']])


def idx(i):
    return None if i == 99 else i


def run_case(case):
    import petl as etl
    t = [list(case['hdr'])] + crows(case['rows'])
    problems = []

    def check(label, fn, out):
        got, want = materialise(fn), want_of(out)
        if got != want:
            problems.append('%s delivered %r, spec %r' % (label, got, want))

    for c in case['cut']:
        a = spec_args(c['spec'])
        check('cut(*%r)' % a, lambda: etl.cut(t, *a), c['out'])
        check('cut(%r)' % a, lambda: etl.cut(t, a), c['out'])
        check('cut(*%r, missing)' % a, lambda: etl.cut(t, *a, missing=M9), c['outm'])
        check('cutout(*%r)' % a, lambda: etl.cutout(t, *a), c['cutout'])
    for c in case['addfield']:
        def counter():
            k = itertools.count(1)
            return lambda rec: 500 + next(k)
        check('addfield(index=%r)' % idx(c['index']), lambda: etl.addfield(t, 'z', counter(), index=idx(c['index'])), c['out'])
        if c['index'] == 99:
            check('addfields([(z, fn)])', lambda: etl.addfields(t, [('z', counter())]), c['out'])
        else:
            check('addfields([(z, fn, %d)])' % c['index'], lambda: etl.addfields(t, [('z', counter(), c['index'])]), c['out'])
    for c in case['movefield']:
        check('movefield(%s, %d)' % (c['name'], c['index']), lambda: etl.movefield(t, c['name'], c['index']), c['out'])
    check('addrownumbers(100, 7)', lambda: etl.addrownumbers(t, 100, 7), case['rownumbers'])
    for c in case['addcolumn']:
        check('addcolumn(%r, index=%r)' % (c['col'], idx(c['index'])), lambda: etl.addcolumn(t, 'z', list(c['col']), index=idx(c['index'])), c['out'])
    check('cat', lambda: etl.cat(t, T2), case['cat'])
    check('cat(missing)', lambda: etl.cat(t, T2, missing=M9), case['cat9'])
    check('cat(header)', lambda: etl.cat(t, T2, header=['c', 'a', 'x']), case['cathdr'])
    check('stack', lambda: etl.stack(t, T2), case['stack'])
    check('stack(missing)', lambda: etl.stack(t, T2, missing=M9), case['stack9'])
    check('annex', lambda: etl.annex(t, T2), case['annex'])
    check('annex(reversed, missing)', lambda: etl.annex(T2, t, missing=M9), case['annexr'])
    check('setheader', lambda: etl.setheader(t, ['x', 'y']), case['setheader'])
    check('extendheader', lambda: etl.extendheader(t, ['x']), case['extendheader'])
    check('pushheader', lambda: etl.pushheader(t, ['x', 'y']), case['pushheader'])
    check('pushheader(*args)', lambda: etl.pushheader(t, 'x', 'y'), case['pushheader'])
    check('rename', lambda: etl.rename(t, 'a', 'q'), case['rename'])
    check('rename(dict)', lambda: etl.rename(t, {'a': 'q'}), case['rename'])
    # conversions address a field by NAME: with duplicate names the first field of that name is the one converted
    if 'a' in case['hdr']:
        check('convert(a)', lambda: etl.convert(t, 'a', lambda v: v + 1000), case['convert'])
        check('update-like convert(a, dict arg)', lambda: etl.convert(t, {'a': lambda v: v + 1000}), case['convert'])
    # the value callable of addfield sees the SQUARED-UP row (padded with missing / trimmed), whatever it asks of it
    for c in case['addfield']:
        if c['index'] != 99:
            continue
        want = want_of(c['out'])
        if want[0] == 'ok':
            wl = ('ok', want[1], [tuple(r[:-1]) + (len(case['hdr']),) for r in want[2]])
            got = materialise(lambda: etl.addfield(t, 'z', lambda rec: len(rec)))
            if got != wl:
                problems.append('addfield(lambda rec: len(rec)) delivered %r, spec %r' % (got, wl))
            wt = ('ok', want[1], [tuple(r[:-1]) + (tuple(r[:-1]),) for r in want[2]])
            got = materialise(lambda: etl.addfield(t, 'z', lambda rec: tuple(rec)))
            if got != wt:
                problems.append('addfield(lambda rec: tuple(rec)) delivered %r, spec %r' % (got, wt))
    # a conversion added through view[field] = f AFTER a pass is applied by the next pass
    if 'a' in case['hdr'] and want_of(case['convert'])[0] == 'ok':
        try:
            v = etl.convert(t)
            first = [tuple(r) for r in v]
            v['a'] = lambda x: x + 1000
            second = ('ok', None, None)
            got = materialise(lambda: v)
            if got != want_of(case['convert']):
                problems.append('convert view: conversion set after a first pass: second pass delivered %r, spec %r' % (got, want_of(case['convert'])))
        except Exception as e:
            problems.append('convert view with late __setitem__ raised %r' % (e,))
    for c in case['addfield9']:
        def counter9():
            k = itertools.count(1)
            return lambda rec: 500 + next(k)
        check('addfield(index=%r, missing)' % idx(c['index']), lambda: etl.addfield(t, 'z', counter9(), index=idx(c['index']), missing=M9), c['out'])
    if len(set(case['hdr'])) == len(case['hdr']):      # dict-like accessors need distinct names
        for lab, kw, key in (('', {}, 'squared'), ('(missing)', {'missing': M9}, 'squared9')):
            want = [dict(zip(case['hdr'], [cv(c) for c in r])) for r in case[key]]
            try:
                got = [dict(d) for d in etl.dicts(t, **kw)]
                if got != want:
                    problems.append('dicts%s delivered %r, spec %r' % (lab, got, want))
                # a Record is the row itself (a long row keeps its surplus cells); its FIELD access pads with missing
                got = [tuple(rec[f] for f in case['hdr']) for rec in etl.records(t, **kw)]
                if got != [tuple(cv(c) for c in r) for r in case[key]]:
                    problems.append('records%s field access delivered %r, spec %r' % (lab, got, case[key]))
                got = [tuple(r) for r in etl.namedtuples(t, **kw)]
                if got != [tuple(cv(c) for c in r) for r in case[key]]:
                    problems.append('namedtuples%s delivered %r, spec %r' % (lab, got, case[key]))
            except Exception as e:
                problems.append('dicts/records/namedtuples%s raised %r' % (lab, e))
    if len(set(case['hdr'])) == len(case['hdr']):      # remaining equivalences on distinct names
        check('convert', lambda: etl.convert(t, 'a', lambda v: v + 1000), case['convert'])
        check('convert(dict of fields)', lambda: etl.convert(t, {'a': lambda v: v + 1000}), case['convert'])
        # data accessors and identity maps carry every row over unchanged
        ident = {'hdr': case['hdr'], 'rows': case['rows']}
        check('rowmap(identity)', lambda: etl.rowmap(t, lambda r: list(r), header=case['hdr']), ident)
        check('wrap', lambda: etl.wrap(t), ident)
    try:
        got = list(etl.data(t))
        if [tuple(r) for r in got] != [tuple(r) for r in crows(case['rows'])]:
            problems.append('data() delivered %r' % (got,))
    except Exception as e:
        problems.append('data() raised %r' % (e,))
    for lab, kw, key in (('values(b)', {}, 'values'), ('values(b, missing)', {'missing': M9}, 'values9')):
        if case[key]['hdr'] == ERR_HDR:
            want = ('err', 'FieldSelectionError')
        else:
            want = ('ok', [cv(c) for c in case[key]['rows']])      # Values: `rows` holds the flat value sequence
        try:
            got = ('ok', list(etl.values(t, 'b', **kw)))
        except Exception as e:
            got = ('err', type(e).__name__)
        if got != want:
            problems.append('%s delivered %r, spec %r' % (lab, got, want))
    return problems


def _fresh(c):
    """cell value for the non-default-missing variant: abstract 0 (missing) -> a FRESH, non-interned int object equal to
    -9999 (equal to the `missing` argument but not identical to it), other cells unchanged."""
    return int('-9999') if c == 0 else c


def check_wide(chk):
    """The RowOps definitions (PickRow / Cut / Cutout / MoveField, Record access) on tables WIDER than the TLC-generated
    ones: 5 fields, every ordered selection, ragged rows, and headers whose field names are ints."""
    import petl as etl
    from collections import OrderedDict
    hdr = ['a', 'b', 'c', 'd', 'e']
    rows = [[11, 12, 13, 14, 15], [21, 22, 23], [], [41, 42, 43, 44, 45, 46], [51]]
    t = [hdr] + [list(r) for r in rows]

    def pick(row, idx, missing=None):
        return tuple(row[i] if i < len(row) else missing for i in idx)

    def viol(what, got, want):
        chk.violation({'op': what.split('(')[0], 'kind': 'wide'}, '%s on header %r rows %r delivered %r, definition %r' % (what, hdr, rows, got, want),
                      {'kind': 'wide', 'what': what})
    n = 0
    for size in (2, 3, 4, 5):
        for sel in itertools.permutations(range(5), size):
            n += 1
            if size >= 4 and n % 3:
                continue
            for spell, args in (('index', list(sel)), ('name', [hdr[i] for i in sel])):
                for m in (None, 'M'):
                    want = [tuple(hdr[i] for i in sel)] + [pick(r, sel, m) for r in rows]
                    try:
                        got = [tuple(r) for r in (etl.cut(t, *args) if m is None else etl.cut(t, *args, missing=m))]
                    except Exception as e:
                        got = 'raised %r' % (e,)
                    chk.count(('wide-cut', sel, spell, m))
                    chk.replayed += 1
                    if got != want:
                        viol('cut(*%r%s)' % (args, '' if m is None else ', missing=%r' % m), got, want)
            rest = [i for i in range(5) if i not in sel]
            want = [tuple(hdr[i] for i in rest)] + [pick(r, rest) for r in rows]
            try:
                got = [tuple(r) for r in etl.cutout(t, *[hdr[i] for i in sel])]
            except Exception as e:
                got = 'raised %r' % (e,)
            if got != want:
                viol('cutout(*%r)' % ([hdr[i] for i in sel],), got, want)
    # movefield on 5 fields and on a header with int field names
    for h in (hdr, ['name', 0, 1, 2, 3]):
        th = [h] + [list(r) for r in rows]
        for fi, f in enumerate(h):
            if isinstance(f, int):
                continue                      # a field addressed by an int is a position, not this name
            for to in range(5):
                order = [i for i in range(5) if i != fi]
                order.insert(to, fi)
                want = [tuple(h[i] for i in order)] + [pick(r, order) for r in rows]
                try:
                    got = [tuple(r) for r in etl.movefield(th, f, to)]
                except Exception as e:
                    got = 'raised %r' % (e,)
                chk.count(('wide-movefield', tuple(map(str, h)), f, to))
                chk.replayed += 1
                if got != want:
                    chk.violation({'op': 'movefield', 'kind': 'wide'}, 'movefield(%r, %d) on header %r rows %r delivered %r, definition %r' % (f, to, h, rows, got, want),
                                  {'kind': 'wide', 'what': 'movefield'})
        # cut by name on the int-named header: names that are ints address positions, 'name' its own column
        if h[0] == 'name':
            want = [('name',)] + [pick(r, [0]) for r in rows]
            got = [tuple(r) for r in etl.cut(th, 'name')]
            if got != want:
                viol('cut(name) on %r' % (h,), got, want)
    # Record access: by position, by name and by attribute, short rows read `missing`
    for m in (None, 'NA', 0):
        recs = list(etl.records(t, missing=m)) if m is not None else list(etl.records(t))
        for r, rec in zip(rows, recs):
            for i, f in enumerate(hdr):
                want = r[i] if i < len(r) else m
                try:
                    got = (rec[i], rec[f], getattr(rec, f))
                except Exception as e:
                    got = 'raised %r' % (e,)
                chk.count(('wide-record', m, i, len(r)))
                chk.replayed += 1
                if got != (want, want, want):
                    chk.violation({'op': 'records', 'kind': 'wide'}, 'records(missing=%r): row %r field %r read by index / name / attribute gives %r, definition %r'
                                  % (m, r, f, got, want), {'kind': 'wide', 'what': 'records'})
    # operators that hand the row to user code as a Record: positional access on a short row reads None, nothing is dropped
    want = [('a', 'c')] + [pick(r, [0, 2]) for r in rows]
    for label, fn in (('rowmap(lambda row: [row[0], row[2]])', lambda: etl.rowmap(t, lambda row: [row[0], row[2]], header=['a', 'c'])),
                      ('fieldmap({a: 0, c: 2})', lambda: etl.fieldmap(t, OrderedDict([('a', 0), ('c', 2)]))),
                      ('fieldmap({a: (0, f), c: lambda rec})', lambda: etl.fieldmap(t, OrderedDict([('a', (0, lambda v: v)), ('c', lambda rec: rec[2])]))),
                      ('rowmapmany', lambda: etl.rowmapmany(t, lambda row: [[row[0], row[2]]], header=['a', 'c'])),
                      ('addfield(lambda rec: rec[2]) |> cut', lambda: etl.cut(etl.addfield(t, 'z', lambda rec: rec[2]), 'a', 'z').setheader(['a', 'c'])),
                      ('convert(pass_row) |> cut', lambda: etl.cut(etl.convert(etl.cut(t, 'a', 'b', 'c'), 'c', lambda v, row: row[2], pass_row=True), 'a', 'c')),
                      ('select(lambda rec: rec[4] is None or True) |> cut', lambda: etl.cut(etl.select(t, lambda rec: rec[4] is None or True), 'a', 'c'))):
        try:
            got = [tuple(r) for r in fn()]
        except Exception as e:
            got = 'raised %r' % (e,)
        chk.count(('wide-recordaccess', label))
        chk.replayed += 1
        if got != want:
            chk.violation({'op': label.split('(')[0], 'kind': 'wide'}, '%s over ragged rows %r delivered %r, definition %r' % (label, rows, got, want),
                          {'kind': 'wide', 'what': label})


def run_fill_case(case, down=False):
    import petl as etl
    t = [list(case['hdr'])] + crows(case['rows'])
    tm = [list(case['hdr'])] + [[_fresh(c) for c in r] for r in case['rows']]
    problems = []

    def checkm(label, fn, out):
        # same definition with `missing` = -9999 instead of None
        got = materialise(fn)
        want = want_of(out)
        if want[0] == 'ok':
            want = ('ok', want[1], [tuple(-9999 if c is None else c for c in r) for r in want[2]])
        if got != want:
            problems.append('%s delivered %r, spec %r' % (label, got, want))

    def check(label, fn, out):
        got, want = materialise(fn), want_of(out)
        if got != want:
            problems.append('%s delivered %r, spec %r' % (label, got, want))
    if down:
        check('filldown(a, b)', lambda: etl.filldown(t), case['filldown'])
        check('filldown(a)', lambda: etl.filldown(t, 'a'), case['filldown_a'])
        checkm('filldown(missing=-9999)', lambda: etl.filldown(tm, missing=int('-9999')), case['filldown'])
    else:
        check('fillright', lambda: etl.fillright(t), case['fillright'])
        check('fillleft', lambda: etl.fillleft(t), case['fillleft'])
        checkm('fillright(missing=-9999)', lambda: etl.fillright(tm, missing=int('-9999')), case['fillright'])
        checkm('fillleft(missing=-9999)', lambda: etl.fillleft(tm, missing=int('-9999')), case['fillleft'])
    return problems


def record_traces(n, seed):
    import petl as etl
    rng = random.Random(seed)
    traces = []
    k = itertools.count(11)

    def table(names, maxrows=6, maxlen=6):
        hdr = [rng.choice(names) for _ in range(rng.randrange(1, 5))]
        rows = [[next(k) for _ in range(rng.randrange(0, maxlen))] for _ in range(rng.randrange(0, maxrows))]
        return hdr, rows
    for _ in range(n):
        op = rng.choice(['cut', 'cutout', 'movefield', 'addfield', 'addrownumbers', 'stack', 'annex', 'cat', 'fillright', 'fillleft'])
        hdr, rows = table(['a', 'b', 'c'])
        rec = {'op': op, 'hdr': hdr, 'rows': rows}
        t = [hdr] + [list(r) for r in rows]
        miss = rng.choice([0, 9])
        mkw = {} if miss == 0 else {'missing': M9}
        try:
            if op in ('cut', 'cutout'):
                spec = []
                for _s in range(rng.randrange(1, 4)):
                    spec.append(['n', rng.choice(['a', 'b', 'c', 'd'])] if rng.random() < 0.6 else ['i', rng.randrange(0, len(hdr))])
                rec.update(spec=spec, missing=miss)
                v = getattr(etl, op)(t, *[s[1] for s in spec], **mkw)
            elif op == 'movefield':
                rec.update(name=rng.choice(['a', 'b', 'c']), index=rng.randrange(-3, 6), missing=0)
                v = etl.movefield(t, rec['name'], rec['index'])
            elif op == 'addfield':
                rec.update(index=rng.choice([99, 0, 1, 2, 3, 7, -1, -2, -9]))
                c = itertools.count(1)
                v = etl.addfield(t, 'z', lambda r: 500 + next(c), index=idx(rec['index']))
            elif op == 'addrownumbers':
                rec.update(start=rng.randrange(0, 5), step=rng.randrange(1, 4))
                v = etl.addrownumbers(t, rec['start'], rec['step'])
            elif op in ('stack', 'annex', 'cat'):
                h2, r2 = table(['b', 'c', 'd'])
                if op == 'cat':      # cat resolves by name: distinct names inside each table
                    hdr = list(OrderedDict.fromkeys(hdr))
                    h2 = list(OrderedDict.fromkeys(h2))
                    rec['hdr'] = hdr
                    t = [hdr] + [list(r) for r in rows]
                rec.update(hdr2=h2, rows2=r2, missing=miss)
                v = getattr(etl, op)(t, [h2] + [list(r) for r in r2], **mkw)
            else:
                rows = [[rng.choice([0, 1, 2, 3]) for _ in range(rng.randrange(0, 6))] for _ in range(rng.randrange(0, 5))]
                rec['rows'] = rows
                t = [hdr] + [[cv(c) for c in r] for r in rows]
                v = getattr(etl, op)(t)
            out = [list(r) for r in v]
            rec['out'] = {'hdr': [x for x in out[0]], 'rows': [[(0 if c is None else (9 if c == M9 else c)) for c in r] for r in out[1:]]}
        except Exception as e:
            from petl.errors import FieldSelectionError
            rec['out'] = {'hdr': ERR_HDR if isinstance(e, FieldSelectionError) else ['EXC:' + repr(e)], 'rows': []}
        traces.append(rec)
    return traces


def run(tier, seed):
    chk = Check(PID, tier, seed)
    full = tier == 'thorough'
    cases, fills, downs = common.gen('RowOpsGen', 'RowOpsGenT' if full else 'RowOpsGen', outs=('OUT', 'OUT2', 'OUT3'))
    chk.states += 1          # RowOpsGen: the laws are evaluated as assumptions over all generated tables
    chk.transitions += 1
    for ci, case in enumerate(cases):
        probs = run_case(case)
        chk.count(('case', ci))
        chk.replayed += 1
        for p in probs:
            chk.violation({'op': p.split('(')[0].split(' ')[0], 'dup': len(set(case['hdr'])) != len(case['hdr'])},
                          'hdr=%r rows=%r: %s' % (case['hdr'], case['rows'], p), {'kind': 'case', 'case': case})
    for group, down in ((fills, False), (downs, True)):
        for ci, case in enumerate(group):
            probs = run_fill_case(case, down)
            chk.count(('fill', down, ci))
            chk.replayed += 1
            for p in probs:
                chk.violation({'op': p.split('(')[0].split(' ')[0]}, 'hdr=%r rows=%r: %s' % (case['hdr'], case['rows'], p),
                              {'kind': 'fill', 'case': case, 'down': down})
    chk.sample({'kind': 'rowops-case', 'hdr': cases[200]['hdr'], 'rows': cases[200]['rows'], 'movefield': cases[200]['movefield'][:2]})
    check_wide(chk)
    traces = record_traces(4000 if full else 600, seed)
    r, verdicts = common.validate('RowOpsTrace', traces)
    chk.add_tlc(r, 'RowOpsTrace')
    for tid, (bad,) in sorted(verdicts.items()):
        if bad:
            t = traces[tid - 1]
            chk.violation({'op': t['op'], 'kind': 'trace', 'dup': len(set(t['hdr'])) != len(t['hdr'])},
                          'recorded %s call rejected by RowOpsTrace: %r' % (t['op'], t), {'kind': 'trace', 'seed': seed, 'trace': t})
    chk.validated += len(traces)
    chk.sample({'kind': 'apply-trace', 'trace': traces[0]})
    cand = [i for i, t in enumerate(traces) if t['out']['rows'] and t['out']['rows'][0]]
    bad = json.loads(json.dumps([traces[cand[0]]]))
    bad[0]['out']['rows'][0][0] += 1
    r2, v2 = common.validate('RowOpsTrace', bad, name='RowOpsTraceBad')
    ok = v2[1][0] != 0
    chk.binding_demo = {'corrupted': 'one output cell changed', 'verdict': list(v2[1]), 'rejected_as_expected': ok}
    if not ok and not chk.violations:
        raise tlc.MachineryError('binding demo failed')
    chk.exhaustive = True
    chk.assumptions = ['field selection domain: names and indices 0..len(hdr)-1 (negative SELECTION indices are undocumented and not used); '
                       'insertion indices include negative and out-of-range values',
                       'conversions / fieldmap address fields by name: exercised on headers with distinct names']
    return chk.finish(rule='G: 434 tables (<= 3 fields over 2 names incl. duplicates, <= 2 ragged rows of unique cells) x ~90 calls; 2461 fill '
                           'tables; V: random ragged tables (<= 5 rows) x 10 operators validated by RowOpsTrace')


def replay(path):
    with open(path) as f:
        rp = json.load(f)['replay']
    if rp['kind'] == 'case':
        probs = run_case(rp['case'])
    elif rp['kind'] == 'fill':
        probs = run_fill_case(rp['case'], rp['down'])
    else:
        print('trace replay: rerun ./check C12 with VERIF_SEED=%s' % rp['seed'])
        return 0
    print('\n'.join(probs) or 'holds')
    return 1 if probs else 0
