"""C08 - set operations obey multiset algebra; hash variants agree.

TLC:  SetOps      - the two-pointer loops of itercomplement (strict / non-strict, `b is None`) and
                    iterintersection, the Counter-based hash variants, against bag difference / intersection
                    (SetDefs), a = (a - b) + (a & b), for all pairs of row sequences up to the bound.
G:    SetOpsGen   - every pair of small rectangular tables (None + numbers, duplicates) with the sequences the
                    definitions prescribe, replayed on complement/intersection/diff/recordcomplement/recorddiff/
                    hashcomplement/hashintersection under value profiles, buffersizes and presorted.
V:    SetOpsTrace - Hypothesis table pairs validated by TLC.
"""
import json
import random

from harness import tlc, values, common
from harness.core import Check
from harness.concretize import PROFILES

PID = 'C08'
ACTIONS = ['CStart', 'CLess', 'CEqual', 'CGreater', 'IStart', 'ILess', 'IEqual', 'IGreater', 'HStart', 'HStep', 'HEnd']
HDR = ['f', 'g']


def _shift(prof):
    # the generated rows use the abstract values 0 and 1 only; under the 'collide' profile they are moved to 1 and 2
    # (-2 / -2.0 and -1 / -1.0), two distinct values with the SAME hash, so that different rows collide in every hash table
    return 1 if prof.name == 'collide' else 0


def _tab(rows, prof, occ=0, swap=False):
    sh = _shift(prof)
    rows = [[c + sh for c in r] for r in rows]
    if swap:
        return [['g', 'f']] + [list(reversed(prof.row(r, occ + i))) for i, r in enumerate(rows)]
    return [list(HDR)] + [prof.row(r, occ + i) for i, r in enumerate(rows)]


def run_case(case, swapped, pname, variant, occ=0):
    """All operators on one (a, b) pair. `swapped` is the generated case for (b, a) (for diff).
    Returns list of problem strings."""
    import petl as etl
    prof = PROFILES[pname]
    a, b = _tab(case['a'], prof, occ), _tab(case['b'], prof, occ + 5)
    b_sw = _tab(case['b'], prof, occ + 5, swap=True)
    kw = dict(variant)
    problems = []
    sh = _shift(prof)

    def absrows(t):
        rows = [tuple(r) for r in t]
        if rows[0] != tuple(HDR):
            raise AssertionError('header %r, spec %r' % (rows[0], tuple(HDR)))
        return [_unshift(prof.absrow(r)) for r in rows[1:]]

    def _unshift(ar):
        return [c - sh if isinstance(c, int) else c for c in ar]

    def expect(label, fn, want):
        try:
            got = absrows(fn())
        except Exception as e:
            problems.append('%s raised %r' % (label, e))
            return
        if got != want:
            problems.append('%s delivered %r, spec %r' % (label, got, want))

    if kw.get('presorted'):
        sa, sb = [list(r) for r in etl.sort(a)], [tuple(r) for r in etl.sort(b)]   # list rows vs tuple rows
        expect('complement(presorted)', lambda: etl.complement(sa, sb, presorted=True), case['comp'])
        expect('complement(presorted, strict)', lambda: etl.complement(sa, sb, presorted=True, strict=True), case['compstrict'])
        expect('intersection(presorted)', lambda: etl.intersection(sa, sb, presorted=True), case['inter'])
        return problems
    expect('complement', lambda: etl.complement(a, b, **kw), case['comp'])
    expect('complement(strict)', lambda: etl.complement(a, b, strict=True, **kw), case['compstrict'])
    expect('intersection', lambda: etl.intersection(a, b, **kw), case['inter'])
    expect('recordcomplement', lambda: etl.recordcomplement(a, b_sw, **kw), case['comp'])
    expect('recordcomplement(strict)', lambda: etl.recordcomplement(a, b_sw, strict=True, **kw), case['compstrict'])
    expect('diff[1]', lambda: etl.diff(a, b, **kw)[1], case['comp'])
    expect('diff[0]', lambda: etl.diff(a, b, **kw)[0], swapped['comp'])
    expect('diff(strict)[1]', lambda: etl.diff(a, b, strict=True, **kw)[1], case['compstrict'])
    expect('diff(strict)[0]', lambda: etl.diff(a, b, strict=True, **kw)[0], swapped['compstrict'])
    expect('recorddiff(strict)[1]', lambda: etl.recorddiff(a, b_sw, strict=True, **kw)[1], case['compstrict'])
    expect('recorddiff[1]', lambda: etl.recorddiff(a, b_sw, **kw)[1], case['comp'])
    # recorddiff[0] = recordcomplement(b, a): header and field order are b's (g, f) and the rows are sorted in
    # THAT field order, so only header and multiset are compared with the (f, g)-ordered definition
    try:
        got = [tuple(r) for r in etl.recorddiff(a, b_sw, **kw)[0]]
        gabs = sorted(tuple(reversed(_unshift(prof.absrow(r)))) for r in got[1:])
        want = sorted(tuple(r) for r in swapped['comp'])
        if got[0] != ('g', 'f') or gabs != want:
            problems.append('recorddiff[0] delivered %r, spec (multiset, fields f,g) %r' % (got, want))
    except Exception as e:
        problems.append('recorddiff[0] raised %r' % (e,))
    # record operations over WIDER tables whose shared fields come in a different order in b: a has (f, p, q, g), b has
    # (f, q, p, g) resp. (g, q, f, p) - first and last field in place, the middle ones permuted; p and q are constant
    a4 = [['f', 'p', 'q', 'g']] + [[r[0], u'P', u'Q', r[1]] for r in a[1:]]
    extra = not kw or kw.get('buffersize') == 1          # the argument-spelling layers run on the plain and on one spilling variant
    for bh, pick in (() if not extra else ((['f', 'q', 'p', 'g'], lambda r: [r[0], u'Q', u'P', r[1]]), (['g', 'q', 'f', 'p'], lambda r: [r[1], u'Q', r[0], u'P']))):
        b4 = [bh] + [pick(r) for r in b[1:]]
        for label, fn, want in (('recordcomplement', lambda: etl.recordcomplement(a4, b4, **kw), case['comp']),
                                ('recordcomplement(strict)', lambda: etl.recordcomplement(a4, b4, strict=True, **kw), case['compstrict']),
                                ('recorddiff[1]', lambda: etl.recorddiff(a4, b4, **kw)[1], case['comp'])):
            try:
                got = [tuple(r) for r in fn()]
                ok = got[0] == ('f', 'p', 'q', 'g') and all(r[1:3] == (u'P', u'Q') for r in got[1:]) and \
                    [_unshift(prof.absrow((r[0], r[3]))) for r in got[1:]] == want
            except Exception as e:
                problems.append('%s over 4-field tables, b fields %r, raised %r' % (label, bh, e))
                continue
            if not ok:
                problems.append('%s over 4-field tables (a: f,p,q,g; b: %s) delivered %r, spec rows (f, g) = %r' % (label, ','.join(bh), got, want))
    # `strict` spelled with other falsy / truthy values
    for sv, which in (() if not extra else ((0, 'comp'), (None, 'comp'), (u'', 'comp'), (1, 'compstrict'), (u'yes', 'compstrict'))):
        expect('complement(strict=%r)' % (sv,), lambda: etl.complement(a, b, strict=sv, **kw), case[which])
        expect('recordcomplement(strict=%r)' % (sv,), lambda: etl.recordcomplement(a, b_sw, strict=sv, **kw), case[which])
        if not kw:
            expect('hashcomplement(strict=%r)' % (sv,), lambda: etl.hashcomplement(a, b, strict=sv), case['h' + which])
    if not kw:
        expect('hashcomplement', lambda: etl.hashcomplement(a, b), case['hcomp'])
        expect('hashcomplement(strict)', lambda: etl.hashcomplement(a, b, strict=True), case['hcompstrict'])
        expect('hashintersection', lambda: etl.hashintersection(a, b), case['hinter'])
    return problems


def _job(j):
    ci, case, swapped, pname, variant = j
    return run_case(case, swapped, pname, variant, occ=ci)


def check_cases(chk, cases, profiles, full):
    index = {(json.dumps(c['a']), json.dumps(c['b'])): c for c in cases}
    variants = [{}, {'buffersize': 1}, {'buffersize': 2, 'cache': False}, {'presorted': True}]
    jobs = []
    for ci, case in enumerate(cases):
        swapped = index[(json.dumps(case['b']), json.dumps(case['a']))]
        # thorough: every value profile on the plain call, every strategy variant on two rotating profiles
        combos = ([(p, {}) for p in profiles] + [(profiles[(ci + k) % len(profiles)], v) for k in (0, 3) for v in variants[1:]]) if full else \
            [(profiles[ci % len(profiles)], {}), (profiles[(ci + 1) % len(profiles)], variants[1 + ci % 3])]
        for pname, variant in combos:
            jobs.append((ci, case, swapped, pname, variant))
    results = common.pmap(_job, jobs)
    for (ci, case, swapped, pname, variant), probs in zip(jobs, results):
        if True:
            chk.count(('setop', ci, pname, json.dumps(variant, sort_keys=True)))
            chk.replayed += 1
            for p in probs:
                chk.violation({'op': p.split(' ')[0].split('(')[0]},
                              'a=%r b=%r profile=%s variant=%r: %s' % (case['a'], case['b'], pname, variant, p),
                              {'kind': 'setop', 'case': case, 'swapped': swapped, 'profile': pname, 'variant': variant, 'occ': ci})
    chk.sample({'kind': 'setop-case', 'case': cases[len(cases) // 2]})


def record_traces(n_examples, seed):
    import petl as etl
    from hypothesis import given, strategies as st, seed as hseed
    traces, concrete = [], []
    cell = common.cell_values()
    row = st.tuples(cell, cell)
    ops = ['complement', 'intersection', 'hashcomplement', 'hashintersection', 'recordcomplement']

    @hseed(seed)
    @common.hyp_settings(n_examples, seed)
    @given(st.lists(row, max_size=20), st.lists(row, max_size=20), st.sampled_from(ops), st.booleans(),
           st.sampled_from([None, 1, 3]))
    def go(ra, rb, op, strict, bs):
        rb = [ra[i % len(ra)] if (ra and i % 2 == 0) else r for i, r in enumerate(rb)]
        try:
            abst = values.abstract_batch([tuple(r) for r in ra + rb])
        except (TypeError, ValueError, ArithmeticError):
            return
        lookup = {}
        for r, a in zip(ra + rb, abst):
            lookup.setdefault(repr(a), a)
        a = [list(HDR)] + [list(r) for r in ra]
        b = [list(HDR)] + [list(r) for r in rb]
        kw = {}
        if op in ('complement', 'hashcomplement', 'recordcomplement'):
            kw['strict'] = strict
        else:
            strict = False
        if op in ('complement', 'intersection', 'recordcomplement'):
            kw['buffersize'] = bs
        if op == 'recordcomplement':
            b = [['g', 'f']] + [[r[1], r[0]] for r in rb]
        passes = []
        with common.private_tmp() as tmp:
            if 'buffersize' in kw:
                kw['tempdir'] = tmp
            v = getattr(etl, op)(a, b, **kw)
            for _ in range(2):
                try:
                    out = values.abstract_batch([tuple(r) for r in ra + rb] + [tuple(r) for r in etl.data(v)])[len(ra) + len(rb):]
                    passes.append({'out': out, 'raised': False})
                except Exception as e:
                    passes.append({'out': [], 'raised': True, 'exc': repr(e)})
            del v
        traces.append({'op': op, 'strict': strict, 'A': abst[:len(ra)], 'B': abst[len(ra):], 'passes': passes})
        concrete.append({'op': op, 'kw': repr(kw), 'a': [repr(r) for r in ra], 'b': [repr(r) for r in rb]})
    go()
    # LARGE tables: > 64 / > 16k+1 chunk files and > 256 rows per chunk in the sorts behind the set operations
    rng = random.Random(seed)
    for na, nb, bs in ((343, 170, 3), (67, 33, 2), (700, 350, 300), (130, 65, 1), (99, 49, 3)):
        ra = [(rng.choice([None, 1, 2, 3]), rng.choice([u'x', u'y', None])) for _ in range(na)]
        rb = [ra[rng.randrange(na)] if i % 3 else (9, u'z') for i in range(nb)]
        abst = values.abstract_batch([tuple(r) for r in ra + rb])
        a = [list(HDR)] + [list(r) for r in ra]
        b = [list(HDR)] + [list(r) for r in rb]
        for op in ('complement', 'intersection'):
            passes = []
            with common.private_tmp() as tmp:
                v = getattr(etl, op)(a, b, buffersize=bs, tempdir=tmp)
                for _ in range(2):
                    try:
                        out = values.abstract_batch([tuple(r) for r in ra + rb] + [tuple(r) for r in etl.data(v)])[na + nb:]
                        passes.append({'out': out, 'raised': False})
                    except Exception as e:
                        passes.append({'out': [], 'raised': True, 'exc': repr(e)})
                del v
            traces.append({'op': op, 'strict': False, 'A': abst[:na], 'B': abst[na:], 'passes': passes})
            concrete.append({'op': op, 'kw': 'buffersize=%d' % bs, 'a': '%d rows' % na, 'b': '%d rows' % nb})
    return traces, concrete


def validate_traces(chk, traces, concrete, seed):
    if not traces:
        raise tlc.MachineryError('no setop traces recorded')
    r, verdicts = common.validate('SetOpsTrace', traces)
    chk.add_tlc(r, 'SetOpsTrace')
    for tid, (bad, why) in sorted(verdicts.items()):
        tr = traces[tid - 1]
        raised = [p for p in tr['passes'] if p['raised']]
        if bad or raised:
            chk.violation({'op': tr['op'], 'kind': 'trace'},
                          'recorded %s execution rejected by SetOpsTrace (pass %s, clause %s%s): %r'
                          % (tr['op'], bad, why, (', raised ' + raised[0]['exc']) if raised else '', concrete[tid - 1]),
                          {'kind': 'trace', 'seed': seed, 'concrete': concrete[tid - 1]})
    chk.validated += len(traces)
    chk.sample({'kind': 'trace', 'concrete': concrete[0]})
    cand = [i for i, t in enumerate(traces) if len(t['passes'][0]['out']) >= 1]
    if cand:
        bad = json.loads(json.dumps([traces[cand[0]]]))
        bad[0]['passes'][0]['out'].append(bad[0]['passes'][0]['out'][0])
        r2, v2 = common.validate('SetOpsTrace', bad, name='SetOpsTraceBad')
        ok = v2[1][0] == 1
        chk.binding_demo = {'corrupted': 'first delivered row of pass 1 duplicated at the end', 'verdict': list(v2[1]),
                            'rejected_as_expected': ok}
        if not ok and not chk.violations:
            raise tlc.MachineryError('binding demo failed: corrupted setop trace accepted')


def run(tier, seed):
    chk = Check(PID, tier, seed)
    full = tier == 'thorough'
    cfg = 'SetOpsMC' if full else 'SetOpsMCq'
    r = tlc.require_ok(tlc.run('SetOps', cfg=cfg, timeout=1800), 'SetOps')
    tlc.check_coverage(r, ACTIONS, 'SetOps')
    chk.add_tlc(r, 'SetOps', cfg, ACTIONS)
    cases = common.gen('SetOpsGen')
    profiles = ['ints', 'mixed', 'text', 'compound', 'equalreps', 'collide'] if full else ['ints', 'mixed', 'equalreps', 'collide']
    check_cases(chk, cases, profiles, full)
    traces, concrete = record_traces(2500 if full else 300, seed)
    validate_traces(chk, traces, concrete, seed)
    from harness import algebra
    algebra.run(chk, ['A3'], full, seed)
    chk.exhaustive = True
    chk.assumptions = ['rectangular tables (rows have the header\'s length), as C08 states',
                       'bounds: loop model <= %d rows per side over 3 distinct rows; generated tables <= 3 rows over 4 distinct rows'
                       % (4 if full else 3)]
    return chk.finish(rule='G: every TLC-generated (a, b) pair x 13 operator calls x value profile x strategy variant; '
                           'V: Hypothesis pairs (<= 20 rows) validated by SetOpsTrace; distinct = (case, profile, variant)')


def replay(path):
    with open(path) as f:
        rp = json.load(f)['replay']
    if rp['kind'] == 'setop':
        probs = run_case(rp['case'], rp['swapped'], rp['profile'], rp['variant'], rp['occ'])
        print('\n'.join(probs) or 'holds')
        return 1 if probs else 0
    print('trace replay: rerun ./check C08 with VERIF_SEED=%s; concrete: %r' % (rp['seed'], rp['concrete']))
    return 0
