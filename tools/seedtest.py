#!/usr/bin/env python3
"""Confirm a seeded change and run the matching check against it, in a scratch worktree.

usage: seedtest.py <worktree> <seed-dir> <property-id> <name> [--tier quick]
Writes /verif/seeded/<name>/{patch.diff, demo.py, meta.json} when the change is confirmed
(demo passes on the clean tree, fails with the patch, existing tests still pass)."""
import json, os, re, shutil, subprocess, sys, tempfile, time

def sh(cmd, cwd=None, env=None, timeout=3600):
    p = subprocess.run(cmd, shell=True, cwd=cwd, env=env, stdout=subprocess.PIPE, stderr=subprocess.STDOUT, timeout=timeout)
    p.stdout = p.stdout.decode("utf-8", "replace")
    return p.returncode, p.stdout

def main():
    wt, sd, pid, name = sys.argv[1:5]
    checks = sys.argv[5].split(',') if len(sys.argv) > 5 else [pid]
    env = dict(os.environ, PYTHONPATH=wt, PYTHONHASHSEED='0')
    py = '/venv/bin/python'
    sh('git checkout -- .', cwd=wt)
    rc0, out0 = sh('%s %s/demo.py' % (py, sd), cwd=wt, env=env)
    rc, out = sh('git apply %s/patch.diff' % sd, cwd=wt)
    if rc:
        print(name, 'PATCH DOES NOT APPLY', out); return
    rc1, out1 = sh('%s %s/demo.py' % (py, sd), cwd=wt, env=env)
    rct, outt = sh('%s -m pytest -q -p no:cacheprovider --timeout=900 petl' % py, cwd=wt, env=env)
    m = re.search(r'(\d+) passed', outt)
    passed = int(m.group(1)) if m else -1
    confirmed = rc0 == 0 and rc1 != 0 and passed == 481 and ' failed' not in outt.splitlines()[-1]
    results = {}
    for c in checks:
        outdir = tempfile.mkdtemp(prefix='seedout_')
        t0 = time.time()
        e2 = dict(os.environ, VERIF_REPO=wt, VERIF_OUT=outdir)
        rcc, outc = sh('./check %s --tier quick' % c, cwd='/verif', env=e2)
        viol = [l for l in outc.splitlines() if l.startswith('VIOLATION')]
        detail = ''
        for i, l in enumerate(outc.splitlines()):
            if l.startswith('VIOLATION'):
                detail = outc.splitlines()[i + 1][:400] if i + 1 < len(outc.splitlines()) else ''
                break
        results[c] = {'exit': rcc, 'violations_printed': len(viol), 'first': detail, 'wall_s': round(time.time() - t0, 1),
                      'tail': outc.splitlines()[-1][:300] if outc.splitlines() else ''}
        shutil.rmtree(outdir, ignore_errors=True)
    sh('git checkout -- .', cwd=wt)
    meta = json.load(open(os.path.join(sd, 'meta.json')))
    meta.update({'confirmed': confirmed, 'demo_clean_exit': rc0, 'demo_patched_exit': rc1, 'tests_passed_with_patch': passed,
                 'checks_run': results, 'detected_by': [c for c, r in results.items() if r['exit'] == 1],
                 'ran': 'tools/seedtest.py in scratch worktree %s (VERIF_REPO); patch applied with git apply, reverted afterwards' % wt})
    if confirmed:
        dst = os.path.join('/verif/seeded', name)
        os.makedirs(dst, exist_ok=True)
        shutil.copy(os.path.join(sd, 'patch.diff'), dst)
        shutil.copy(os.path.join(sd, 'demo.py'), dst)
        json.dump(meta, open(os.path.join(dst, 'meta.json'), 'w'), indent=1)
    print(name, 'confirmed=%s' % confirmed, 'detected_by=%s' % meta['detected_by'], {c: (r['exit'], r['first'][:150]) for c, r in results.items()})

main()
