#!/usr/bin/env python3
"""Regenerates the table of behaviour-preserving changes in DESIGN.md (section 11b) from refactors/*/meta.json."""
import glob, json, os
ROOT = os.path.dirname(os.path.dirname(os.path.abspath(__file__)))

def clip(s, n=200):
    s = ' '.join(str(s).replace('|', '/').split())
    return s if len(s) <= n else s[:n - 1] + '…'

rows = []
for f in sorted(glob.glob(os.path.join(ROOT, 'refactors', '*', 'meta.json'))):
    m = json.load(open(f))
    rows.append('| %s | %s | %s | %s |' % (os.path.basename(os.path.dirname(f)), clip(m.get('what', '')), ', '.join(sorted(m['checks_run'])),
                                           'silent' if m['silent'] else 'ALARM: ' + ', '.join(m['alarms'])))
table = '| id | behaviour-preserving change | checks run (anchored in the changed files) | result |\n|---|---|---|---|\n' + '\n'.join(rows) + '\n'
p = os.path.join(ROOT, 'DESIGN.md')
s = open(p).read()
a = s.index('| id | behaviour-preserving change |')
b = s.index('## 12. Running')
s = s[:a] + table + '\n' + s[b:]
open(p, 'w').write(s)
print(len(rows), 'rows')
