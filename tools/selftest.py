#!/usr/bin/env python3
"""Mutation self-test (development aid, not a registered check).

For every `fixed` entry of known_findings.json the fix commit is reverted (git revert --no-commit) in a scratch worktree
outside /repo and /verif; the finding's check must then exit 1 with a VIOLATION line. The unmodified tree must stay
silent. Scratch worktrees are removed afterwards."""
import json, os, shutil, subprocess, sys, tempfile

def sh(cmd, **kw):
    p = subprocess.run(cmd, shell=True, stdout=subprocess.PIPE, stderr=subprocess.STDOUT, universal_newlines=True, **kw)
    return p.returncode, p.stdout

def main():
    findings = [f for f in json.load(open('/verif/known_findings.json')) if f['status'] == 'fixed']
    only = set(sys.argv[1:])
    ok = True
    for f in findings:
        if only and f['id'] not in only:
            continue
        wt = tempfile.mkdtemp(prefix='selftest_wt_')
        os.rmdir(wt)
        out = tempfile.mkdtemp(prefix='selftest_out_')
        try:
            rc, o = sh('git -C /repo worktree add -q --detach %s HEAD' % wt)
            shutil.copy('/repo/petl/version.py', os.path.join(wt, 'petl', 'version.py'))
            rc, o = sh('git revert --no-commit %s' % f['commit'], cwd=wt)
            if rc:
                print('%-5s %s: revert of %s does not apply cleanly any more (later fixes touch the same lines)' % (f['id'], f['property'], f['commit']))
                continue
            env = dict(os.environ, VERIF_REPO=wt, VERIF_OUT=out)
            rc, o = sh('./check %s --tier quick' % f['property'], cwd='/verif', env=env)
            nv = sum(1 for l in o.splitlines() if l.startswith('VIOLATION'))
            good = rc == 1 and nv > 0
            ok = ok and good
            print('%-5s %s: reverted %s -> exit %d, %d VIOLATION lines  %s' % (f['id'], f['property'], f['commit'], rc, nv, 'DETECTED' if good else 'MISSED'))
        finally:
            sh('git -C /repo worktree remove --force %s' % wt)
            shutil.rmtree(out, ignore_errors=True)
    sh('git -C /repo worktree prune')
    sys.exit(0 if ok else 1)

main()
