#!/usr/bin/env python3
"""Regenerates /verif/MANIFEST.json from harness/registry.py (keeps it valid at all times)."""
import json
import os
import sys

ROOT = os.path.dirname(os.path.dirname(os.path.abspath(__file__)))
sys.path.insert(0, ROOT)
from harness.registry import CLAIMED, NOT_APPLICABLE  # noqa: E402

BASE = ("cd /repo && /venv/bin/python -m pytest -ra -q -p no:cacheprovider --timeout=900 "
        "--continue-on-collection-errors")


def main():
    checks = []
    for pid in sorted(CLAIMED):
        c = CLAIMED[pid]
        checks.append({
            'property_id': pid,
            'quick_cmd': './check %s --tier quick' % pid,
            'thorough_cmd': './check %s --tier thorough' % pid,
            'evidence_file': 'evidence/%s.json' % pid,
            'replay_cmd_template': './check %s --replay {path}' % pid,
            'engine': 'tlc-conformance',
            'level_claimed': {'category': 'model_checking', 'text': c['text'], 'design_ref': c['design']},
            'level_note': c['note'],
            'technique': c['technique'],
        })
    na = dict(NOT_APPLICABLE)
    for i in range(1, 21):
        pid = 'C%02d' % i
        if pid not in CLAIMED and pid not in na:
            na[pid] = ('check not built yet (build order in DESIGN.md 2.8); will be claimed once its TLA+ spec '
                       'and conformance harness exist')
    m = {
        'version': 1,
        'setup_cmd': 'true',
        'hooks': {
            'guard': 'PETL_VERIF',
            'enable': 'no source hook: probes wrap sources/targets/connections from outside; for internal steps the checks install a logging handler on petl.transform.sorts (petl already logs its linearisation points at DEBUG level); petl is imported from the /repo working tree',
            'baseline_off_cmd': BASE,
            'source_commits': [],
            'add_only': True,
        },
        'engines': [{'name': 'tlc-conformance', 'path': 'check',
                     'serves_properties': sorted(CLAIMED),
                     'kind_free_text': 'TLA+ specs in specs/ checked by TLC; harness/ replays TLC-generated cases on '
                                       'petl and validates recorded traces with TLC'}],
        'checks': checks,
        'not_applicable': [{'property_id': p, 'reason': r} for p, r in sorted(na.items())],
        'notes': 'See DESIGN.md. exit 0 held / 1 violation / 2 machinery failure.',
    }
    with open(os.path.join(ROOT, 'MANIFEST.json'), 'w') as f:
        json.dump(m, f, indent=1)
    print('MANIFEST.json: %d checks, %d not_applicable' % (len(checks), len(na)))


if __name__ == '__main__':
    main()
