#!/usr/bin/env python3
"""Regenerates the table of seeded changes in DESIGN.md (section 11) from seeded/*/meta.json."""
import glob, json, os, re
ROOT = os.path.dirname(os.path.dirname(os.path.abspath(__file__)))

def clip(s, n=170):
    s = ' '.join(str(s).replace('|', '/').split())
    return s if len(s) <= n else s[:n - 1] + '…'

rows = []
for f in sorted(glob.glob(os.path.join(ROOT, 'seeded', '*', 'meta.json'))):
    m = json.load(open(f))
    rows.append('| %s | %s | %s | %s |' % (os.path.basename(os.path.dirname(f)), clip(m.get('what', '')), clip(m.get('needs', ''), 150),
                                           ', '.join(m.get('detected_by', [])) or 'NOT DETECTED'))
table = '| seeded id | change | needs | detected by |\n|---|---|---|---|\n' + '\n'.join(rows) + '\n'
p = os.path.join(ROOT, 'DESIGN.md')
s = open(p).read()
a = s.index('| seeded id | change | needs | detected by |')
b = s.index('## 11b.') if '## 11b.' in s else s.index('## 12. Running')
s = s[:a] + table + '\n' + s[b:]
open(p, 'w').write(s)
print(len(rows), 'rows')
