#!/usr/bin/env python3
"""False-alarm test: apply a behaviour-preserving change (written by a sub-agent that saw only the property text) in a
scratch worktree and run every check whose property is anchored in one of the changed files (plus the one it was
written against).  All of them must stay silent (exit 0, no VIOLATION line).

usage: refactest.py <worktree> <seed-dir> <property-id> <name>
Writes /verif/refactors/<name>/{patch.diff, demo.py, meta.json}."""
import json, os, re, shutil, subprocess, sys, tempfile, time
from concurrent.futures import ThreadPoolExecutor


def sh(cmd, cwd=None, env=None, timeout=7200):
    p = subprocess.run(cmd, shell=True, cwd=cwd, env=env, stdout=subprocess.PIPE, stderr=subprocess.STDOUT, timeout=timeout)
    return p.returncode, p.stdout.decode('utf-8', 'replace')


def main():
    wt, sd, pid, name = sys.argv[1:5]
    env = dict(os.environ, PYTHONPATH=wt, PYTHONHASHSEED='0')
    py = '/venv/bin/python'
    sh('git checkout -- .', cwd=wt)
    rc0, _ = sh('%s %s/demo.py' % (py, sd), cwd=wt, env=env)
    rc, out = sh('git apply %s/patch.diff' % sd, cwd=wt)
    if rc:
        print(name, 'PATCH DOES NOT APPLY', out)
        return
    rc1, out1 = sh('%s %s/demo.py' % (py, sd), cwd=wt, env=env)
    rct, outt = sh('%s -m pytest -q -p no:cacheprovider --timeout=900 petl' % py, cwd=wt, env=env)
    m = re.search(r'(\d+) passed', outt)
    passed = int(m.group(1)) if m else -1
    confirmed = rc0 == 0 and rc1 == 0 and passed == 481 and ' failed' not in outt.splitlines()[-1]
    changed = [l[6:].strip() for l in open(os.path.join(sd, 'patch.diff')) if l.startswith('+++ b/')]
    checks = {pid}
    for l in open('/verif/properties.jsonl'):
        d = json.loads(l)
        if set(d['anchors']['files']) & set(changed):
            checks.add(d['id'])

    def one(c):
        outdir = tempfile.mkdtemp(prefix='refout_')
        t0 = time.time()
        e2 = dict(os.environ, VERIF_REPO=wt, VERIF_OUT=outdir)
        rcc, outc = sh('./check %s --tier quick' % c, cwd='/verif', env=e2)
        lines = outc.splitlines()
        first = ''
        for i, l in enumerate(lines):
            if l.startswith('VIOLATION') or l.startswith('MACHINERY'):
                first = (l + ' ' + (lines[i + 1] if i + 1 < len(lines) else ''))[:600]
                break
        shutil.rmtree(outdir, ignore_errors=True)
        return c, {'exit': rcc, 'violations_printed': sum(1 for l in lines if l.startswith('VIOLATION')), 'first': first,
                   'wall_s': round(time.time() - t0, 1)}
    with ThreadPoolExecutor(max_workers=4) as ex:
        results = dict(ex.map(one, sorted(checks)))
    sh('git checkout -- .', cwd=wt)
    meta = json.load(open(os.path.join(sd, 'meta.json')))
    alarms = [c for c, r in results.items() if r['exit'] != 0 or r['violations_printed']]
    meta.update({'confirmed': confirmed, 'demo_clean_exit': rc0, 'demo_patched_exit': rc1, 'tests_passed_with_patch': passed,
                 'changed_files': changed, 'checks_run': results, 'alarms': alarms, 'silent': not alarms})
    if confirmed:
        dst = os.path.join('/verif/refactors', name)
        os.makedirs(dst, exist_ok=True)
        shutil.copy(os.path.join(sd, 'patch.diff'), dst)
        shutil.copy(os.path.join(sd, 'demo.py'), dst)
        json.dump(meta, open(os.path.join(dst, 'meta.json'), 'w'), indent=1)
    print(name, 'confirmed=%s' % confirmed, 'checks=%s' % sorted(checks), 'ALARMS=%s' % {c: results[c]['first'][:300] for c in alarms})


main()
