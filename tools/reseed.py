#!/usr/bin/env python3
"""Regression over the kept seeded changes: every seeded/<id>/patch.diff is applied to a scratch worktree of /repo's HEAD
and the check(s) recorded in its meta.json as detecting it must still exit 1 with a VIOLATION line.

usage: reseed.py [id-prefix ...]      (default: all)    -j N parallel worktrees (default 4)"""
import json, os, shutil, subprocess, sys, tempfile
from concurrent.futures import ThreadPoolExecutor


def sh(cmd, cwd=None, env=None):
    p = subprocess.run(cmd, shell=True, cwd=cwd, env=env, stdout=subprocess.PIPE, stderr=subprocess.STDOUT)
    return p.returncode, p.stdout.decode('utf-8', 'replace')


def one(name):
    d = os.path.join('/verif/seeded', name)
    meta = json.load(open(os.path.join(d, 'meta.json')))
    wt = tempfile.mkdtemp(prefix='reseed_wt_')
    os.rmdir(wt)
    out = tempfile.mkdtemp(prefix='reseed_out_')
    try:
        sh('git -C /repo worktree add -q --detach %s HEAD' % wt)
        shutil.copy('/repo/petl/version.py', os.path.join(wt, 'petl', 'version.py'))
        rc, o = sh('git apply %s/patch.diff' % d, cwd=wt)
        if rc:
            return name, 'PATCH-DOES-NOT-APPLY', ''
        res = []
        for c in meta.get('detected_by', []):
            rc, o = sh('./check %s --tier quick' % c, cwd='/verif', env=dict(os.environ, VERIF_REPO=wt, VERIF_OUT=out, VERIF_PROCS=os.environ.get('VERIF_PROCS', '4')))
            nv = sum(1 for l in o.splitlines() if l.startswith('VIOLATION'))
            res.append((c, rc, nv))
        ok = bool(res) and any(rc == 1 and nv > 0 for _, rc, nv in res)
        return name, 'DETECTED' if ok else 'MISSED', res
    finally:
        sh('git -C /repo worktree remove --force %s' % wt)
        shutil.rmtree(out, ignore_errors=True)


def main():
    args = [a for a in sys.argv[1:] if not a.startswith('-j')]
    j = [int(a[2:]) for a in sys.argv[1:] if a.startswith('-j')]
    names = sorted(n for n in os.listdir('/verif/seeded') if os.path.isdir(os.path.join('/verif/seeded', n)) and (not args or any(n.startswith(a) for a in args)))
    bad = 0
    with ThreadPoolExecutor(max_workers=(j[0] if j else 4)) as ex:
        for name, verdict, res in ex.map(one, names):
            print('%-10s %s %s' % (name, verdict, res), flush=True)
            bad += verdict != 'DETECTED'
    sh('git -C /repo worktree prune')
    print('%d seeded changes, %d not detected' % (len(names), bad))
    sys.exit(1 if bad else 0)


main()
