#!/usr/bin/env python3
"""Regression over the kept behaviour-preserving changes: every refactors/<id>/patch.diff is applied to a scratch
worktree of /repo's HEAD and the checks recorded in its meta.json must all stay silent (exit 0, no VIOLATION line).

usage: rerefactor.py [id-prefix ...] [-jN]"""
import json, os, shutil, subprocess, sys, tempfile
from concurrent.futures import ThreadPoolExecutor


def sh(cmd, cwd=None, env=None):
    p = subprocess.run(cmd, shell=True, cwd=cwd, env=env, stdout=subprocess.PIPE, stderr=subprocess.STDOUT)
    return p.returncode, p.stdout.decode('utf-8', 'replace')


def one(name):
    d = os.path.join('/verif/refactors', name)
    meta = json.load(open(os.path.join(d, 'meta.json')))
    wt = tempfile.mkdtemp(prefix='reref_wt_')
    os.rmdir(wt)
    out = tempfile.mkdtemp(prefix='reref_out_')
    try:
        sh('git -C /repo worktree add -q --detach %s HEAD' % wt)
        shutil.copy('/repo/petl/version.py', os.path.join(wt, 'petl', 'version.py'))
        rc, o = sh('git apply %s/patch.diff' % d, cwd=wt)
        if rc:
            return name, 'PATCH-DOES-NOT-APPLY', ''
        alarms = []
        for c in sorted(meta.get('checks_run', {})):
            rc, o = sh('./check %s --tier quick' % c, cwd='/verif', env=dict(os.environ, VERIF_REPO=wt, VERIF_OUT=out, VERIF_PROCS=os.environ.get('VERIF_PROCS', '4')))
            nv = [l for l in o.splitlines() if l.startswith('VIOLATION') or l.startswith('MACHINERY')]
            if rc != 0 or nv:
                lines = o.splitlines()
                first = ''
                for i, l in enumerate(lines):
                    if l.startswith('VIOLATION') or l.startswith('MACHINERY'):
                        first = (l + ' ' + (lines[i + 1] if i + 1 < len(lines) else ''))[:400]
                        break
                alarms.append((c, rc, first))
        return name, 'SILENT' if not alarms else 'ALARM', alarms
    finally:
        sh('git -C /repo worktree remove --force %s' % wt)
        shutil.rmtree(out, ignore_errors=True)


def main():
    args = [a for a in sys.argv[1:] if not a.startswith('-j')]
    j = [int(a[2:]) for a in sys.argv[1:] if a.startswith('-j')]
    names = sorted(n for n in os.listdir('/verif/refactors') if os.path.isdir(os.path.join('/verif/refactors', n)) and (not args or any(n.startswith(a) for a in args)))
    bad = 0
    with ThreadPoolExecutor(max_workers=(j[0] if j else 4)) as ex:
        for name, verdict, res in ex.map(one, names):
            print('%-10s %s %s' % (name, verdict, res), flush=True)
            bad += verdict != 'SILENT'
    sh('git -C /repo worktree prune')
    print('%d behaviour-preserving changes, %d alarms' % (len(names), bad))
    sys.exit(1 if bad else 0)


main()
