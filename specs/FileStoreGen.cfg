CONSTANTS MaxRows = 2
          MaxOps = 3
          Variant = "ok"
INIT Init
NEXT Next
INVARIANT Emit
