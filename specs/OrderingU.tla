----------------------------- MODULE OrderingU -----------------------------
(* Bounded universe of typed abstract values shared by the Ordering configs. *)
EXTENDS Ordering, FiniteSets, SequencesExt
CONSTANT Deep   \* TRUE: full inner universe (thorough); FALSE: reduced (quick)

Scalars == {NoneV}
           \cup {Scalar("num", r) : r \in 1..3}
           \cup {Scalar(c, r) : c \in {"date", "datetime", "bytes", "time", "text"}, r \in 1..2}

\* elements allowed inside sequences: a sub-universe that still crosses every ladder branch,
\* plus two sequences so that nesting depth 2 is reached
Inner == IF Deep
         THEN {NoneV, Scalar("num", 1), Scalar("num", 2), Scalar("bytes", 1), Scalar("text", 1),
               SeqV(<<>>), SeqV(<<Scalar("num", 1)>>)}
         ELSE {NoneV, Scalar("num", 1), Scalar("text", 1), SeqV(<<Scalar("num", 1)>>)}

Seqs == {SeqV(<<>>)} \cup {SeqV(<<a>>) : a \in Inner} \cup {SeqV(<<a, b>>) : a, b \in Inner}

U == Scalars \cup Seqs
=============================================================================
