----------------------------- MODULE JoinTrace -----------------------------
(***************************************************************************)
(* Trace validation for C06 / C07 (code -> spec).  One recorded execution  *)
(* = one real join view over two random tables: the key columns (typed     *)
(* abstract values, native ranks), the operator, and one `pass` event per  *)
(* completed pass carrying the delivered rows as <<l, r>> pairs of input   *)
(* positions (0 = padded side), recovered from the payload cells.          *)
(* The pass is accepted iff it is exactly the relational result            *)
(* (RelJoin!RelJoinSet) and is ordered as the operator promises:           *)
(*   order = "key"    grouped in ascending key order (sort-merge joins)    *)
(*   order = "left"   in the order of the left rows  (hash joins streaming  *)
(*   order = "right"  in the order of the right rows  the left/right side) *)
(***************************************************************************)
EXTENDS RelJoin, Ordering, Json, IOUtils, TLC, SequencesExt

Trace == ndJsonDeserialize(IOEnv.TRACE_FILE)

VARIABLES tid, l, bad, why
vars == <<tid, l, bad, why>>
Init == tid \in 1..Len(Trace) /\ l = 0 /\ bad = 0 /\ why = "ok"

PK(p, T) == IF p[1] # 0 THEN T.LK[p[1]] ELSE T.RK[p[2]]
SetOk(out, T) == /\ ToSet(out) = RelJoinSet(T.op, T.LK, T.RK)
                 /\ Len(out) = Cardinality(RelJoinSet(T.op, T.LK, T.RK))
OrderOk(out, T) ==
  CASE T.order = "key"   -> \A i \in 1..(Len(out) - 1) : ~Lt(PK(out[i + 1], T), PK(out[i], T))
    [] T.order = "left"  -> \A i \in 1..(Len(out) - 1) : out[i][1] <= out[i + 1][1]
    [] T.order = "right" -> \A i \in 1..(Len(out) - 1) : out[i][2] <= out[i + 1][2]
    [] OTHER -> TRUE

Pass ==
  LET T == Trace[tid] IN
  /\ l < Len(T.passes)
  /\ l' = l + 1
  /\ LET out == T.passes[l + 1].out
         s == SetOk(out, T)
         o == OrderOk(out, T) IN
     /\ bad' = IF bad = 0 /\ ~(s /\ o) THEN l + 1 ELSE bad
     /\ why' = IF bad = 0 /\ ~s THEN "rows" ELSE IF bad = 0 /\ ~o THEN "order" ELSE why
  /\ UNCHANGED tid

Next == Pass
Done == l = Len(Trace[tid].passes)
Verdict == Done => PrintT(<<"VERDICT", tid, bad, why>>)
=============================================================================
