------------------------------ MODULE GroupBy ------------------------------
(***************************************************************************)
(* The grouping pipeline behind aggregate / rowreduce / fold / groupselect* *)
(* / mergeduplicates (petl/transform/reductions.py, util/base.rowgroupby):  *)
(* stable sort by key (C05), then itertools.groupby over Comparable keys -  *)
(* modelled as a scan that closes a group whenever the key changes - and    *)
(* groupselectmin/max's two-sort pipeline (sort by value, then by key).     *)
(* Variant "orig": groupselectmin/max forward presorted=True to the inner   *)
(* key sort although the value sort has destroyed the key order (F9).       *)
(***************************************************************************)
EXTENDS GroupDefs

CONSTANTS MaxRows, KeyVals, ValVals, Variant

VARIABLES K, V, op, presorted, pc, seq, i, cur, groups
vars == <<K, V, op, presorted, pc, seq, i, cur, groups>>

N == Len(K)
Rows == [j \in 1..N |-> <<K[j], V[j]>>]
ByKey(ids) == Apply(StableOrder([p \in 1..Len(ids) |-> CellVal(K[ids[p]])], FALSE), ids)
ByVal(ids, rev) == Apply(StableOrder([p \in 1..Len(ids) |-> CellVal(V[ids[p]])], rev), ids)
Ident == [j \in 1..N |-> j]
KeySorted(k) == \A j \in 1..(Len(k) - 1) : ~Lt(CellVal(k[j + 1]), CellVal(k[j]))

Init ==
  /\ K \in UNION {[1..n -> KeyVals] : n \in 0..MaxRows}
  /\ V \in [1..Len(K) -> ValVals]
  /\ op \in {"group", "selectmin", "selectmax"}
  /\ presorted \in BOOLEAN
  /\ (presorted => KeySorted(K))          \* presorted=True is only legal on key-sorted input
  /\ pc = "sort" /\ seq = <<>> /\ i = 0 /\ cur = <<>> /\ groups = <<>>

\* the sorts in front of the grouping scan
Sort ==
  /\ pc = "sort"
  /\ seq' = CASE op = "group" -> IF presorted THEN Ident ELSE ByKey(Ident)
              [] op \in {"selectmin", "selectmax"} ->
                   LET byval == ByVal(Ident, op = "selectmax") IN
                   IF presorted /\ Variant = "orig" THEN byval      \* inner key sort skipped
                   ELSE ByKey(byval)
  /\ pc' = "scan"
  /\ UNCHANGED <<K, V, op, presorted, i, cur, groups>>

\* itertools.groupby: a new group starts whenever the key differs from the previous row's key
ScanStep ==
  /\ pc = "scan" /\ i < Len(seq)
  /\ i' = i + 1
  /\ IF cur = <<>> \/ K[seq[i + 1]] = K[cur[Len(cur)]]
     THEN cur' = Append(cur, seq[i + 1]) /\ UNCHANGED groups
     ELSE groups' = Append(groups, cur) /\ cur' = <<seq[i + 1]>>
  /\ UNCHANGED <<K, V, op, presorted, pc, seq>>
ScanEnd ==
  /\ pc = "scan" /\ i = Len(seq)
  /\ groups' = IF cur = <<>> THEN groups ELSE Append(groups, cur)
  /\ pc' = "done"
  /\ UNCHANGED <<K, V, op, presorted, seq, i, cur>>

Next == Sort \/ ScanStep \/ ScanEnd
Spec == Init /\ [][Next]_vars
----------------------------------------------------------------------------
Done == pc = "done"
P == Partition(Rows, <<1>>)
\* one group per distinct key, ascending, each with exactly its rows
GroupsArePartition == Done => /\ Len(groups) = Len(P)
                              /\ \A g \in 1..Len(P) : ToSet(groups[g]) = ToSet(P[g].members)
\* plain grouping keeps input order inside a group
MembersInInputOrder == Done /\ op = "group" => \A g \in 1..Len(P) : groups[g] = P[g].members
\* conservation: every row in exactly one group; counts add up
Conservation == Done => /\ EachRowOnce(Rows, <<1>>)
                        /\ FoldLeft(LAMBDA a, g : a + Len(g), 0, groups) = N
\* groupselectmin/max = first of each group after the two sorts = the definition's selection
SelectionCorrect == Done /\ op \in {"selectmin", "selectmax"} /\ Len(groups) = Len(P) =>
   \A g \in 1..Len(P) : groups[g][1] = (IF op = "selectmin" THEN MinBy(Rows, P[g].members, 2)
                                                            ELSE MaxBy(Rows, P[g].members, 2))
=============================================================================
