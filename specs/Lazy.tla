-------------------------------- MODULE Lazy --------------------------------
(***************************************************************************)
(* C02: laziness as demand/pull accounting.                                *)
(*                                                                         *)
(* A pipeline is a sequence of streaming stages over one source of L data  *)
(* rows (the header row is accounted separately by the harness).  Stage    *)
(* classes (what matters for pulls):                                       *)
(*   <<"map", c>>     one output per input, needs c rows of lookahead      *)
(*                    (cut, convert, addfield ...: c = 0;                  *)
(*                     addfieldusingcontext, selectusingcontext: c = 1)    *)
(*   <<"filter", m>>  passes every m-th input row (select ...)             *)
(*   <<"expand", f>>  f output rows per input row (melt, rowmapmany ...)   *)
(*   <<"slice", a, s>> rowslice(a, None, s): input rows a+1, a+1+s, ...    *)
(*                                                                         *)
(* Operational model: every stage forwards rows on demand only.  want[s] = *)
(* output rows stage s has been asked for, got[s] = rows it has received   *)
(* from upstream (got[1] = rows pulled from the source).  Avail(s) = how   *)
(* many outputs stage s can produce from what it has received.             *)
(*                                                                         *)
(* The law: after k rows were requested, the source pulls never exceed     *)
(* Need(k) + Slack, where Need composes the per-stage need functions and   *)
(* Slack is the sum of the lookahead constants - and construction pulls    *)
(* nothing.  It holds for every composition (closed under composition).    *)
(***************************************************************************)
EXTENDS Naturals, Sequences, FiniteSets, Json, TLC

CONSTANTS L, MaxDepth, MaxK

Classes == {<<"map", 0>>, <<"map", 1>>, <<"filter", 2>>, <<"expand", 2>>, <<"slice", 1, 2>>}
Pipelines == UNION {[1..d -> Classes] : d \in 1..MaxDepth}

VARIABLES pipe, want, got, delivered, asked
vars == <<pipe, want, got, delivered, asked>>
D == Len(pipe)

Min(a, b) == IF a < b THEN a ELSE b
CeilDiv(a, b) == (a + b - 1) \div b

\* rows stage s can output given it received g input rows and whether its upstream is exhausted
OutOf(st, g, upDone) ==
  CASE st[1] = "map"    -> IF upDone THEN g ELSE (IF g > st[2] THEN g - st[2] ELSE 0)
    [] st[1] = "filter" -> g \div st[2]
    [] st[1] = "expand" -> g * st[2]
    [] st[1] = "slice"  -> IF g <= st[2] THEN 0 ELSE CeilDiv(g - st[2], st[3])

\* upstream of stage s is exhausted and fully forwarded
RECURSIVE Total(_)
Total(s) == IF s = 0 THEN L ELSE OutOf(pipe[s], Total(s - 1), TRUE)     \* rows stage s outputs in a full pass
UpDone(s) == got[s] = Total(s - 1)
Avail(s) == OutOf(pipe[s], got[s], UpDone(s))

Init == /\ pipe \in Pipelines
        /\ want = [s \in 1..Len(pipe) |-> 0] /\ got = [s \in 1..Len(pipe) |-> 0]
        /\ delivered = 0 /\ asked = 0

\* the consumer calls next()
Ask == /\ asked < MaxK /\ asked = delivered
       /\ asked' = asked + 1
       /\ want' = [want EXCEPT ![D] = asked + 1]
       /\ UNCHANGED <<pipe, got, delivered>>

\* stage s lacks outputs for what it was asked: it takes one row from upstream if one is ready ...
Transfer(s) ==
  /\ Avail(s) < want[s] /\ ~UpDone(s)
  /\ IF s = 1 THEN TRUE ELSE Avail(s - 1) > got[s]
  /\ got' = [got EXCEPT ![s] = @ + 1]
  /\ UNCHANGED <<pipe, want, delivered, asked>>
\* ... otherwise it asks its upstream stage for one more
RequestUp(s) ==
  /\ s > 1 /\ Avail(s) < want[s] /\ ~UpDone(s)
  /\ Avail(s - 1) <= got[s] /\ want[s - 1] <= got[s]
  /\ want' = [want EXCEPT ![s - 1] = got[s] + 1]
  /\ UNCHANGED <<pipe, got, delivered, asked>>

\* the last stage hands the requested row to the consumer (or signals exhaustion)
Deliver ==
  /\ delivered < asked
  /\ (Avail(D) >= asked \/ (UpDone(D) /\ Avail(D) < asked))
  /\ delivered' = asked
  /\ UNCHANGED <<pipe, want, got, asked>>

Next == Ask \/ Deliver \/ \E s \in 1..D : Transfer(s) \/ RequestUp(s)
Spec == Init /\ [][Next]_vars
----------------------------------------------------------------------------
\* per-stage need: input rows required to produce k output rows (beyond lookahead)
NeedOf(st, k) ==
  IF k = 0 THEN 0 ELSE
  CASE st[1] = "map"    -> k
    [] st[1] = "filter" -> k * st[2]
    [] st[1] = "expand" -> CeilDiv(k, st[2])
    [] st[1] = "slice"  -> st[2] + (k - 1) * st[3] + 1
LookaheadOf(st) == IF st[1] = "map" THEN st[2] ELSE 0
\* composed need at the source for k rows out of the pipeline p: every stage adds its lookahead to what it asks
RECURSIVE NeedFrom(_, _, _)
NeedFrom(p, s, k) == IF s = 0 THEN k ELSE NeedFrom(p, s - 1, NeedOf(p[s], k) + LookaheadOf(p[s]))
Need(p, k) == NeedFrom(p, Len(p), k)

\* The property itself only promises "k plus a SMALL CONSTANT": an implementation may read a few rows ahead in every
\* stage (block-wise pulling, one row of lookahead in a filter ...).  Small is that constant per stage; the property-level
\* bound composes it through the stages exactly like the lookahead (a stage that over-reads asks its upstream for more).
\* 100 = two orders of magnitude above the largest lookahead of the code as found (1), enough for a stage that fetches
\* its input in blocks (a false-alarm test pulled 64 rows at a time in every select), and an order of magnitude below
\* every sample / batch size petl uses (1000), so that reading a whole sample or chunk is still refused.
Small == 100
RECURSIVE NeedFromS(_, _, _)
NeedFromS(p, s, k) == IF s = 0 THEN k ELSE NeedFromS(p, s - 1, NeedOf(p[s], k) + LookaheadOf(p[s]) + Small)
NeedS(p, k) == NeedFromS(p, Len(p), k)
\* the exact model is within the tolerant bound, for every pipeline
ASSUME \A p \in Pipelines : \A k \in 1..MaxK : Need(p, k) <= NeedS(p, k)

\* C02: pulls for k requested rows are bounded by the composed need (which does not mention L) ...
PullBound == got[1] <= Min(L, Need(pipe, asked))
\* ... nothing is pulled before the first row is requested (construction reads no data row)
ConstructionReadsNothing == asked = 0 => got[1] = 0
\* ... and no stage ever holds more than it needs for what was asked of it
StagewiseBound == \A s \in 1..D : got[s] <= NeedOf(pipe[s], want[s]) + LookaheadOf(pipe[s])
\* the bound is independent of the source length: it is the same expression for every L (syntactic), and tight:
\* when the source is long enough the model pulls exactly the composed need
Tight == delivered = asked /\ asked > 0 /\ Need(pipe, asked) <= L => got[1] = Need(pipe, asked)

\* case emission: for every pipeline and k the bound, for replay on real operator compositions
Bounds(p) == [k \in 1..MaxK |-> Need(p, k)]
TolerantBounds(p) == [k \in 1..MaxK |-> NeedS(p, k)]
=============================================================================
