----------------------------- MODULE MergeJoin -----------------------------
(***************************************************************************)
(* The sort-merge join loops of petl/transform/joins.py - iterjoin (join,  *)
(* leftjoin, rightjoin, outerjoin), iterantijoin and iterlookupjoin -      *)
(* transcribed exit by exit, and the relational definitions they must      *)
(* implement (C06).                                                        *)
(*                                                                         *)
(* Inputs are the key columns of the two (unsorted) tables: LK[i] / RK[j]  *)
(* is the key of left row i / right row j (naturals, 0 = None).  Output    *)
(* rows are identified as pairs <<l, r>> of input positions, 0 standing    *)
(* for "padded with missing".  Row assembly (padding, key copy, header,    *)
(* prefixes, squaring up) is definition-level and lives in JoinGen.tla.    *)
(*                                                                         *)
(* Variant = "orig" models the loops as found at the pinned commit (the    *)
(* flush blocks decide by comparing the last key values against the        *)
(* Comparable(None) sentinel; lookupjoin compares raw keys).  TLC reports  *)
(* F3/F4 on it.  Variant = "fixed" models the repaired code.               *)
(***************************************************************************)
EXTENDS Naturals, Sequences, FiniteSets, SequencesExt, Sorting, RelJoin

CONSTANTS MaxRows, Vals, Ops, Variant

KeyVal(n) == IF n = 0 THEN NoneV ELSE Scalar("num", n)
KeysOf(ks) == [i \in 1..Len(ks) |-> KeyVal(ks[i])]

\* sort() then itertools.groupby(key): ascending groups, members in input order
SortedIds(ks) == StableOrder(KeysOf(ks), FALSE)
RECURSIVE GroupAdj(_, _)
GroupAdj(ids, ks) ==   \* groupby over the sorted ids: adjacent equal keys
  IF ids = <<>> THEN <<>>
  ELSE LET k == ks[Head(ids)]
           n == CHOOSE m \in 1..Len(ids) : /\ \A i \in 1..m : ks[ids[i]] = k
                                           /\ (m = Len(ids) \/ ks[ids[m + 1]] # k)
       IN <<[k |-> k, ids |-> SubSeq(ids, 1, n)]>> \o GroupAdj(SubSeq(ids, n + 1, Len(ids)), ks)
Groups(ks) == GroupAdj(SortedIds(ks), ks)

VARIABLES
  LK, RK,             \* inputs
  op,                 \* "join" | "left" | "right" | "outer" | "anti" | "lookup"
  pc,
  li, ri,             \* number of groups obtained so far from lgit / rgit
  lkval, rkval,       \* last key values (0 = None = the Comparable(None) sentinel)
  lgrp, rgrp,         \* current row groups (ids)
  rstarted,           \* "fixed" only: the initial next(rgit) succeeded
  out                 \* emitted rows as <<l, r>> pairs

vars == <<LK, RK, op, pc, li, ri, lkval, rkval, lgrp, rgrp, rstarted, out>>

LG == Groups(LK)
RG == Groups(RK)
leftouter == op \in {"left", "outer"}
rightouter == op \in {"right", "outer"}

\* key comparison.  iterjoin / iterantijoin (and the fixed lookupjoin) wrap keys in Comparable:
\* total, None smallest.  The original lookupjoin compares raw values: any comparison that
\* involves None raises TypeError.
Raw == Variant = "orig" /\ op = "lookup"
Crashes(a, b) == Raw /\ (a = 0 \/ b = 0)

\* joinrows()
Pad(ids) == [i \in 1..Len(ids) |-> <<ids[i], 0>>]
PadR(ids) == [i \in 1..Len(ids) |-> <<0, ids[i]>>]
RECURSIVE Product(_, _)
Product(ls, rs) == IF ls = <<>> THEN <<>>
                   ELSE [j \in 1..Len(rs) |-> <<Head(ls), rs[j]>>] \o Product(Tail(ls), rs)
FirstOnly(ls, rs) == [i \in 1..Len(ls) |-> <<ls[i], rs[1]>>]
EmitLeftOnly(ids) == IF op \in {"left", "outer", "lookup"} THEN Pad(ids)
                     ELSE IF op = "anti" THEN Pad(ids) ELSE <<>>
EmitRightOnly(ids) == IF rightouter THEN PadR(ids) ELSE <<>>
EmitMatch(ls, rs) == IF op = "anti" THEN <<>>
                     ELSE IF op = "lookup" THEN FirstOnly(ls, rs)
                     ELSE Product(ls, rs)

Init ==
  /\ LK \in UNION {[1..n -> Vals] : n \in 0..MaxRows}
  /\ RK \in UNION {[1..n -> Vals] : n \in 0..MaxRows}
  /\ op \in Ops
  /\ pc = "pickl" /\ li = 0 /\ ri = 0 /\ lkval = 0 /\ rkval = 0
  /\ lgrp = <<>> /\ rgrp = <<>> /\ rstarted = FALSE /\ out = <<>>

\* lkval, lrowgrp = next(lgit)
PickLeft ==
  /\ pc = "pickl"
  /\ IF Len(LG) = 0 THEN pc' = "flushl" /\ UNCHANGED <<li, lkval, lgrp>>
     ELSE li' = 1 /\ lkval' = LG[1].k /\ lgrp' = LG[1].ids /\ pc' = "pickr"
  /\ UNCHANGED <<LK, RK, op, ri, rkval, rgrp, rstarted, out>>

\* rkval, rrowgrp = next(rgit)
PickRight ==
  /\ pc = "pickr"
  /\ IF Len(RG) = 0 THEN pc' = "flushl" /\ UNCHANGED <<ri, rkval, rgrp, rstarted>>
     ELSE ri' = 1 /\ rkval' = RG[1].k /\ rgrp' = RG[1].ids /\ rstarted' = TRUE /\ pc' = "loop"
  /\ UNCHANGED <<LK, RK, op, li, lkval, lgrp, out>>

CmpCrash ==
  /\ pc = "loop" /\ Crashes(lkval, rkval)
  /\ pc' = "crash"
  /\ UNCHANGED <<LK, RK, op, li, ri, lkval, rkval, lgrp, rgrp, rstarted, out>>

\* if lkval < rkval: emit left group (outer), advance left
Less ==
  /\ pc = "loop" /\ ~Crashes(lkval, rkval) /\ lkval < rkval
  /\ out' = out \o EmitLeftOnly(lgrp)
  /\ IF li = Len(LG) THEN pc' = "flushl" /\ UNCHANGED <<li, lkval, lgrp>>
     ELSE li' = li + 1 /\ lkval' = LG[li + 1].k /\ lgrp' = LG[li + 1].ids /\ pc' = "loop"
  /\ UNCHANGED <<LK, RK, op, ri, rkval, rgrp, rstarted>>

\* elif lkval > rkval: emit right group (outer), advance right
Greater ==
  /\ pc = "loop" /\ ~Crashes(lkval, rkval) /\ lkval > rkval
  /\ out' = out \o EmitRightOnly(rgrp)
  /\ IF ri = Len(RG) THEN pc' = "flushl" /\ UNCHANGED <<ri, rkval, rgrp>>
     ELSE ri' = ri + 1 /\ rkval' = RG[ri + 1].k /\ rgrp' = RG[ri + 1].ids /\ pc' = "loop"
  /\ UNCHANGED <<LK, RK, op, li, lkval, lgrp, rstarted>>

\* else: emit the joined groups, advance both (left first; either may raise StopIteration)
Equal ==
  /\ pc = "loop" /\ ~Crashes(lkval, rkval) /\ lkval = rkval
  /\ out' = out \o EmitMatch(lgrp, rgrp)
  /\ IF li = Len(LG)
     THEN pc' = "flushl" /\ UNCHANGED <<li, lkval, lgrp, ri, rkval, rgrp>>
     ELSE /\ li' = li + 1 /\ lkval' = LG[li + 1].k /\ lgrp' = LG[li + 1].ids
          /\ IF ri = Len(RG) THEN pc' = "flushl" /\ UNCHANGED <<ri, rkval, rgrp>>
             ELSE ri' = ri + 1 /\ rkval' = RG[ri + 1].k /\ rgrp' = RG[ri + 1].ids /\ pc' = "loop"
  /\ UNCHANGED <<LK, RK, op, rstarted>>

RestLeft == IF li >= Len(LG) THEN <<>>
            ELSE FoldLeft(LAMBDA acc, g : acc \o EmitLeftOnly(g.ids), <<>>, SubSeq(LG, li + 1, Len(LG)))
RestRight == IF ri >= Len(RG) THEN <<>>
             ELSE FoldLeft(LAMBDA acc, g : acc \o EmitRightOnly(g.ids), <<>>, SubSeq(RG, ri + 1, Len(RG)))

\* "anything that got left hanging" on the left, then the rest of lgit
Hanging == IF Variant = "orig" THEN lkval > rkval ELSE (lkval > rkval \/ (~rstarted /\ li > 0))
FlushLeft ==
  /\ pc = "flushl"
  /\ IF Crashes(lkval, rkval) /\ op = "lookup"
     THEN pc' = "crash" /\ UNCHANGED out
     ELSE /\ out' = out \o (IF Hanging THEN EmitLeftOnly(lgrp) ELSE <<>>) \o RestLeft
          /\ pc' = "flushr"
  /\ UNCHANGED <<LK, RK, op, li, ri, lkval, rkval, lgrp, rgrp, rstarted>>

FlushRight ==
  /\ pc = "flushr"
  /\ out' = out \o (IF lkval < rkval THEN EmitRightOnly(rgrp) ELSE <<>>) \o RestRight
  /\ pc' = "done"
  /\ UNCHANGED <<LK, RK, op, li, ri, lkval, rkval, lgrp, rgrp, rstarted>>

Next == PickLeft \/ PickRight \/ CmpCrash \/ Less \/ Greater \/ Equal \/ FlushLeft \/ FlushRight
Spec == Init /\ [][Next]_vars

----------------------------------------------------------------------------
\* Definitions (C06): the relational operators over row positions
RelJoin(o) == RelJoinSet(o, LK, RK)

PairKey(p) == IF p[1] # 0 THEN LK[p[1]] ELSE RK[p[2]]

NoCrash == pc # "crash"
\* every row of the relational result exactly once, nothing else
JoinCorrect == pc = "done" => /\ Range(out) = RelJoin(op)
                              /\ Len(out) = Cardinality(RelJoin(op))
\* output grouped in ascending key order
KeyAscending == pc = "done" => \A i \in 1..(Len(out) - 1) : PairKey(out[i]) <= PairKey(out[i + 1])
\* within one key group: left rows in input order, then right rows in input order (model level)
GroupOrder == pc = "done" => \A i \in 1..(Len(out) - 1) :
                 PairKey(out[i]) = PairKey(out[i + 1]) /\ out[i][1] # 0 /\ out[i + 1][1] # 0 =>
                    (out[i][1] < out[i + 1][1] \/ (out[i][1] = out[i + 1][1] /\ out[i][2] < out[i + 1][2]))
=============================================================================
