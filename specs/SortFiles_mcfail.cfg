CONSTANTS NSet = {1, 2, 3}
          BSet = {1, 2, 4}
          CacheSet = {TRUE, FALSE}
          FailSet = {1, 2, 3, 4, 101, 102, 103}
          NIter = 2
          MaxSteps = 30
VIEW View
INIT Init
NEXT Next
INVARIANT NoLeak
INVARIANT ReadersHaveFiles
INVARIANT Complete
INVARIANT MemPathNoFiles
