----------------------------- MODULE DedupDefs -----------------------------
(***************************************************************************)
(* Definitions for C10: duplicates / unique / distinct / conflicts /        *)
(* isunique in terms of key multiplicity.  `rows` is the table in SORTED    *)
(* order (stable sort by key, C05); idx the key positions (all positions    *)
(* when no key is given).  Results are sequences of positions in `rows`.    *)
(***************************************************************************)
EXTENDS Tables

KeyAt(rows, idx, i) == RawKey(rows[i], idx)
Mult(rows, idx, i) == Cardinality({j \in 1..Len(rows) : KeyAt(rows, idx, j) = KeyAt(rows, idx, i)})
Positions(rows) == [i \in 1..Len(rows) |-> i]

DuplicatesDef(rows, idx) == SelectSeq(Positions(rows), LAMBDA i : Mult(rows, idx, i) > 1)
UniqueDef(rows, idx) == SelectSeq(Positions(rows), LAMBDA i : Mult(rows, idx, i) = 1)
\* the first row of every key group (in sorted order)
IsFirstOfKey(rows, idx, i) == \A j \in 1..(i - 1) : KeyAt(rows, idx, j) # KeyAt(rows, idx, i)
DistinctDef(rows, idx) == SelectSeq(Positions(rows), LAMBDA i : IsFirstOfKey(rows, idx, i))
CountsDef(rows, idx) == [p \in 1..Len(DistinctDef(rows, idx)) |-> Mult(rows, idx, DistinctDef(rows, idx)[p])]
IsUniqueDef(rows, idx) == \A i \in 1..Len(rows) : Mult(rows, idx, i) = 1

\* two rows of one key group disagree on some field where neither holds `missing`
Disagree(r1, r2, missing) ==
  \E f \in 1..(IF Len(r1) < Len(r2) THEN Len(r1) ELSE Len(r2)) :
      r1[f] # missing /\ r2[f] # missing /\ r1[f] # r2[f]
\* property level: rows that MAY be reported = members of a duplicate group containing a disagreeing pair
ConflictAllowed(rows, idx, missing) ==
  SelectSeq(Positions(rows), LAMBDA i :
     \E a, b \in 1..Len(rows) : /\ KeyAt(rows, idx, a) = KeyAt(rows, idx, i)
                                /\ KeyAt(rows, idx, b) = KeyAt(rows, idx, i)
                                /\ Disagree(rows[a], rows[b], missing))
\* model level: what the adjacent-pair scan of iterconflicts reports (previous_yielded is only
\* reset when the key changes, so inside a group a row is reported when it disagrees with its
\* predecessor, and the predecessor too unless something of the group was already reported)
RECURSIVE ConflictScanFrom(_, _, _, _, _)
ConflictScanFrom(rows, idx, missing, p, yielded) ==
  IF p > Len(rows) THEN <<>>
  ELSE IF KeyAt(rows, idx, p - 1) = KeyAt(rows, idx, p)
       THEN IF Disagree(rows[p - 1], rows[p], missing)
            THEN (IF yielded THEN <<p>> ELSE <<p - 1, p>>) \o ConflictScanFrom(rows, idx, missing, p + 1, TRUE)
            ELSE ConflictScanFrom(rows, idx, missing, p + 1, yielded)
       ELSE ConflictScanFrom(rows, idx, missing, p + 1, FALSE)
ConflictScan(rows, idx, missing) == ConflictScanFrom(rows, idx, missing, 2, FALSE)

SumSeq(s) == FoldLeft(LAMBDA a, b : a + b, 0, s)
=============================================================================
