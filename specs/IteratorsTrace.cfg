CONSTANTS M = 100000
          NIter = 4
          MaxSteps = 100000
INIT TInit
NEXT TNext
INVARIANT Verdict
