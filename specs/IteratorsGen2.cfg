CONSTANTS M = 3
          NIter = 2
          MaxSteps = 12
INIT Init
NEXT Next
INVARIANT EmitSchedule
