CONSTANTS MaxRows = 3
          Vals = {0, 1, 2}
INIT Init
NEXT Next
