---------------------------- MODULE StrategyInt ----------------------------
(***************************************************************************)
(* The cache clause of C11 (Strategy.tla) without the step bound and the    *)
(* replay history, typed for Apalache: histories of ANY length over any     *)
(* number of source versions.  StrategyRef.tla (TLC) shows that Strategy    *)
(* implements this module (ev record -> four variables).                    *)
(***************************************************************************)
EXTENDS Integers

CONSTANTS
    \* @type: Str;
    CVariant

VARIABLES
    \* @type: Bool;
    cache,
    \* @type: Int;
    ver,
    \* @type: Int;
    cached,
    \* @type: Bool;
    whole,
    \* @type: Str;
    evKind,
    \* @type: Int;
    evShown,
    \* @type: Bool;
    evPulled,
    \* @type: Bool;
    evComplete,
    \* @type: Int;
    firstDone

vars == <<cache, ver, cached, whole, evKind, evShown, evPulled, evComplete, firstDone>>
ConstInit == CVariant = "atomic"

Init == /\ cache \in BOOLEAN /\ ver = 1 /\ cached = 0 /\ whole = TRUE
        /\ evKind = "none" /\ evShown = 0 /\ evPulled = FALSE /\ evComplete = TRUE /\ firstDone = 0

Ev(k, s, p, c) == evKind' = k /\ evShown' = s /\ evPulled' = p /\ evComplete' = c
Edit == /\ ver' = ver + 1 /\ Ev("edit", 0, FALSE, TRUE)
        /\ UNCHANGED <<cache, cached, whole, firstDone>>

FromCache == cache /\ cached # 0
FullBody ==
  /\ IF FromCache
     THEN Ev("full", cached, FALSE, whole) /\ UNCHANGED <<cached, whole>>
     ELSE Ev("full", ver, TRUE, TRUE) /\ cached' = (IF cache THEN ver ELSE 0) /\ whole' = TRUE
  /\ firstDone' = IF firstDone = 0 THEN evShown' ELSE firstDone
FullPass == FullBody /\ UNCHANGED <<cache, ver>>
FailPass ==
  /\ IF FromCache
     THEN FullBody
     ELSE /\ Ev("fail", 0, TRUE, TRUE)
          /\ cached' = (IF CVariant = "eager" /\ cache THEN ver ELSE 0)
          /\ whole' = (CVariant # "eager")
          /\ UNCHANGED firstDone
  /\ UNCHANGED <<cache, ver>>
PartialPass(k) ==
  /\ IF FromCache
     THEN Ev("partial", cached, FALSE, whole) /\ UNCHANGED <<cached, whole>>
     ELSE Ev("partial", ver, TRUE, TRUE) /\ cached' = (IF k = 0 THEN 0 ELSE (IF cache THEN ver ELSE 0)) /\ whole' = TRUE
  /\ UNCHANGED <<cache, ver, firstDone>>

Next == Edit \/ FullPass \/ FailPass \/ PartialPass(0) \/ PartialPass(1)
Spec == Init /\ [][Next]_vars
----------------------------------------------------------------------------
NoCacheFresh == ~cache /\ evKind = "full" => evShown = ver /\ evPulled
ReadsAreCurrent == evKind \in {"full", "partial"} /\ evPulled => evShown = ver
PassesAreComplete == evKind = "full" => evComplete
CacheIsWhole == cached # 0 => whole
Safe == NoCacheFresh /\ ReadsAreCurrent /\ PassesAreComplete /\ CacheIsWhole
\* action invariant: once a pass has completed with cache=True, every later full pass replays it without reading
CacheReplays == cache /\ firstDone # 0 /\ evKind' = "full" => ~evPulled' /\ evShown' = firstDone

TypeOK == /\ cache \in BOOLEAN /\ ver \in Nat /\ cached \in Nat /\ whole \in BOOLEAN
          /\ evKind \in {"none", "edit", "full", "partial", "fail"} /\ evShown \in Nat /\ evPulled \in BOOLEAN
          /\ evComplete \in BOOLEAN /\ firstDone \in Nat
IndInv ==
  /\ TypeOK /\ ver >= 1 /\ cached <= ver /\ firstDone <= ver
  /\ cached # 0 => cache /\ whole
  /\ cache /\ firstDone # 0 => cached = firstDone
  /\ ~cache /\ evKind = "full" => evShown = ver /\ evPulled
  /\ evKind \in {"full", "partial"} /\ evPulled => evShown = ver
  /\ evKind = "full" => evComplete
IndInit == IndInv
=============================================================================
