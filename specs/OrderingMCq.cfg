CONSTANT Deep = FALSE
INIT Init
NEXT Next
INVARIANT InvIrreflexive
INVARIANT InvAsymmetric
INVARIANT InvTransitive
INVARIANT InvEquivTransitive
INVARIANT InvEquivIsEq
INVARIANT InvTrichotomy
INVARIANT InvDerived
INVARIANT InvNoneMinimal
INVARIANT InvNumBelowRest
INVARIANT InvBytesBeforeText
INVARIANT InvNative
