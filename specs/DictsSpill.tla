----------------------------- MODULE DictsSpill -----------------------------
(***************************************************************************)
(* petl.io.json.DictsGeneratorView (fromdicts on a generator), C01 / C18.  *)
(* The source is a ONE-SHOT generator shared by all iterators.  The first  *)
(* next() of the first iterator discovers the header by sampling `Sample`  *)
(* items (they are chained back in front of the generator).  Every item    *)
(* pulled from the shared generator is appended to a spill file before it  *)
(* is yielded; an iterator whose position is below the high-water mark     *)
(* `cachedN` reads from the file, one at the mark pulls the generator.     *)
(* Items: 1 = header, data row r = item r + 1; the source yields rows      *)
(* 1..M-1 once.                                                            *)
(***************************************************************************)
EXTENDS Naturals, Sequences, FiniteSets
CONSTANTS M, NIter, Sample

VARIABLES hdrKnown, buffered,   \* header discovered; rows sampled and chained back, not yet re-delivered
          srcPos,               \* rows taken from the one-shot generator so far
          fileExists, cachedN,  \* spill file; number of rows in it (high-water mark)
          st, pos, del
vars == <<hdrKnown, buffered, srcPos, fileExists, cachedN, st, pos, del>>
Its == 1..NIter
NRows == M - 1

Init == /\ hdrKnown = FALSE /\ buffered = 0 /\ srcPos = 0 /\ fileExists = FALSE /\ cachedN = 0
        /\ st = [i \in Its |-> "unborn"] /\ pos = [i \in Its |-> 0] /\ del = [i \in Its |-> <<>>]

Iter(i) == /\ st[i] = "unborn" /\ (\A j \in 1..(i - 1) : st[j] # "unborn")
           /\ st' = [st EXCEPT ![i] = "fresh"]
           /\ UNCHANGED <<hdrKnown, buffered, srcPos, fileExists, cachedN, pos, del>>

Min(a, b) == IF a < b THEN a ELSE b
\* first next(): `if not self._header: self._determine_header()`; yield header
NextHeader(i) ==
  /\ st[i] = "fresh"
  /\ IF hdrKnown THEN UNCHANGED <<hdrKnown, buffered, srcPos>>
     ELSE /\ hdrKnown' = TRUE
          /\ srcPos' = Min(Sample, NRows)            \* iterpeek(it, sample) consumes them ...
          /\ buffered' = Min(Sample, NRows)          \* ... and chains them back in front
  /\ st' = [st EXCEPT ![i] = "run"]
  /\ del' = [del EXCEPT ![i] = <<1>>]
  /\ UNCHANGED <<fileExists, cachedN, pos>>

\* later next(): from the file below the mark, else one item from the shared (chained) generator
NextRow(i) ==
  /\ st[i] = "run"
  /\ fileExists' = TRUE
  /\ IF pos[i] < cachedN
     THEN /\ del' = [del EXCEPT ![i] = Append(@, pos[i] + 2)]
          /\ pos' = [pos EXCEPT ![i] = @ + 1]
          /\ UNCHANGED <<buffered, srcPos, cachedN, st>>
     ELSE IF buffered > 0 \/ srcPos < NRows
          THEN \* the next item of the chained generator is row (srcPos - buffered + 1)
               LET r == srcPos - buffered + 1 IN
               /\ del' = [del EXCEPT ![i] = Append(@, r + 1)]
               /\ buffered' = IF buffered > 0 THEN buffered - 1 ELSE 0
               /\ srcPos' = IF buffered > 0 THEN srcPos ELSE srcPos + 1
               /\ cachedN' = cachedN + 1
               /\ pos' = [pos EXCEPT ![i] = cachedN + 1]
               /\ UNCHANGED st
          ELSE st' = [st EXCEPT ![i] = "done"] /\ UNCHANGED <<buffered, srcPos, cachedN, pos, del>>
  /\ UNCHANGED hdrKnown

Drop(i) == /\ st[i] \in {"fresh", "run"} /\ st' = [st EXCEPT ![i] = "dropped"]
           /\ UNCHANGED <<hdrKnown, buffered, srcPos, fileExists, cachedN, pos, del>>

Next == \E i \in Its : Iter(i) \/ NextHeader(i) \/ NextRow(i) \/ Drop(i)
Spec == Init /\ [][Next]_vars
IsPrefixOfSolo(d) == \A j \in 1..Len(d) : d[j] = j
Independent == \A i \in Its : IsPrefixOfSolo(del[i]) /\ Len(del[i]) <= M
ExhaustedIsComplete == \A i \in Its : st[i] = "done" => Len(del[i]) = M
\* the spill file holds exactly the rows taken from the generator and re-delivered so far
FileSound == cachedN = srcPos - buffered
=============================================================================
