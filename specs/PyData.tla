------------------------------- MODULE PyData -------------------------------
(* Python list semantics used by petl's row assembly, over TLA+ sequences (1-based here, 0-based in Python). *)
EXTENDS Integers, Sequences

\* list.insert(idx, v): idx beyond the end appends, a negative idx counts from the end and clamps at 0
PyInsertPos(n, idx) == IF idx >= n THEN n ELSE IF idx >= 0 THEN idx ELSE IF n + idx > 0 THEN n + idx ELSE 0
PyInsert(s, idx, v) == LET p == PyInsertPos(Len(s), idx) IN SubSeq(s, 1, p) \o <<v>> \o SubSeq(s, p + 1, Len(s))
\* row[i] if i < len(row) else missing        (i is a 0-based, non-negative index)
PyGetOr(s, i, missing) == IF i < Len(s) THEN s[i + 1] ELSE missing
PyPadTrim(s, n, missing) == [j \in 1..n |-> IF j <= Len(s) THEN s[j] ELSE missing]
PyPad(s, n, missing) == IF Len(s) >= n THEN s ELSE PyPadTrim(s, n, missing)
PyReverse(s) == [j \in 1..Len(s) |-> s[Len(s) + 1 - j]]
IndexOf(s, x) == CHOOSE j \in 1..Len(s) : s[j] = x /\ \A q \in 1..(j - 1) : s[q] # x      \* list.index(x) + 1
Has(s, x) == \E j \in 1..Len(s) : s[j] = x
=============================================================================
