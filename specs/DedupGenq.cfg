CONSTANTS KCells = {0, 1, 2}
          VCells = {0, 1, 2}
          MaxRows = 3
INIT Init
NEXT Next
