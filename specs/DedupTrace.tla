----------------------------- MODULE DedupTrace -----------------------------
(***************************************************************************)
(* Trace validation for C10 (code -> spec).  One recorded execution = the  *)
(* real duplicates / unique / distinct(+count) / isunique / conflicts on a *)
(* random rectangular table.  Keys are abstracted to naturals by equality  *)
(* (equal keys <-> equal numbers); every row has an identifier, so the     *)
(* outputs are sequences of input positions.  Accepted iff the outputs are *)
(* exactly the multiplicity classes the definitions prescribe.             *)
(***************************************************************************)
EXTENDS Naturals, Sequences, FiniteSets, SequencesExt, Json, IOUtils, TLC

Trace == ndJsonDeserialize(IOEnv.TRACE_FILE)
VARIABLES tid, l, bad, why
vars == <<tid, l, bad, why>>
Init == tid \in 1..Len(Trace) /\ l = 0 /\ bad = 0 /\ why = "ok"

Mult(K, i) == Cardinality({j \in 1..Len(K) : K[j] = K[i]})
NoRepeat(s) == \A a, b \in 1..Len(s) : a # b => s[a] # s[b]
SumSeq(s) == FoldLeft(LAMBDA a, b : a + b, 0, s)

Check(T) ==
  LET K == T.K  n == Len(K) IN
  IF ~(NoRepeat(T.dup) /\ ToSet(T.dup) = {i \in 1..n : Mult(K, i) > 1}) THEN "duplicates"
  ELSE IF ~(NoRepeat(T.uniq) /\ ToSet(T.uniq) = {i \in 1..n : Mult(K, i) = 1}) THEN "unique"
  ELSE IF ~(/\ NoRepeat([p \in 1..Len(T.dist) |-> K[T.dist[p]]])
            /\ {K[T.dist[p]] : p \in 1..Len(T.dist)} = {K[i] : i \in 1..n}) THEN "distinct"
  ELSE IF ~(/\ Len(T.counts) = Len(T.dist)
            /\ \A p \in 1..Len(T.dist) : T.counts[p] = Mult(K, T.dist[p])
            /\ SumSeq(T.counts) = n) THEN "counts"
  ELSE IF T.isunique # (\A i \in 1..n : Mult(K, i) = 1) THEN "isunique"
  ELSE IF ~(\A p \in 1..Len(T.conf) : \E a, b \in 1..n :
              /\ K[a] = K[T.conf[p]] /\ K[b] = K[T.conf[p]] /\ T.V[a] # 0 /\ T.V[b] # 0 /\ T.V[a] # T.V[b])
       THEN "conflicts"
  ELSE "ok"

Step == /\ l = 0 /\ l' = 1
        /\ why' = Check(Trace[tid])
        /\ bad' = IF why' = "ok" THEN 0 ELSE 1
        /\ UNCHANGED tid
Next == Step
Verdict == l = 1 => PrintT(<<"VERDICT", tid, bad, why>>)
=============================================================================
