CONSTANTS M = 3
          NIter = 2
          Variant = "global"
INIT Init
NEXT Next
INVARIANT Independent
