CONSTANTS MaxPrev = 2
          MaxNew = 3
VIEW View
INIT Init
NEXT Next
PROPERTY AbsSpec
INVARIANT AbsSafe
INVARIANT MappingFaithful
