CONSTANTS MaxRows = 4
          Ops = {"convert", "fieldmap", "rowmap", "rowmapmany"}
          Policies = {"false", "true", "inline"}
INIT Init
NEXT Next
INVARIANT NothingRaised
INVARIANT RaisedAtFirstFailure
INVARIANT NonFailingUntouched
INVARIANT KeepOrDrop
INVARIANT ExcludedUntouched
