CONSTANTS MaxSteps = 6
          MaxRows = 0
          CVariant = "atomic"
          Vals = {0}
VIEW ViewNoHist
INIT Init
NEXT Next
PROPERTY AbsSpec
INVARIANT AbsSafe
