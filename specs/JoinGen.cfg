CONSTANTS KV = {0, 1, 2}
          MaxRect = 3
          MaxRag = 2
INIT Init
NEXT Next
