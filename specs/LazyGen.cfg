CONSTANTS L = 0
          MaxDepth = 3
          MaxK = 6
INIT Init
NEXT Next
