CONSTANTS MaxRows = 2
INIT Init
NEXT Next
