----------------------------- MODULE SortFiles -----------------------------
(***************************************************************************)
(* C18: lifetime of the chunk files of an external sort, as a reference    *)
(* model of petl.transform.sorts.SortView (DESIGN.md appendix A).          *)
(*                                                                         *)
(* A file-path pass (N >= B) dumps ceil(N/B) chunk files; they are held by *)
(* ONE list object, created by the no-cache generator that sorted.  The    *)
(* list (hence every file in it) lives while it has a holder:              *)
(*   - the generator that created it, until it is exhausted, dropped or    *)
(*     has raised,                                                         *)
(*   - the view's _filecache (cache=True), until clearcache() or until the *)
(*     view object dies; the view lives while the user holds it or any     *)
(*     unfinished generator does,                                          *)
(*   - a cache-serving generator (bound at iter()), until it finishes.     *)
(* The source may fail while the no-cache generator reads it (FailAt).     *)
(*                                                                         *)
(* Property level (TempFiles): once view and iterators are all released    *)
(* no file is left; an iterator that outlives the view, and a later pass   *)
(* served from the file cache, still deliver the complete solo pass.       *)
(* Model level: the number of files alive after every step.                *)
(***************************************************************************)
EXTENDS Integers, Sequences, FiniteSets, Json, TLC

CONSTANTS NSet, BSet, CacheSet, FailSet,   \* parameter space explored by one configuration
          NIter, MaxSteps
VARIABLE P       \* the parameters of this behaviour (constant along it): [N, B, cache, fail]
N == P.N                 \* number of data rows
B == P.B                 \* buffersize
CacheFlag == P.cache
FailAt == P.fail
\* FailAt = 0: nothing fails; r in 1..N: the source raises instead of delivering data row r; N + 1: it raises at
\* exhaustion; 100 + r: data row r holds a value that cannot be pickled, so DUMPING the chunk that contains it fails
\* (only on the file path - in memory the row is never pickled and the pass is an ordinary one).
SrcFail == IF FailAt <= 100 THEN FailAt ELSE 0
DumpRow == IF FailAt > 100 THEN FailAt - 100 ELSE 0

M == N + 1                                   \* items of the solo pass (header first)
FilePath == N >= B
NChunks == IF FilePath THEN (N + B - 1) \div B ELSE 0
Fails == SrcFail # 0 \/ (DumpRow # 0 /\ FilePath)
\* chunk files in existence when the failure surfaces: those already written when the source fails; those written plus
\* the one being written when a dump fails
ChunksAtFailure == IF SrcFail # 0 THEN (SrcFail - 1) \div B ELSE (DumpRow + B - 1) \div B

VARIABLES viewRef,    \* the user still holds the view
          viewList,   \* list id in the view's _filecache (0 = none); "mem" cache is tracked by memCache
          memCache,
          nfiles,     \* nfiles[l] = files of list l (l = index of the iterator that created it)
          hold,       \* hold[i] = list id held by generator i
          st, kind, n, del, steps, hist
vars == <<P, viewRef, viewList, memCache, nfiles, hold, st, kind, n, del, steps, hist>>
Its == 1..NIter
Live(i) == st[i] \in {"fresh", "run"}
ViewAlive == viewRef \/ \E i \in Its : Live(i)
EffViewList == IF ViewAlive THEN viewList ELSE 0
Held(l) == l # 0 /\ (EffViewList = l \/ \E i \in Its : Live(i) /\ hold[i] = l)
FilesAlive == LET S == {l \in Its : Held(l)} IN
              IF S = {} THEN 0 ELSE
              LET RECURSIVE Sum(_)
                  Sum(T) == IF T = {} THEN 0 ELSE LET x == CHOOSE x \in T : TRUE IN nfiles[x] + Sum(T \ {x})
              IN Sum(S)

Init == /\ P \in {p \in [N : NSet, B : BSet, cache : CacheSet, fail : FailSet] : p.fail <= p.N + 1 \/ (p.fail > 100 /\ p.fail - 100 <= p.N)}
        /\ viewRef = TRUE /\ viewList = 0 /\ memCache = FALSE
        /\ nfiles = [l \in Its |-> 0] /\ hold = [i \in Its |-> 0]
        /\ st = [i \in Its |-> "unborn"] /\ kind = [i \in Its |-> "nocache"]
        /\ n = [i \in Its |-> 0] /\ del = [i \in Its |-> <<>>] /\ steps = 0 /\ hist = <<>>

Log(i, a, res) == /\ UNCHANGED P
                  /\ steps' = steps + 1
                  /\ hist' = Append(hist, [i |-> i, a |-> a, res |-> res, files |-> FilesAlive'])

Iter(i) ==
  /\ viewRef /\ st[i] = "unborn" /\ (\A j \in 1..(i - 1) : st[j] # "unborn") /\ steps < MaxSteps
  /\ st' = [st EXCEPT ![i] = "fresh"]
  /\ kind' = [kind EXCEPT ![i] = IF CacheFlag /\ memCache THEN "frommem"
                                 ELSE IF CacheFlag /\ viewList # 0 THEN "fromfile" ELSE "nocache"]
  /\ hold' = [hold EXCEPT ![i] = IF CacheFlag /\ ~memCache /\ viewList # 0 THEN viewList ELSE 0]
  /\ UNCHANGED <<viewRef, viewList, memCache, nfiles, n, del>>
  /\ Log(i, "iter", 0)

Finish(i, s) == st' = [st EXCEPT ![i] = s]

\* next() on a no-cache generator
NextNoCache(i) ==
  /\ Live(i) /\ kind[i] = "nocache" /\ steps < MaxSteps
  /\ UNCHANGED <<viewRef, kind>>
  /\ n' = [n EXCEPT ![i] = @ + 1]
  /\ IF n[i] = 0
     THEN \* clearcache(); header
          /\ viewList' = 0 /\ memCache' = FALSE
          /\ del' = [del EXCEPT ![i] = <<1>>] /\ Finish(i, "run")
          /\ UNCHANGED <<nfiles, hold>>
          /\ Log(i, "next", 1)
     ELSE IF n[i] = 1
     THEN \* read + sort everything (or fail while reading)
          IF Fails
          THEN /\ Finish(i, "raised")                       \* frame released with the exception
               /\ nfiles' = [nfiles EXCEPT ![i] = ChunksAtFailure]
               /\ hold' = [hold EXCEPT ![i] = i]
               /\ UNCHANGED <<viewList, memCache, del>>
               /\ Log(i, "next", -1)
          ELSE /\ nfiles' = [nfiles EXCEPT ![i] = NChunks]
               /\ hold' = [hold EXCEPT ![i] = IF FilePath THEN i ELSE 0]
               /\ viewList' = IF CacheFlag /\ FilePath THEN i ELSE viewList
               /\ memCache' = IF CacheFlag /\ ~FilePath THEN TRUE ELSE memCache
               /\ IF N >= 1 THEN del' = [del EXCEPT ![i] = Append(@, 2)] /\ Finish(i, "run")
                            ELSE UNCHANGED del /\ Finish(i, "done")
               /\ Log(i, "next", IF N >= 1 THEN 2 ELSE 0)
     ELSE /\ IF Len(del[i]) < M THEN del' = [del EXCEPT ![i] = Append(@, Len(@) + 1)] /\ Finish(i, "run")
                               ELSE UNCHANGED del /\ Finish(i, "done")
          /\ UNCHANGED <<viewList, memCache, nfiles, hold>>
          /\ Log(i, "next", IF Len(del[i]) < M THEN Len(del[i]) + 1 ELSE 0)

\* next() on a generator served from the memory / file cache
NextFromCache(i) ==
  /\ Live(i) /\ kind[i] \in {"frommem", "fromfile"} /\ steps < MaxSteps
  /\ n' = [n EXCEPT ![i] = @ + 1]
  /\ IF Len(del[i]) < M THEN del' = [del EXCEPT ![i] = Append(@, Len(@) + 1)] /\ Finish(i, "run")
                        ELSE UNCHANGED del /\ Finish(i, "done")
  /\ UNCHANGED <<viewRef, viewList, memCache, nfiles, hold, kind>>
  /\ Log(i, "next", IF Len(del[i]) < M THEN Len(del[i]) + 1 ELSE 0)

Drop(i) == /\ Live(i) /\ steps < MaxSteps
           /\ Finish(i, "dropped")
           /\ UNCHANGED <<viewRef, viewList, memCache, nfiles, hold, kind, n, del>>
           /\ Log(i, "drop", 0)

DropView == /\ viewRef /\ steps < MaxSteps
            /\ viewRef' = FALSE
            /\ UNCHANGED <<viewList, memCache, nfiles, hold, st, kind, n, del>>
            /\ Log(0, "dropview", 0)

\* the user calls view.clearcache(): the view forgets its caches; iterators keep what they bound at iter()
ClearCache == /\ viewRef /\ steps < MaxSteps
              /\ (viewList # 0 \/ memCache)            \* (on an empty cache the call changes nothing: not a step)
              /\ viewList' = 0 /\ memCache' = FALSE
              /\ UNCHANGED <<viewRef, nfiles, hold, st, kind, n, del>>
              /\ Log(0, "clearcache", 0)

Next == DropView \/ ClearCache \/ \E i \in Its : Iter(i) \/ NextNoCache(i) \/ NextFromCache(i) \/ Drop(i)
Spec == Init /\ [][Next]_vars
View == <<P, viewRef, viewList, memCache, nfiles, hold, st, kind, n, del>>
----------------------------------------------------------------------------
AllReleased == ~viewRef /\ \A i \in Its : ~Live(i)
\* C18: once the view and all iterators are released every temporary file is gone
NoLeak == AllReleased => FilesAlive = 0
\* a reader that still needs files has them: a live cache-serving / merging generator holds its list
ReadersHaveFiles == \A i \in Its : Live(i) /\ hold[i] # 0 => Held(hold[i])
\* every iterator delivers a prefix of the solo pass; an exhausted one delivered all of it
IsPrefixOfSolo(d) == \A j \in 1..Len(d) : d[j] = j
Complete == \A i \in Its : IsPrefixOfSolo(del[i]) /\ (st[i] = "done" => Len(del[i]) = M)
\* no files at all on the memory path
MemPathNoFiles == ~FilePath /\ SrcFail = 0 => FilesAlive = 0

Finished == AllReleased
EmitHistory == Finished => PrintT(ToJson([P |-> P, hist |-> hist]))
=============================================================================
