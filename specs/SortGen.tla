------------------------------ MODULE SortGen ------------------------------
(* Case emission for C05: every small ragged table x key choice, with the stable orders the   *)
(* definition (Sorting!StableOrder over Tables!KeyOf) prescribes.  Header is (id, a, b): the  *)
(* id cell is the row's input position, cells a / b may be absent (ragged rows).              *)
EXTENDS Tables, Sorting, Json, IOUtils, TLC

CONSTANTS MaxRows, ACells, BCells

RowVals == {<<>>} \cup {<<x>> : x \in ACells} \cup {<<x, y>> : x \in ACells, y \in BCells}
TablesAll == SeqsUpTo(RowVals, MaxRows)
KeySpecs == [a |-> <<2>>, ab |-> <<2, 3>>, ba |-> <<3, 2>>, none |-> <<1, 2>>]
\* full row i = <<id>> \o cells ; id is a number whose rank is the input position.
\* key=None (lexical sort over all header fields) is exercised on the table WITHOUT the id
\* column (header (a, b)), so that the cells and not the ids decide the order.
Full(t, i) == <<i>> \o t[i]
Keys(t, ks) == [i \in 1..Len(t) |-> IF ks = "none" THEN KeyOf(t[i], KeySpecs[ks])
                                                    ELSE KeyOf(Full(t, i), KeySpecs[ks])]
Case(t, ks) == [rows |-> t, key |-> ks,
                asc |-> StableOrder(Keys(t, ks), FALSE),
                desc |-> StableOrder(Keys(t, ks), TRUE)]
Cases == {Case(t, ks) : t \in TablesAll, ks \in DOMAIN KeySpecs}

\* mergesort: several tables under one header; expectation = stable sort of the concatenation
Cat(ts) == IF Len(ts) = 0 THEN <<>> ELSE FoldLeft(LAMBDA acc, t : acc \o t, <<>>, ts)
MRowVals == {<<x, y>> : x \in ACells, y \in BCells}
MTables == SeqsUpTo(MRowVals, 2)
MCase(ts, ks) == LET c == Cat(ts) IN
   [tables |-> ts, key |-> ks,
    asc |-> StableOrder(Keys(c, ks), FALSE), desc |-> StableOrder(Keys(c, ks), TRUE)]
MCases == {MCase(<<t1, t2>>, ks) : t1, t2 \in MTables, ks \in {"a", "ab", "ba", "none"}}
          \cup {MCase(<<t1, t2, t3>>, "a") : t1, t2, t3 \in SeqsUpTo(MRowVals, 1)}

\* mergesort over tables with DIFFERENT headers: table 1 has fields (a, b), tables 2 and 3 have (a, b, c); the output
\* header is the union (a, b, c), rows of table 1 read None for c; key=None sorts lexically over all three
XRows == {<<x, y>> : x \in {0, 1}, y \in {1}}
X3Rows == {<<x, y, z>> : x \in {0, 1}, y \in {1}, z \in {1, 2}}
\* shape "abc": tables 2, 3 have fields (a, b, c); shape "ac": they have only (a, c) - the union (a, b, c) is then wider
\* than every source header and their rows read None for b
Widen(t, shape) == IF shape = "abc" THEN t ELSE [i \in 1..Len(t) |-> <<t[i][1], 0, t[i][3]>>]
MXCase(t1, t2, t3, ks, shape) ==
  LET c == [i \in 1..Len(t1) |-> t1[i] \o <<0>>] \o Widen(t2, shape) \o Widen(t3, shape)
      keys == [i \in 1..Len(c) |-> IF ks = "none" THEN KeyOf(c[i], <<1, 2, 3>>) ELSE KeyOf(c[i], <<1>>)] IN
  [t1 |-> t1, t2 |-> t2, t3 |-> t3, key |-> ks, shape |-> shape, rows |-> c,
   asc |-> StableOrder(keys, FALSE), desc |-> StableOrder(keys, TRUE)]
MXCases == {MXCase(t1, t2, t3, ks, sh) : t1 \in SeqsUpTo(XRows, 1), t2 \in SeqsUpTo(X3Rows, 2), t3 \in SeqsUpTo(X3Rows, 1),
                                          ks \in {"none", "a"}, sh \in {"abc", "ac"}}
ASSUME ndJsonSerialize(IOEnv.OUT3, SetToSeq(MXCases))
ASSUME ndJsonSerialize(IOEnv.OUT, SetToSeq(Cases))
ASSUME ndJsonSerialize(IOEnv.OUT2, SetToSeq(MCases))
VARIABLE x
Init == x = 0
Next == FALSE /\ UNCHANGED x
=============================================================================
