CONSTANTS NSrc = 3
          Idiom = "inplace"
INIT Init
NEXT Next
PROPERTY Immutable
INVARIANT SourcesIntact
