---------------------------- MODULE OrderingGen ----------------------------
(* Emits (a) the full relation matrix of the bounded universe and (b) sort / issorted /   *)
(* selector expectations over a class-crossing sub-universe, for replay on the real code. *)
EXTENDS OrderingU, Sorting, Json, IOUtils, TLC

USeq == SetToSeq(U)
N == Len(USeq)
RelRow(i) == [kind |-> "rel", i |-> i, v |-> USeq[i],
              lt |-> SetToSeq({j \in 1..N : Lt(USeq[i], USeq[j])}),
              eq |-> SetToSeq({j \in 1..N : Eq(USeq[i], USeq[j])}),
              le |-> SetToSeq({j \in 1..N : Le(USeq[i], USeq[j])}),
              gt |-> SetToSeq({j \in 1..N : Gt(USeq[i], USeq[j])}),
              ge |-> SetToSeq({j \in 1..N : Ge(USeq[i], USeq[j])})]

\* one value per class plus a second number and None: the users of the ordering
SU == <<NoneV, Scalar("num", 1), Scalar("num", 2), Scalar("date", 1), Scalar("datetime", 1),
        Scalar("bytes", 1), Scalar("time", 1), SeqV(<<Scalar("num", 1), NoneV>>), Scalar("text", 1)>>
M == Len(SU)
SortCase(ks) == LET keys == [i \in 1..Len(ks) |-> SU[ks[i]]] IN
  [kind |-> "sort", keys |-> keys,
   asc |-> StableOrder(keys, FALSE), desc |-> StableOrder(keys, TRUE),
   sorted |-> IsSortedKeys(keys, FALSE, FALSE), sortedstrict |-> IsSortedKeys(keys, FALSE, TRUE),
   rsorted |-> IsSortedKeys(keys, TRUE, FALSE), rsortedstrict |-> IsSortedKeys(keys, TRUE, TRUE)]
SortCases == {SortCase(ks) : ks \in UNION {[1..n -> 1..M] : n \in 1..3}}

\* selectors: a table with one row per SU value; for each reference value the selected positions
SelCase(k) == LET ref == SU[k] IN
  [kind |-> "select", ref |-> ref, cells |-> SU,
   lt |-> SetToSeq({i \in 1..M : Lt(SU[i], ref)}),
   le |-> SetToSeq({i \in 1..M : Le(SU[i], ref)}),
   gt |-> SetToSeq({i \in 1..M : Gt(SU[i], ref)}),
   ge |-> SetToSeq({i \in 1..M : Ge(SU[i], ref)}),
   eq |-> SetToSeq({i \in 1..M : Eq(SU[i], ref)})]
RangeCase(k1, k2) == LET lo == SU[k1] hi == SU[k2] IN
  [kind |-> "range", lo |-> lo, hi |-> hi, cells |-> SU,
   gt_lt |-> SetToSeq({i \in 1..M : Lt(lo, SU[i]) /\ Lt(SU[i], hi)}),
   gt_le |-> SetToSeq({i \in 1..M : Lt(lo, SU[i]) /\ Le(SU[i], hi)}),
   ge_lt |-> SetToSeq({i \in 1..M : Le(lo, SU[i]) /\ Lt(SU[i], hi)}),
   ge_le |-> SetToSeq({i \in 1..M : Le(lo, SU[i]) /\ Le(SU[i], hi)})]

\* the declarative and the constructive sort definitions agree (checked here on every case)
ASSUME \A cs \in SortCases : /\ IsStableOrder(cs.asc, cs.keys, FALSE)
                             /\ IsStableOrder(cs.desc, cs.keys, TRUE)

ASSUME ndJsonSerialize(IOEnv.OUT,
          [i \in 1..N |-> RelRow(i)] \o SetToSeq(SortCases)
          \o [k \in 1..M |-> SelCase(k)]
          \o SetToSeq({RangeCase(k1, k2) : k1, k2 \in 1..M}))

VARIABLE x
Init == x = 0
Next == FALSE /\ UNCHANGED x
=============================================================================
