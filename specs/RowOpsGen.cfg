CONSTANTS MaxFields = 3
          MaxRows = 2
          MaxLen = 4
INIT Init
NEXT Next
