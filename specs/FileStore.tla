----------------------------- MODULE FileStore -----------------------------
(***************************************************************************)
(* C15 / C16: the store semantics of to* / append* / from* / tee* and the  *)
(* writer stack they run (petl/io/csv_py3.py, pickle.py, text.py ...):     *)
(*   source.open(mode) -> binary buffer -> text wrapper -> writer rows ->  *)
(*   flush -> detach -> close.                                             *)
(*                                                                         *)
(* A target holds a sequence of RECORDS (one per written row; the record   *)
(* codec - csv text rendering, pickle, json - is abstract here and sampled *)
(* by the replay).  A table is [hdr, rows]; rows/records are naturals      *)
(* (row identifiers), the header record is 0.                              *)
(*                                                                         *)
(* State: file (records durably in the target), buf (records handed to the *)
(* binary buffer, not yet visible in the target until close), pend         *)
(* (records written to the text wrapper but not yet flushed to the buffer),*)
(* delivered (rows a tee view has yielded to its consumer).                *)
(* One action per step of the real code; Variant "noflush" drops the flush *)
(* before detach (negative test: pending text is lost).                    *)
(***************************************************************************)
EXTENDS Naturals, Sequences, FiniteSets, Json, TLC

CONSTANTS MaxRows, MaxOps, Variant

VARIABLES file, buf, pend, pc, op, tab, wh, pos, delivered, nops, hist, expect
vars == <<file, buf, pend, pc, op, tab, wh, pos, delivered, nops, hist, expect>>

Hdr == 0
Tables == {[i \in 1..n |-> 10 * k + i] : n \in 0..MaxRows, k \in 1..1}     \* data rows 11, 12, ... (header implicit)
Records(t, writeHeader) == (IF writeHeader THEN <<Hdr>> ELSE <<>>) \o t

Init == /\ file = <<>> /\ buf = <<>> /\ pend = <<>> /\ pc = "idle" /\ op = "none" /\ tab = <<>> /\ wh = TRUE /\ pos = 0
        /\ delivered = <<>> /\ nops = 0 /\ hist = <<>> /\ expect = <<>>

\* ---- store-level definitions (C15) --------------------------------------------------------------------
To(store, t, writeHeader) == Records(t, writeHeader)                         \* to* replaces
App(store, t, writeHeader) == store \o Records(t, writeHeader)               \* append* extends
\* from*(header=None): first record is the header; from*(header=h): every record is a data row
FromRows(store, headerGiven) == IF headerGiven THEN store ELSE IF store = <<>> THEN <<>> ELSE Tail(store)

\* ---- the writer protocol -------------------------------------------------------------------------------
Start(o) ==
  /\ pc = "idle" /\ nops < MaxOps
  /\ op' = o
  /\ \E t \in Tables, w \in BOOLEAN :
       /\ tab' = t /\ wh' = w
       /\ expect' = IF o = "append" THEN App(file, t, w) ELSE To(file, t, w)
       /\ hist' = Append(hist, [op |-> o, rows |-> t, write_header |-> w,
                                store |-> IF o = "append" THEN App(file, t, w) ELSE To(file, t, w)])
  \* source.open('wb') truncates, 'ab' keeps the existing records
  /\ buf' = IF o = "append" THEN file ELSE <<>>
  /\ pend' = <<>> /\ pos' = 0 /\ delivered' = <<>> /\ pc' = "hdr" /\ nops' = nops + 1
  /\ UNCHANGED file

\* header row: written if write_header; a tee yields it to the consumer in any case
WriteHeader ==
  /\ pc = "hdr"
  /\ pend' = IF wh THEN Append(pend, Hdr) ELSE pend
  /\ delivered' = IF op = "tee" THEN Append(delivered, Hdr) ELSE delivered
  /\ pc' = "rows"
  /\ UNCHANGED <<file, buf, op, tab, wh, pos, nops, hist, expect>>

\* writer.writerow(row)  (tee: ... then yield the row)
WriteRow ==
  /\ pc = "rows" /\ pos < Len(tab)
  /\ pend' = Append(pend, tab[pos + 1])
  /\ delivered' = IF op = "tee" THEN Append(delivered, tab[pos + 1]) ELSE delivered
  /\ pos' = pos + 1
  /\ UNCHANGED <<file, buf, pc, op, tab, wh, nops, hist, expect>>

\* the text wrapper may pass pending text on to the buffer at any time (its internal chunking)
AutoFlush ==
  /\ pc \in {"rows", "hdr"} /\ pend # <<>>
  /\ buf' = buf \o pend /\ pend' = <<>>
  /\ UNCHANGED <<file, pc, op, tab, wh, pos, delivered, nops, hist, expect>>

\* csvfile.flush() after the last row
Flush ==
  /\ pc = "rows" /\ pos = Len(tab)
  /\ IF Variant = "noflush" THEN UNCHANGED <<buf, pend>> ELSE buf' = buf \o pend /\ pend' = <<>>
  /\ pc' = "detach"
  /\ UNCHANGED <<file, op, tab, wh, pos, delivered, nops, hist, expect>>

\* finally: csvfile.detach() - whatever is still pending in the wrapper is dropped
Detach ==
  /\ pc = "detach"
  /\ pend' = <<>>
  /\ pc' = "close"
  /\ UNCHANGED <<file, buf, op, tab, wh, pos, delivered, nops, hist, expect>>

\* leaving `with source.open(mode) as buf`: the buffer becomes the target's contents
Close ==
  /\ pc = "close"
  /\ file' = buf /\ buf' = <<>>
  /\ pc' = "idle"
  /\ UNCHANGED <<pend, op, tab, wh, pos, delivered, nops, hist, expect>>

Next == Start("to") \/ Start("append") \/ Start("tee") \/ WriteHeader \/ WriteRow \/ AutoFlush \/ Flush \/ Detach \/ Close
Spec == Init /\ [][Next]_vars
View == <<file, buf, pend, pc, op, tab, wh, pos, delivered, nops, expect>>
----------------------------------------------------------------------------
\* C15: when an operation has completed the target holds exactly what the store-level definition says
StoreCorrect == pc = "idle" /\ nops > 0 => file = expect
\* write then read returns the same table; write_header / header= add or drop exactly the header record
RoundTrip == pc = "idle" /\ op = "to" => /\ (wh => FromRows(file, FALSE) = tab)
                                         /\ (~wh => FromRows(file, TRUE) = tab)
\* append after to = writing the concatenation: nothing already stored is touched
AppendExtends == [][pc = "close" /\ op = "append" => \E n \in 0..Len(file') : SubSeq(file', 1, Len(file)) = file]_vars
\* C16: a consumed tee has yielded exactly the wrapped table's rows and its target holds what to* writes
TeeTransparent == pc = "idle" /\ op = "tee" => delivered = <<Hdr>> \o tab /\ file = To(<<>>, tab, wh)

Emit == pc = "idle" /\ nops = MaxOps => PrintT(ToJson(hist))
=============================================================================
