CONSTANTS M = 4
          Batch = 2
          Limit = 1
          Passes = 3
INIT Init
NEXT Next
INVARIANT Transparent
INVARIANT CachePrefix
