CONSTANTS NSrc = 3
          Idiom = "reuse"
INIT Init
NEXT Next
PROPERTY Immutable
INVARIANT SourcesIntact
