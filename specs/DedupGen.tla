------------------------------ MODULE DedupGen ------------------------------
(* Case emission for C10: every small rectangular table (k, v) x key form, with the rows the  *)
(* multiplicity definitions prescribe (in sorted order, as sequences of rows).                *)
EXTENDS DedupDefs, Sorting, Json, IOUtils, TLC
CONSTANTS KCells, VCells, MaxRows

RowVals == {<<k, v>> : k \in KCells, v \in VCells}
Tabs == SeqsUpTo(RowVals, MaxRows)
KeyIdx == [k |-> <<1>>, kv |-> <<1, 2>>, none |-> <<1, 2>>]
SortRows(t, idx) == Apply(StableOrder([i \in 1..Len(t) |-> KeyOf(t[i], idx)], FALSE), t)
Pick(rows, ps) == [i \in 1..Len(ps) |-> rows[ps[i]]]
Case(t, kf) ==
  LET idx == KeyIdx[kf]  s == SortRows(t, idx) IN
  [rows |-> t, key |-> kf, sorted |-> s,
   dup |-> Pick(s, DuplicatesDef(s, idx)), uniq |-> Pick(s, UniqueDef(s, idx)),
   dist |-> Pick(s, DistinctDef(s, idx)), counts |-> CountsDef(s, idx),
   isunique |-> IsUniqueDef(s, idx),
   callowed |-> Pick(s, ConflictAllowed(s, idx, 0)), cscan |-> Pick(s, ConflictScan(s, idx, 0)),
   \* conflicts(..., missing=1): value 1 is the "missing" marker instead of None
   callowed1 |-> Pick(s, ConflictAllowed(s, idx, 1)), cscan1 |-> Pick(s, ConflictScan(s, idx, 1))]
ASSUME \A t \in Tabs, kf \in {"k", "kv", "none"} : SumSeq(Case(t, kf).counts) = Len(t)
ASSUME ndJsonSerialize(IOEnv.OUT, SetToSeq({Case(t, kf) : t \in Tabs, kf \in {"k", "kv", "none"}}))
VARIABLE x
Init == x = 0
Next == FALSE /\ UNCHANGED x
=============================================================================
