CONSTANTS MaxSteps = 5
          MaxRows = 2
          Vals = {0, 1}
INIT Init
NEXT Next
INVARIANT EmitBehaviour
