CONSTANTS MaxSteps = 5
          MaxRows = 2
          CVariant = "atomic"
          Vals = {0, 1}
INIT Init
NEXT Next
INVARIANT EmitBehaviour
