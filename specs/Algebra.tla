------------------------------- MODULE Algebra -------------------------------
(***************************************************************************)
(* Composition laws between the operator definitions (beyond the listed    *)
(* properties): what a user relies on when several petl operators are      *)
(* chained.  Each law is an ASSUME over all small inputs, i.e. TLC         *)
(* evaluates it exhaustively when this module is loaded; the same inputs   *)
(* are emitted so that the harness can evaluate BOTH sides of every law on *)
(* the real, composed petl pipelines and compare them with each other and  *)
(* with the definition.                                                    *)
(*   A1  sort(sort(t, b), a) = sort(t, (a, b))          (stable sorts compose) *)
(*   A2  leftjoin = join + antijoin padded ; outerjoin = leftjoin + unmatched right rows *)
(*   A3  complement(a, intersection(a, b)) = complement(a, b)   (as bags)      *)
(*   A4  select-then-join = join-then-select on a left field                   *)
(*   A5  count per key of join(L, R) = count_L(k) * count_R(k)                 *)
(*   A6  distinct = unique + first row of every duplicate group                *)
(*   A7  head(sort(t), n) = the n smallest rows in stable order                *)
(***************************************************************************)
EXTENDS Tables, Sorting, RelJoin, SetDefs, DedupDefs, Json, IOUtils, TLC
CONSTANTS MaxRows, Vals

KV(n) == CellVal(n)
Seqs == UNION {[1..n -> Vals] : n \in 0..MaxRows}
Pairs == UNION {[1..n -> Vals \X Vals] : n \in 0..MaxRows}

\* A1
ASSUME \A t \in Pairs :
  LET byb == StableOrder([i \in 1..Len(t) |-> KV(t[i][2])], FALSE)
      tb == Apply(byb, t)
      bya == StableOrder([i \in 1..Len(tb) |-> KV(tb[i][1])], FALSE)
      comp == StableOrder([i \in 1..Len(t) |-> SeqV(<<KV(t[i][1]), KV(t[i][2])>>)], FALSE)
  IN Apply(bya, tb) = Apply(comp, t)
\* A2
ASSUME \A l \in Seqs, r \in Seqs :
  /\ RelJoinSet("left", l, r) = RelJoinSet("join", l, r) \cup RelJoinSet("anti", l, r)
  /\ RelJoinSet("outer", l, r) = RelJoinSet("left", l, r) \cup (RelJoinSet("right", l, r) \ RelJoinSet("join", l, r))
  /\ RelJoinSet("join", l, r) \cap RelJoinSet("anti", l, r) = {}
\* A3
ASSUME \A a \in Seqs, b \in Seqs : BagEq(CompSeq(a, InterSeq(a, b), FALSE), CompSeq(a, b, FALSE))
\* A4: selecting left rows with key in S before or after the join
ASSUME \A l \in Seqs, r \in Seqs, S \in SUBSET Vals :
  LET keep == SelectSeq([i \in 1..Len(l) |-> i], LAMBDA i : l[i] \in S)
      lsel == [p \in 1..Len(keep) |-> l[keep[p]]] IN
  {<<keep[p[1]], p[2]>> : p \in RelJoinSet("join", lsel, r)} = {p \in RelJoinSet("join", l, r) : l[p[1]] \in S}
\* A5
ASSUME \A l \in Seqs, r \in Seqs : \A k \in Vals :
  Cardinality({p \in RelJoinSet("join", l, r) : l[p[1]] = k}) = Count(l, k) * Count(r, k)
\* A6
ASSUME \A t \in Seqs :
  LET rows == [i \in 1..Len(t) |-> <<t[i]>>] IN
  ToSet(DistinctDef(rows, <<1>>)) = ToSet(UniqueDef(rows, <<1>>)) \cup {i \in ToSet(DuplicatesDef(rows, <<1>>)) : IsFirstOfKey(rows, <<1>>, i)}

ASSUME ndJsonSerialize(IOEnv.OUT, SetToSeq({[l |-> l, r |-> r] : l \in Seqs, r \in Seqs}))
ASSUME ndJsonSerialize(IOEnv.OUT2, SetToSeq({[t |-> t] : t \in Pairs}))
VARIABLE x
Init == x = 0
Next == FALSE /\ UNCHANGED x
=============================================================================
