----------------------------- MODULE SortCache -----------------------------
(***************************************************************************)
(* petl.transform.sorts.SortView as a shared-state object with several     *)
(* live iterators (C01; see DESIGN.md appendix A).                         *)
(*                                                                         *)
(* __iter__ is an ordinary method: it picks _iterfrommemcache /            *)
(* _iterfromfilecache / _iternocache from the cache fields AT iter() TIME  *)
(* and returns an unstarted generator.  The no-cache body runs             *)
(* clearcache() at its first next(); its second next() reads and sorts the *)
(* whole source and (cache=True) assigns the cache fields before the first *)
(* data row is delivered.                                                  *)
(*   Variant "orig":  the cache-serving bodies dereference                 *)
(*     self._hdrcache / _memcache / _filecache / _getkey lazily (first and *)
(*     second next()), i.e. AFTER any clearcache() a stale no-cache        *)
(*     generator may have run in between -> TypeError (F2).                *)
(*   Variant "fixed": the references are bound when iter() is called.      *)
(* The sorted output is items 1..M (header first); Path says whether the   *)
(* table fits the buffer ("mem") or is sorted via chunk files ("file").    *)
(***************************************************************************)
EXTENDS Naturals, Sequences, FiniteSets

CONSTANTS M, NIter, Path, CacheFlag, Variant

VARIABLES cstate,   \* the view's cache fields: "none" | "mem" | "file"
          st,       \* "unborn" | "fresh" | "run" | "done" | "dropped" | "crash"
          kind,     \* body chosen at iter(): "nocache" | "frommem" | "fromfile"
          bound,    \* the iterator holds its own references to the cached data
          n,        \* next() calls completed
          del
vars == <<cstate, st, kind, bound, n, del>>
Its == 1..NIter

Init == /\ cstate = "none"
        /\ st = [i \in Its |-> "unborn"] /\ kind = [i \in Its |-> "nocache"]
        /\ bound = [i \in Its |-> FALSE] /\ n = [i \in Its |-> 0] /\ del = [i \in Its |-> <<>>]

Iter(i) ==
  /\ st[i] = "unborn" /\ (\A j \in 1..(i - 1) : st[j] # "unborn")
  /\ st' = [st EXCEPT ![i] = "fresh"]
  /\ kind' = [kind EXCEPT ![i] = IF CacheFlag /\ cstate = "mem" THEN "frommem"
                                 ELSE IF CacheFlag /\ cstate = "file" THEN "fromfile" ELSE "nocache"]
  /\ bound' = [bound EXCEPT ![i] = Variant = "fixed" /\ CacheFlag /\ cstate # "none"]
  /\ UNCHANGED <<cstate, n, del>>

Deliver(i) == IF Len(del[i]) < M
              THEN del' = [del EXCEPT ![i] = Append(@, Len(@) + 1)] /\ st' = [st EXCEPT ![i] = "run"]
              ELSE st' = [st EXCEPT ![i] = "done"] /\ UNCHANGED del
Crash(i) == st' = [st EXCEPT ![i] = "crash"] /\ UNCHANGED del

\* _iternocache
NextNoCache(i) ==
  /\ st[i] \in {"fresh", "run"} /\ kind[i] = "nocache"
  /\ n' = [n EXCEPT ![i] = @ + 1]
  /\ cstate' = IF n[i] = 0 THEN "none"                                     \* clearcache()
               ELSE IF n[i] = 1 /\ CacheFlag /\ M >= 1 THEN Path            \* cache assigned after the sort
               ELSE cstate
  /\ Deliver(i)
  /\ UNCHANGED <<kind, bound>>

\* _iterfrommemcache / _iterfromfilecache
\*   call 1 dereferences the header (file variant: also the chunk list); call 2 the rows / key getter
Needs(i) == n[i] <= 1 /\ ~bound[i]
NextFromCache(i) ==
  /\ st[i] \in {"fresh", "run"} /\ kind[i] \in {"frommem", "fromfile"}
  /\ n' = [n EXCEPT ![i] = @ + 1]
  /\ IF Needs(i) /\ cstate # (IF kind[i] = "frommem" THEN "mem" ELSE "file")
     THEN Crash(i) /\ UNCHANGED bound                         \* tuple(None) / iterating None
     ELSE Deliver(i) /\ bound' = [bound EXCEPT ![i] = @ \/ n[i] = 1]
  /\ UNCHANGED <<cstate, kind>>

Drop(i) == /\ st[i] \in {"fresh", "run"}
           /\ st' = [st EXCEPT ![i] = "dropped"]
           /\ UNCHANGED <<cstate, kind, bound, n, del>>

Next == \E i \in Its : Iter(i) \/ NextNoCache(i) \/ NextFromCache(i) \/ Drop(i)
Spec == Init /\ [][Next]_vars
----------------------------------------------------------------------------
IsPrefixOfSolo(d) == \A j \in 1..Len(d) : d[j] = j
Independent == \A i \in Its : IsPrefixOfSolo(del[i]) /\ Len(del[i]) <= M
NoCrash == \A i \in Its : st[i] # "crash"
ExhaustedIsComplete == \A i \in Its : st[i] = "done" => Len(del[i]) = M
=============================================================================
