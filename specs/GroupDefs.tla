----------------------------- MODULE GroupDefs -----------------------------
(***************************************************************************)
(* Definitions for C09: the partition of a table by key and the selections *)
(* / merges defined on it.  `rows` is the input table, idx the key         *)
(* positions.  A group is [key, members]: members = input positions of the *)
(* rows with that key, in input order; groups come in ascending key order. *)
(***************************************************************************)
EXTENDS Tables, Sorting

KeyAtG(rows, idx, i) == RawKey(rows[i], idx)
Members(rows, idx, k) == SelectSeq([i \in 1..Len(rows) |-> i], LAMBDA i : KeyAtG(rows, idx, i) = k)
DistinctKeys(rows, idx) == {KeyAtG(rows, idx, i) : i \in 1..Len(rows)}
OrdKey(k) == IF Len(k) = 1 THEN CellVal(k[1]) ELSE SeqV([j \in 1..Len(k) |-> CellVal(k[j])])
KeysAscending(rows, idx) == SetToSortSeq(DistinctKeys(rows, idx), LAMBDA a, b : Lt(OrdKey(a), OrdKey(b)))
Partition(rows, idx) ==
  LET ks == KeysAscending(rows, idx) IN [g \in 1..Len(ks) |-> [key |-> ks[g], members |-> Members(rows, idx, ks[g])]]

\* conservation laws
EachRowOnce(rows, idx) ==
  LET P == Partition(rows, idx) IN
  \A i \in 1..Len(rows) : Cardinality({g \in 1..Len(P) : \E p \in 1..Len(P[g].members) : P[g].members[p] = i}) = 1

\* selections: groupselectfirst/last; min/max = "stable sort by value, then first of the key group"
FirstOf(m) == m[1]
LastOf(m) == m[Len(m)]
MinBy(rows, m, vi) == CHOOSE i \in ToSet(m) : \A j \in ToSet(m) :
                         \/ Lt(CellVal(rows[i][vi]), CellVal(rows[j][vi]))
                         \/ (~Lt(CellVal(rows[j][vi]), CellVal(rows[i][vi])) /\ i <= j)
MaxBy(rows, m, vi) == CHOOSE i \in ToSet(m) : \A j \in ToSet(m) :
                         \/ Lt(CellVal(rows[j][vi]), CellVal(rows[i][vi]))
                         \/ (~Lt(CellVal(rows[i][vi]), CellVal(rows[j][vi])) /\ i <= j)

\* mergeduplicates: per value field the set of non-missing values of the group
MergedVals(rows, m, f, missing) == {rows[i][f] : i \in {j \in ToSet(m) : Len(rows[j]) >= f /\ rows[j][f] # missing}}
=============================================================================
