---------------------------- MODULE PassThrough ----------------------------
(***************************************************************************)
(* C16, pass-through views: progress / log_progress (a message every       *)
(* `Batch` rows and a final one), clock (per-row timing), wrap, and        *)
(* cache(n) on sequential passes deliver exactly the items of the table    *)
(* they wrap, in order.  Items 1..M (header first).  The side channel      *)
(* (messages, timings) never feeds back into what is delivered.            *)
(***************************************************************************)
EXTENDS Naturals, Sequences
CONSTANTS M, Batch, Limit, Passes
VARIABLES kind, i, del, msgs, cache, complete, pass
vars == <<kind, i, del, msgs, cache, complete, pass>>
Init == /\ kind \in {"progress", "clock", "wrap", "cache"} /\ i = 0 /\ del = <<>> /\ msgs = 0 /\ cache = <<>> /\ complete = FALSE /\ pass = 1
Room == Limit = 0 \/ Len(cache) < Limit
Step == /\ i < M /\ i' = i + 1
        /\ del' = Append(del, IF kind = "cache" /\ i < Len(cache) THEN cache[i + 1] ELSE i + 1)
        \* progress: `if n % batchsize == 0 and n > 0` counts DATA rows seen before the current one
        /\ msgs' = IF kind = "progress" /\ i > 1 /\ (i - 1) % Batch = 0 THEN msgs + 1 ELSE msgs
        /\ cache' = IF kind = "cache" /\ i >= Len(cache) /\ Room THEN Append(cache, i + 1) ELSE cache
        /\ UNCHANGED <<kind, complete, pass>>
EndPass == /\ i = M /\ pass < Passes
           /\ complete' = (IF kind = "cache" /\ Room THEN TRUE ELSE complete)
           /\ pass' = pass + 1 /\ i' = 0 /\ del' = <<>> /\ UNCHANGED <<kind, msgs, cache>>
Next == Step \/ EndPass
Spec == Init /\ [][Next]_vars
Transparent == \A j \in 1..Len(del) : del[j] = j
CachePrefix == \A j \in 1..Len(cache) : cache[j] = j
=============================================================================
