CONSTANTS L = 0
          MaxDepth = 1
          MaxK = 1
INIT TInit
NEXT TNext
INVARIANT Verdict
