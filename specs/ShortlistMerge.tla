--------------------------- MODULE ShortlistMerge ---------------------------
(***************************************************************************)
(* petl.transform.sorts._shortlistmergesorted - the merge used by          *)
(* mergesort() (both directions) and by the reverse chunk merge of sort(): *)
(*                                                                         *)
(*   iterators, shortlist = [], []     one slot per NON-EMPTY input        *)
(*   while iterators:                                                      *)
(*       nxt = min|max(shortlist, key=key)      FIRST extremal slot        *)
(*       yield nxt                                                         *)
(*       idx = shortlist.index(nxt)             first slot EQUAL to nxt    *)
(*       try:    shortlist[idx] = next(iterators[idx])                     *)
(*       except StopIteration: del shortlist[idx]; del iterators[idx]      *)
(*                                                                         *)
(* Inputs: up to NIn sequences of rows <<key, id>> (ids unique), each      *)
(* already sorted by key in the merge direction (mergesort sorts them with *)
(* sort(); chunks are sorted when written).  Property: the output is THE   *)
(* stable order of the concatenation of the inputs - equal keys keep input *)
(* (table, then row) order, in both directions.                            *)
(***************************************************************************)
EXTENDS Naturals, Sequences, FiniteSets, SequencesExt, Sorting

CONSTANTS NIn, MaxLen, Vals

KeyVal(n) == IF n = 0 THEN NoneV ELSE Scalar("num", n)

VARIABLES ins,        \* the inputs as given (sequence of key sequences)
          reverse,
          rest,       \* iterators: remaining rows per live slot (after its shortlist entry)
          short,      \* shortlist: current head row per live slot, as <<input, position>>
          started, out
vars == <<ins, reverse, rest, short, started, out>>

SortedSeqs(rev) == {s \in UNION {[1..n -> Vals] : n \in 0..MaxLen} : IsSortedKeys([i \in 1..Len(s) |-> KeyVal(s[i])], rev, FALSE)}
KeyOfRow(r) == KeyVal(ins[r[1]][r[2]])

Init == /\ reverse \in BOOLEAN
        /\ ins \in [1..NIn -> SortedSeqs(reverse)]
        /\ rest = <<>> /\ short = <<>> /\ started = FALSE /\ out = <<>>

\* populate: one slot per non-empty input, in input order
Populate ==
  /\ ~started /\ started' = TRUE
  /\ LET live == SelectSeq([i \in 1..NIn |-> i], LAMBDA i : Len(ins[i]) > 0) IN
     /\ short' = [s \in 1..Len(live) |-> <<live[s], 1>>]
     /\ rest' = [s \in 1..Len(live) |-> [p \in 1..(Len(ins[live[s]]) - 1) |-> <<live[s], p + 1>>]]
  /\ UNCHANGED <<ins, reverse, out>>

\* min / max with key: the FIRST slot whose key is extremal
Extremal(s) == \A t \in 1..Len(short) : IF reverse THEN ~Lt(KeyOfRow(short[s]), KeyOfRow(short[t]))
                                                   ELSE ~Lt(KeyOfRow(short[t]), KeyOfRow(short[s]))
PickSlot == CHOOSE s \in 1..Len(short) : Extremal(s) /\ \A t \in 1..Len(short) : Extremal(t) => s <= t
DelSlot(q, s) == SubSeq(q, 1, s - 1) \o SubSeq(q, s + 1, Len(q))

Step ==
  /\ started /\ Len(short) > 0
  /\ LET s == PickSlot IN            \* rows carry unique ids, so shortlist.index(nxt) is this very slot
     /\ out' = Append(out, short[s])
     /\ IF Len(rest[s]) > 0
        THEN short' = [short EXCEPT ![s] = Head(rest[s])] /\ rest' = [rest EXCEPT ![s] = Tail(@)]
        ELSE short' = DelSlot(short, s) /\ rest' = DelSlot(rest, s)
  /\ UNCHANGED <<ins, reverse, started>>

Next == Populate \/ Step
Spec == Init /\ [][Next]_vars
----------------------------------------------------------------------------
Done == started /\ Len(short) = 0
\* concatenation of the inputs, with the position of every row in it
CatRows == LET RECURSIVE C(_)
               C(i) == IF i = 0 THEN <<>> ELSE C(i - 1) \o [p \in 1..Len(ins[i]) |-> <<i, p>>]
           IN C(NIn)
CatKeys == [j \in 1..Len(CatRows) |-> KeyOfRow(CatRows[j])]
MergeCorrect == Done => out = Apply(StableOrder(CatKeys, reverse), CatRows)
\* nothing is lost or invented while merging
Conserved == Len(out) + Len(short) + FoldLeft(LAMBDA a, q : a + Len(q), 0, rest) = (IF started THEN Len(CatRows) ELSE 0)
SlotsAligned == Len(short) = Len(rest)
=============================================================================
