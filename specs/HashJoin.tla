------------------------------ MODULE HashJoin ------------------------------
(***************************************************************************)
(* petl/transform/hashjoins.py and petl/util/lookups.py (C07).             *)
(*                                                                         *)
(* A hash join builds, at iter() time, a lookup of one side (key -> row    *)
(* positions in table order; hashlookupjoin keeps the first row only,      *)
(* hashantijoin a key set), then streams the other side row by row.        *)
(* With cache=True the lookup is built by the first pass and reused.       *)
(*                                                                         *)
(* Rows are positions in LK / RK (key columns; naturals, 0 = None); output *)
(* rows are <<l, r>> pairs as in MergeJoin, and the expected result is the *)
(* SAME definition RelJoin!RelJoinSet the sort-merge joins are checked     *)
(* against - which is what "agree with the sort-merge joins" means.        *)
(***************************************************************************)
EXTENDS Naturals, Sequences, FiniteSets, SequencesExt, RelJoin

CONSTANTS MaxRows, Vals, Ops, Passes

VARIABLES LK, RK, op, cache, pc, pass,
          lkp,      \* the view's lookup: function key -> sequence of positions (in table order)
          built,    \* lookup present on the view
          i,        \* streamed rows consumed in this pass
          out

vars == <<LK, RK, op, cache, pc, pass, lkp, built, i, out>>

\* which side is streamed / built
StreamRight == op = "right"
Stream == IF StreamRight THEN RK ELSE LK
Build == IF StreamRight THEN LK ELSE RK

\* lookup(table, key): every key -> all its rows, in table order
PositionsOf(ks, k) == SelectSeq([j \in 1..Len(ks) |-> j], LAMBDA j : ks[j] = k)
LookupAll(ks) == [k \in Range(ks) |-> PositionsOf(ks, k)]
\* lookupone(strict=False): first row wins
LookupOne(ks) == [k \in Range(ks) |-> <<PositionsOf(ks, k)[1]>>]
\* strict=True raises DuplicateKeyError exactly when some key repeats
HasDuplicateKey(ks) == \E a, b \in 1..Len(ks) : a # b /\ ks[a] = ks[b]

Init ==
  /\ LK \in UNION {[1..n -> Vals] : n \in 0..MaxRows}
  /\ RK \in UNION {[1..n -> Vals] : n \in 0..MaxRows}
  /\ op \in Ops
  /\ cache \in BOOLEAN
  /\ pc = "iter" /\ pass = 1 /\ lkp = <<>> /\ built = FALSE /\ i = 0 /\ out = <<>>

\* View.__iter__: `if not self.cache or self.rlookup is None: self.rlookup = lookup(...)`
\* (hashlookupjoin / hashantijoin rebuild inside the generator on every pass: same effect as cache off)
IterBuild ==
  /\ pc = "iter"
  /\ (~cache \/ ~built \/ op \in {"lookup", "anti"})
  /\ lkp' = IF op = "lookup" THEN LookupOne(Build) ELSE LookupAll(Build)
  /\ built' = TRUE
  /\ pc' = "probe"
  /\ UNCHANGED <<LK, RK, op, cache, pass, i, out>>

IterCached ==
  /\ pc = "iter"
  /\ cache /\ built /\ op \notin {"lookup", "anti"}
  /\ pc' = "probe"
  /\ UNCHANGED <<LK, RK, op, cache, pass, lkp, built, i, out>>

\* one streamed row
Emit(s) ==
  LET k == Stream[s]
      hit == k \in DOMAIN lkp IN
  CASE op = "join"   -> IF hit THEN [j \in 1..Len(lkp[k]) |-> <<s, lkp[k][j]>>] ELSE <<>>
    [] op = "left"   -> IF hit THEN [j \in 1..Len(lkp[k]) |-> <<s, lkp[k][j]>>] ELSE <<<<s, 0>>>>
    [] op = "lookup" -> IF hit THEN <<<<s, lkp[k][1]>>>> ELSE <<<<s, 0>>>>
    [] op = "right"  -> IF hit THEN [j \in 1..Len(lkp[k]) |-> <<lkp[k][j], s>>] ELSE <<<<0, s>>>>
    [] op = "anti"   -> IF hit THEN <<>> ELSE <<<<s, 0>>>>

Probe ==
  /\ pc = "probe"
  /\ i < Len(Stream)
  /\ i' = i + 1
  /\ out' = out \o Emit(i + 1)
  /\ UNCHANGED <<LK, RK, op, cache, pc, pass, lkp, built>>

EndPass ==
  /\ pc = "probe"
  /\ i = Len(Stream)
  /\ pc' = "passdone"
  /\ UNCHANGED <<LK, RK, op, cache, pass, lkp, built, i, out>>

NextPass ==
  /\ pc = "passdone"
  /\ pass < Passes
  /\ pass' = pass + 1 /\ pc' = "iter" /\ i' = 0 /\ out' = <<>>
  /\ UNCHANGED <<LK, RK, op, cache, lkp, built>>

Next == IterBuild \/ IterCached \/ Probe \/ EndPass \/ NextPass
Spec == Init /\ [][Next]_vars
----------------------------------------------------------------------------
\* C07: same rows as the relational definition shared with the merge joins, each exactly once
HashCorrect == pc = "passdone" => /\ ToSet(out) = RelJoinSet(op, LK, RK)
                                  /\ Len(out) = Cardinality(RelJoinSet(op, LK, RK))
\* rows are emitted in the order of the streamed side (partners in table order)
StreamOrder == pc = "passdone" => \A a \in 1..(Len(out) - 1) :
                  LET s == IF StreamRight THEN 2 ELSE 1   b == IF StreamRight THEN 1 ELSE 2 IN
                  out[a][s] < out[a + 1][s] \/ (out[a][s] = out[a + 1][s] /\ out[a][b] < out[a + 1][b])
\* lookups: all rows per key in table order; *one = the first; strict raises iff a key repeats
LookupLaws ==
  /\ \A k \in Range(RK) : /\ \A j \in 1..Len(LookupAll(RK)[k]) : RK[LookupAll(RK)[k][j]] = k
                          /\ Len(LookupAll(RK)[k]) = Cardinality({j \in 1..Len(RK) : RK[j] = k})
                          /\ \A j \in 1..(Len(LookupAll(RK)[k]) - 1) : LookupAll(RK)[k][j] < LookupAll(RK)[k][j + 1]
                          /\ LookupOne(RK)[k] = <<LookupAll(RK)[k][1]>>
  /\ HasDuplicateKey(RK) <=> \E k \in Range(RK) : Len(LookupAll(RK)[k]) > 1
=============================================================================
