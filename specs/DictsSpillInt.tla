--------------------------- MODULE DictsSpillInt ---------------------------
(***************************************************************************)
(* Integer abstraction of DictsSpill.tla (fromdicts on a one-shot          *)
(* generator with a spill file, C01 / C18) for an UNBOUNDED number of rows *)
(* and every sample size; the inductive invariant is discharged by         *)
(* Apalache.  del[i] (always meant to be <<1..k>>) is represented by its    *)
(* length dlen[i] and the flag dbad[i] "a delivered item was not the next  *)
(* item of the solo pass".  DictsSpillRef.tla (TLC) shows that              *)
(* DictsSpill.tla implements this module under that mapping.               *)
(***************************************************************************)
EXTENDS Integers

CONSTANTS
    \* @type: Int;
    M,
    \* @type: Int;
    Sample

VARIABLES
    \* @type: Bool;
    hdrKnown,
    \* @type: Int;
    buffered,
    \* @type: Int;
    srcPos,
    \* @type: Bool;
    fileExists,
    \* @type: Int;
    cachedN,
    \* @type: Int -> Str;
    st,
    \* @type: Int -> Int;
    pos,
    \* @type: Int -> Int;
    dlen,
    \* @type: Int -> Bool;
    dbad

vars == <<hdrKnown, buffered, srcPos, fileExists, cachedN, st, pos, dlen, dbad>>
Its == 1..3
NRows == M - 1
ConstInit == M \in Nat /\ M >= 1 /\ Sample \in Nat /\ Sample >= 1

Init == /\ hdrKnown = FALSE /\ buffered = 0 /\ srcPos = 0 /\ fileExists = FALSE /\ cachedN = 0
        /\ st = [i \in Its |-> "unborn"] /\ pos = [i \in Its |-> 0]
        /\ dlen = [i \in Its |-> 0] /\ dbad = [i \in Its |-> FALSE]

Iter(i) == /\ st[i] = "unborn" /\ (\A j \in Its : j < i => st[j] # "unborn")
           /\ st' = [st EXCEPT ![i] = "fresh"]
           /\ UNCHANGED <<hdrKnown, buffered, srcPos, fileExists, cachedN, pos, dlen, dbad>>

Min(a, b) == IF a < b THEN a ELSE b
NextHeader(i) ==
  /\ st[i] = "fresh"
  /\ IF hdrKnown THEN UNCHANGED <<hdrKnown, buffered, srcPos>>
     ELSE /\ hdrKnown' = TRUE
          /\ srcPos' = Min(Sample, NRows)
          /\ buffered' = Min(Sample, NRows)
  /\ st' = [st EXCEPT ![i] = "run"]
  /\ dbad' = [dbad EXCEPT ![i] = @ \/ dlen[i] # 0]          \* delivers item 1
  /\ dlen' = [dlen EXCEPT ![i] = @ + 1]
  /\ UNCHANGED <<fileExists, cachedN, pos>>

NextRow(i) ==
  /\ st[i] = "run"
  /\ fileExists' = TRUE
  /\ IF pos[i] < cachedN
     THEN /\ dbad' = [dbad EXCEPT ![i] = @ \/ dlen[i] # pos[i] + 1]          \* delivers item pos + 2
          /\ dlen' = [dlen EXCEPT ![i] = @ + 1]
          /\ pos' = [pos EXCEPT ![i] = @ + 1]
          /\ UNCHANGED <<buffered, srcPos, cachedN, st>>
     ELSE IF buffered > 0 \/ srcPos < NRows
          THEN /\ dbad' = [dbad EXCEPT ![i] = @ \/ dlen[i] # srcPos - buffered + 1]   \* delivers item r + 1, r = srcPos - buffered + 1
               /\ dlen' = [dlen EXCEPT ![i] = @ + 1]
               /\ buffered' = IF buffered > 0 THEN buffered - 1 ELSE 0
               /\ srcPos' = IF buffered > 0 THEN srcPos ELSE srcPos + 1
               /\ cachedN' = cachedN + 1
               /\ pos' = [pos EXCEPT ![i] = cachedN + 1]
               /\ UNCHANGED st
          ELSE st' = [st EXCEPT ![i] = "done"] /\ UNCHANGED <<buffered, srcPos, cachedN, pos, dlen, dbad>>
  /\ UNCHANGED hdrKnown

Drop(i) == /\ st[i] \in {"fresh", "run"} /\ st' = [st EXCEPT ![i] = "dropped"]
           /\ UNCHANGED <<hdrKnown, buffered, srcPos, fileExists, cachedN, pos, dlen, dbad>>

Next == \E i \in Its : Iter(i) \/ NextHeader(i) \/ NextRow(i) \/ Drop(i)
Spec == Init /\ [][Next]_vars
----------------------------------------------------------------------------
Independent == \A i \in Its : ~dbad[i] /\ dlen[i] <= M
ExhaustedIsComplete == \A i \in Its : st[i] = "done" => dlen[i] = M
FileSound == cachedN = srcPos - buffered
Safe == Independent /\ ExhaustedIsComplete /\ FileSound

TypeOK == /\ hdrKnown \in BOOLEAN /\ buffered \in Nat /\ srcPos \in Nat /\ fileExists \in BOOLEAN /\ cachedN \in Nat
          /\ st \in [Its -> {"unborn", "fresh", "run", "done", "dropped"}] /\ pos \in [Its -> Nat]
          /\ dlen \in [Its -> Nat] /\ dbad \in [Its -> BOOLEAN]
IndInv ==
  /\ TypeOK
  /\ FileSound /\ buffered <= srcPos /\ srcPos <= NRows
  /\ ~hdrKnown => srcPos = 0 /\ buffered = 0 /\ cachedN = 0
  /\ \A i \in Its :
       /\ ~dbad[i] /\ dlen[i] <= M /\ pos[i] <= cachedN
       /\ st[i] \in {"unborn", "fresh"} => dlen[i] = 0 /\ pos[i] = 0
       /\ st[i] = "run" => dlen[i] = pos[i] + 1 /\ hdrKnown
       /\ st[i] = "done" => dlen[i] = M
IndInit == IndInv
=============================================================================
