----------------------------- MODULE GroupTrace -----------------------------
(***************************************************************************)
(* Trace validation for C09 (code -> spec).  One recorded execution = one  *)
(* grouping operator over a random table.  K = the key column as typed     *)
(* abstract values (equal keys <-> equal values); the recorded groups are  *)
(* the member positions each output row was computed from (captured by an  *)
(* identity-collecting aggregator).  Accepted iff the groups are exactly   *)
(* the partition by key, in ascending key order, members in input order,   *)
(* and the recorded counts add up to the number of rows.                   *)
(***************************************************************************)
EXTENDS Ordering, Naturals, Sequences, FiniteSets, SequencesExt, Json, IOUtils, TLC

Trace == ndJsonDeserialize(IOEnv.TRACE_FILE)
VARIABLES tid, l, bad, why
vars == <<tid, l, bad, why>>
Init == tid \in 1..Len(Trace) /\ l = 0 /\ bad = 0 /\ why = "ok"

Check(T) ==
  LET K == T.K  n == Len(K)  G == T.groups IN
  IF ~(\A i \in 1..n : Cardinality({g \in 1..Len(G) : \E p \in 1..Len(G[g]) : G[g][p] = i}) = 1) THEN "each-row-once"
  ELSE IF ~(\A g \in 1..Len(G) : G[g] # <<>> /\ \A p \in 1..Len(G[g]) : G[g][p] \in 1..n /\ K[G[g][p]] = K[G[g][1]]) THEN "same-key"
  ELSE IF ~(\A g, h \in 1..Len(G) : g # h => K[G[g][1]] # K[G[h][1]]) THEN "one-group-per-key"
  ELSE IF ~(\A g \in 1..(Len(G) - 1) : Lt(K[G[g][1]], K[G[g + 1][1]])) THEN "ascending"
  ELSE IF ~(\A g \in 1..Len(G) : \A p \in 1..(Len(G[g]) - 1) : G[g][p] < G[g][p + 1]) /\ T.ordered THEN "input-order"
  ELSE IF FoldLeft(LAMBDA a, c : a + c, 0, T.counts) # n THEN "counts"
  ELSE "ok"

Step == /\ l = 0 /\ l' = 1
        /\ why' = Check(Trace[tid])
        /\ bad' = IF why' = "ok" THEN 0 ELSE 1
        /\ UNCHANGED tid
Next == Step
Verdict == l = 1 => PrintT(<<"VERDICT", tid, bad, why>>)
=============================================================================
