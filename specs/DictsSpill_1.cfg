CONSTANTS M = 4
          NIter = 3
          Sample = 1
INIT Init
NEXT Next
INVARIANT Independent
INVARIANT ExhaustedIsComplete
INVARIANT FileSound
