CONSTANTS MaxPrev = 2
          MaxNew = 3
INIT Init
NEXT Next
INVARIANT Emit
