--------------------------- MODULE OrderingTrace ---------------------------
(***************************************************************************)
(* Trace validation for C04 (code -> spec).  One recorded execution =      *)
(* one batch of concrete values, abstracted by the harness to typed        *)
(* values with native within-class ranks, followed by one `cmp` event per  *)
(* evaluated pair carrying the five truth values the real Comparable gave. *)
(* The trace is a behaviour of the specification iff every event agrees    *)
(* with Lt/Eq/Le/Gt/Ge.  Verdicts are total: the position of the first     *)
(* disagreeing event is reported (0 = accepted).                           *)
(***************************************************************************)
EXTENDS Ordering, Json, IOUtils, TLC

Trace == ndJsonDeserialize(IOEnv.TRACE_FILE)

VARIABLES tid, l, bad
vars == <<tid, l, bad>>

Init == tid \in 1..Len(Trace) /\ l = 0 /\ bad = 0

Agrees(ev, vals) ==
  LET x == vals[ev.a]  y == vals[ev.b] IN
  /\ ev.lt = Lt(x, y)
  /\ ev.eq = Eq(x, y)
  /\ ev.le = Le(x, y)
  /\ ev.gt = Gt(x, y)
  /\ ev.ge = Ge(x, y)

Cmp == /\ l < Len(Trace[tid].cmps)
       /\ l' = l + 1
       /\ bad' = IF bad = 0 /\ ~Agrees(Trace[tid].cmps[l + 1], Trace[tid].vals) THEN l + 1 ELSE bad
       /\ UNCHANGED tid

Next == Cmp
Spec == Init /\ [][Next]_vars

Done == l = Len(Trace[tid].cmps)
Verdict == Done => PrintT(<<"VERDICT", tid, bad>>)
=============================================================================
