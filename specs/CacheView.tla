----------------------------- MODULE CacheView -----------------------------
(***************************************************************************)
(* petl.util.materialise.CacheView.__iter__ (cache(table, n)), with        *)
(* Python's generator semantics: iter() runs nothing; each next() resumes  *)
(* the body until the next yield.                                          *)
(*                                                                         *)
(*   for row in self.cache: yield row          phase "p1": the LIVE list,  *)
(*                                             indexed, sees later appends *)
(*   if not self.cachecomplete:                                            *)
(*     it = iter(self.inner)                   phase "p2": own inner pass, *)
(*     for row in islice(it, len(self.cache), None):   skip fixed on entry *)
(*       if not self.n or len(self.cache) < self.n: self.cache.append(row) *)
(*       yield row                                                         *)
(*     if not self.n or len(self.cache) < self.n: self.cachecomplete = True*)
(*                                                                         *)
(* Variant "orig" is the guard above; "fixed" appends only when this       *)
(* iterator is at the cache's high-water mark (len(cache) == its position).*)
(* The inner table delivers items 1..M (header first).                     *)
(***************************************************************************)
EXTENDS Naturals, Sequences, FiniteSets

CONSTANTS M, NIter, Limit, Variant     \* Limit = 0 encodes n=None

VARIABLES cache, complete, st, idx, ipos, del
vars == <<cache, complete, st, idx, ipos, del>>
Its == 1..NIter

Init == /\ cache = <<>> /\ complete = FALSE
        /\ st = [i \in Its |-> "unborn"] /\ idx = [i \in Its |-> 0] /\ ipos = [i \in Its |-> 0]
        /\ del = [i \in Its |-> <<>>]

Iter(i) == /\ st[i] = "unborn" /\ (\A j \in 1..(i - 1) : st[j] # "unborn")
           /\ st' = [st EXCEPT ![i] = "p1"]
           /\ UNCHANGED <<cache, complete, idx, ipos, del>>

Room == Limit = 0 \/ Len(cache) < Limit

\* next() while serving the live cache list
NextCached(i) ==
  /\ st[i] = "p1" /\ idx[i] < Len(cache)
  /\ del' = [del EXCEPT ![i] = Append(@, cache[idx[i] + 1])]
  /\ idx' = [idx EXCEPT ![i] = @ + 1]
  /\ UNCHANGED <<cache, complete, st, ipos>>

\* the live list is exhausted and the cache is complete: StopIteration
StopComplete(i) ==
  /\ st[i] = "p1" /\ idx[i] = Len(cache) /\ complete
  /\ st' = [st EXCEPT ![i] = "done"]
  /\ UNCHANGED <<cache, complete, idx, ipos, del>>

\* one pull from this iterator's own inner pass at position p (0-based count of items consumed)
Pull(i, p) ==
  IF p < M
  THEN /\ cache' = IF Room /\ (Variant = "orig" \/ Len(cache) = p) THEN Append(cache, p + 1) ELSE cache
       /\ del' = [del EXCEPT ![i] = Append(@, p + 1)]
       /\ ipos' = [ipos EXCEPT ![i] = p + 1]
       /\ st' = [st EXCEPT ![i] = "p2"]
       /\ UNCHANGED complete
  ELSE /\ complete' = IF Room THEN TRUE ELSE complete
       /\ st' = [st EXCEPT ![i] = "done"]
       /\ UNCHANGED <<cache, del, ipos>>

\* the live list is exhausted, cache not complete: open the inner table, skip len(cache) items
EnterInner(i) ==
  /\ st[i] = "p1" /\ idx[i] = Len(cache) /\ ~complete
  /\ Pull(i, Len(cache))
  /\ UNCHANGED idx

NextInner(i) ==
  /\ st[i] = "p2"
  /\ Pull(i, ipos[i])
  /\ UNCHANGED idx

Drop(i) == /\ st[i] \in {"p1", "p2"}
           /\ st' = [st EXCEPT ![i] = "dropped"]
           /\ UNCHANGED <<cache, complete, idx, ipos, del>>

Next == \E i \in Its : Iter(i) \/ NextCached(i) \/ StopComplete(i) \/ EnterInner(i) \/ NextInner(i) \/ Drop(i)
Spec == Init /\ [][Next]_vars
----------------------------------------------------------------------------
IsPrefixOfSolo(d) == \A j \in 1..Len(d) : d[j] = j
\* C01: every iterator delivers a prefix of the solo pass, whatever the others do
Independent == \A i \in Its : IsPrefixOfSolo(del[i]) /\ Len(del[i]) <= M
\* the shared cache is always a correct prefix of the inner table, so later passes are right too
CacheSound == IsPrefixOfSolo(cache) /\ (complete => Len(cache) = M)
\* an exhausted iterator has delivered everything
ExhaustedIsComplete == \A i \in Its : st[i] = "done" => Len(del[i]) = M
=============================================================================
