CONSTANTS Cells = {0, 1}
          MaxRows = 3
INIT Init
NEXT Next
