----------------------------- MODULE SetOpsGen -----------------------------
(* Case emission for C08: every pair of small rectangular tables over 2-cell rows (None and   *)
(* numbers), with what the multiset definitions prescribe for the sorted and hash variants.   *)
EXTENDS SetDefs, Tables, Sorting, Json, IOUtils, TLC
CONSTANTS Cells, MaxRows

RowVals == {<<x, y>> : x, y \in Cells}
Tabs == SeqsUpTo(RowVals, MaxRows)
RowKey(r) == KeyOf(r, <<1, 2>>)
SortRows(t) == Apply(StableOrder([i \in 1..Len(t) |-> RowKey(t[i])], FALSE), t)
Case(a, b) == LET sa == SortRows(a) IN
  [a |-> a, b |-> b,
   comp |-> CompSeq(sa, b, FALSE), compstrict |-> CompSeq(sa, b, TRUE), inter |-> InterSeq(sa, b),
   hcomp |-> CompSeq(a, b, FALSE), hcompstrict |-> CompSeq(a, b, TRUE), hinter |-> InterSeq(a, b)]
\* definition-level laws, checked on every generated case
ASSUME \A a \in Tabs, b \in Tabs :
         LET c == Case(a, b) IN
         /\ IsBagDiff(c.comp, a, b) /\ IsBagDiff(c.hcomp, a, b)
         /\ IsStrictDiff(c.compstrict, a, b) /\ IsStrictDiff(c.hcompstrict, a, b)
         /\ IsBagInter(c.inter, a, b) /\ IsBagInter(c.hinter, a, b)
         /\ BagEq(c.comp \o c.inter, a)
ASSUME ndJsonSerialize(IOEnv.OUT, SetToSeq({Case(a, b) : a \in Tabs, b \in Tabs}))
VARIABLE x
Init == x = 0
Next == FALSE /\ UNCHANGED x
=============================================================================
