---------------------------- MODULE ReshapeTrace ----------------------------
(***************************************************************************)
(* Trace validation for C14 (code -> spec).  One recorded execution = the  *)
(* real melt / recast / transpose / flatten / unflatten / pivot applied to *)
(* a random rectangular integer table with unique keys (the first nk       *)
(* fields); the event carries their outputs.  Accepted iff every output is *)
(* what the Reshape definitions give and the round trips close.            *)
(***************************************************************************)
EXTENDS Reshape, Json, IOUtils, TLC
Trace == ndJsonDeserialize(IOEnv.TRACE_FILE)
VARIABLES tid, l, bad, why
vars == <<tid, l, bad, why>>
T == Trace[tid]
Init == tid \in 1..Len(Trace) /\ l = 0 /\ bad = 0 /\ why = "ok"
Tab == [hdr |-> T.hdr, rows |-> T.rows]
KIdx == [j \in 1..T.nk |-> j]
Check ==
  IF T.molten # Melt(Tab, KIdx).rows THEN "melt"
  ELSE IF Len(T.rows) > 0 /\ T.recast # Canonical(Tab, KIdx) THEN "recast(melt)"
  ELSE IF T.transpose # Transpose(Grid(Tab)) THEN "transpose"
  ELSE IF T.transpose2 # Grid(Tab) THEN "transpose-involution"
  ELSE IF T.flat # Flatten(Tab) THEN "flatten"
  ELSE IF T.unflat # Unflatten(Flatten(Tab), T.n, 0) THEN "unflatten"
  ELSE "ok"
Step == /\ l = 0 /\ l' = 1 /\ UNCHANGED tid
        /\ why' = Check /\ bad' = IF why' = "ok" THEN 0 ELSE 1
Next == Step
Verdict == l = 1 => PrintT(<<"VERDICT", tid, bad, why>>)
=============================================================================
