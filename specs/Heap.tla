-------------------------------- MODULE Heap --------------------------------
(***************************************************************************)
(* C03: transformations never modify their inputs or rows already          *)
(* delivered - as an object/heap model.                                    *)
(*                                                                         *)
(* heap[o] = content of object o (a sequence of cells).  Objects 1..NSrc   *)
(* are the source rows (frozen from the start); an operator produces one   *)
(* output row per Next by one of the row-assembly idioms found in petl:    *)
(*   "alias"   deliver the source row object itself (select, head, cat of  *)
(*             equal headers, sort: the row passes through untouched)      *)
(*   "copy"    build a new object from the source row and edit THAT before *)
(*             delivering it (addfield, convert, annex, joins, unpack ...) *)
(*   "carry"   keep a private running row (filldown's fill list, fold      *)
(*             state), update it, deliver a COPY                           *)
(* and two defective idioms kept as negative tests of the property:        *)
(*   "inplace" edit the source row object itself and deliver it            *)
(*   "reuse"   one row buffer reused for every output and delivered as is  *)
(* frozen = source objects + every object once delivered.                  *)
(* Immutable: no step changes the content of a frozen object.              *)
(***************************************************************************)
EXTENDS Naturals, Sequences, FiniteSets

CONSTANTS NSrc, Idiom

VARIABLES heap, frozen, nobj, i, buf, delivered
vars == <<heap, frozen, nobj, i, buf, delivered>>

SrcContent(r) == <<r, r>>
Init == /\ heap = [o \in 1..NSrc |-> SrcContent(o)]
        /\ frozen = 1..NSrc /\ nobj = NSrc /\ i = 0 /\ buf = 0 /\ delivered = <<>>

Edit(c, r) == Append(c, r + 100)          \* the operator's change: append a computed cell

New(c) == /\ nobj' = nobj + 1
          /\ heap' = [o \in 1..(nobj + 1) |-> IF o = nobj + 1 THEN c ELSE heap[o]]

NextRow ==
  /\ i < NSrc /\ i' = i + 1
  /\ LET r == i + 1 IN
     CASE Idiom = "alias" ->
            /\ delivered' = Append(delivered, r) /\ frozen' = frozen \cup {r}
            /\ UNCHANGED <<heap, nobj, buf>>
       [] Idiom = "copy" ->
            /\ New(Edit(heap[r], r))
            /\ delivered' = Append(delivered, nobj + 1) /\ frozen' = frozen \cup {nobj + 1}
            /\ UNCHANGED buf
       [] Idiom = "carry" ->
            \* private running row, allocated on the first row, updated in place (it is NOT frozen), a copy goes out
            /\ IF buf = 0
               THEN /\ nobj' = nobj + 2
                    /\ heap' = [o \in 1..(nobj + 2) |-> IF o = nobj + 1 THEN heap[r] ELSE IF o = nobj + 2 THEN heap[r] ELSE heap[o]]
                    /\ buf' = nobj + 1
                    /\ delivered' = Append(delivered, nobj + 2) /\ frozen' = frozen \cup {nobj + 2}
               ELSE /\ nobj' = nobj + 1
                    /\ heap' = [o \in 1..(nobj + 1) |-> IF o = buf THEN heap[r] ELSE IF o = nobj + 1 THEN heap[r] ELSE heap[o]]
                    /\ UNCHANGED buf
                    /\ delivered' = Append(delivered, nobj + 1) /\ frozen' = frozen \cup {nobj + 1}
       [] Idiom = "inplace" ->
            /\ heap' = [heap EXCEPT ![r] = Edit(@, r)]
            /\ delivered' = Append(delivered, r) /\ frozen' = frozen \cup {r}
            /\ UNCHANGED <<nobj, buf>>
       [] Idiom = "reuse" ->
            /\ IF buf = 0
               THEN New(Edit(heap[r], r)) /\ buf' = nobj + 1
                    /\ delivered' = Append(delivered, nobj + 1) /\ frozen' = frozen \cup {nobj + 1}
               ELSE heap' = [heap EXCEPT ![buf] = Edit(heap[r], r)] /\ UNCHANGED <<nobj, buf>>
                    /\ delivered' = Append(delivered, buf) /\ frozen' = frozen
Next == NextRow
Spec == Init /\ [][Next]_vars
----------------------------------------------------------------------------
Immutable == [][\A o \in frozen : heap'[o] = heap[o]]_vars
\* rows collected from a view stay valid: a delivered row still holds what it held when it was delivered
SourcesIntact == \A o \in 1..NSrc : heap[o] = SrcContent(o)
=============================================================================
