----------------------------- MODULE DbLoadInt -----------------------------
(***************************************************************************)
(* Integer abstraction of DbLoad.tla (todb / appenddb over a DB-API handle, *)
(* C17) for an UNBOUNDED number N of new rows and every failure point; its  *)
(* inductive invariant is discharged by Apalache.  Table contents are       *)
(* represented symbolically:                                                *)
(*   pending  ->  pbase ("prev" | "empty") and pk = number of new rows      *)
(*                appended to it (always new[1..pk])                        *)
(*   durable  ->  dstate: "prev" | "final" | "other" (anything else - an    *)
(*                emptied or partially loaded table)                        *)
(* Final is <<"empty", N>> for todb and <<"prev", N>> for appenddb.  That   *)
(* DbLoad.tla implements this module under that mapping is checked by TLC   *)
(* (DbLoadRef.tla).                                                         *)
(***************************************************************************)
EXTENDS Integers

VARIABLES
    \* the parameters of one load, constant along a behaviour (variables so that DbLoad's can be substituted for them)
    \* @type: Int;
    N,
    \* @type: Str;
    op,
    \* @type: Str;
    handle,
    \* @type: Bool;
    commitFlag,
    \* @type: Int;
    failAt,
    \* @type: Str;
    dstate,
    \* @type: Str;
    pbase,
    \* @type: Int;
    pk,
    \* @type: Bool;
    intx,
    \* @type: Int;
    pos,
    \* @type: Str;
    pc,
    \* @type: Str;
    ret

params == <<N, op, handle, commitFlag, failAt>>
vars == <<N, op, handle, commitFlag, failAt, dstate, pbase, pk, intx, pos, pc, ret>>
ParamsOK == /\ N \in Nat /\ op \in {"todb", "appenddb"} /\ handle \in {"filename", "connection", "cursor", "mkcurs"}
            /\ commitFlag \in BOOLEAN /\ failAt \in Nat /\ failAt <= N + 2

FinalBase == IF op = "todb" THEN "empty" ELSE "prev"
PendingIsFinal == pbase = FinalBase /\ pk = N
PendingIsPrev == pbase = "prev" /\ pk = 0

Init == /\ ParamsOK
        /\ dstate = "prev" /\ pbase = "prev" /\ pk = 0 /\ intx = FALSE
        /\ pos = 0 /\ pc = "header" /\ ret = "running"

\* rollback on a connection petl opened itself
\* (pbase / pk describe what petl's connection saw in its transaction; after a rollback it sees the durable state again)
Rollback == IF handle = "filename" THEN intx' = FALSE /\ UNCHANGED <<pbase, pk>>
                                   ELSE UNCHANGED <<intx, pbase, pk>>
Fail == /\ Rollback /\ ret' = "raised" /\ pc' = "end" /\ UNCHANGED <<dstate, pos>>

PullHeader ==
  /\ pc = "header"
  /\ IF failAt = 1 THEN Fail
     ELSE /\ pc' = IF op = "todb" THEN "delete" ELSE "insert"
          /\ UNCHANGED <<dstate, pbase, pk, intx, pos, ret>>

Delete ==
  /\ pc = "delete"
  /\ pbase' = "empty" /\ pk' = 0 /\ intx' = TRUE
  /\ pc' = "insert"
  /\ UNCHANGED <<dstate, pos, ret>>

InsertNext ==
  /\ pc = "insert" /\ pos < N
  /\ IF failAt = pos + 2 THEN Fail
     ELSE /\ pk' = pk + 1 /\ intx' = TRUE /\ pos' = pos + 1
          /\ UNCHANGED <<dstate, pbase, pc, ret>>

SourceExhausted ==
  /\ pc = "insert" /\ pos = N
  /\ IF failAt = N + 2 THEN Fail
     ELSE pc' = "commit" /\ UNCHANGED <<dstate, pbase, pk, intx, pos, ret>>

Commit ==
  /\ pc = "commit"
  /\ IF commitFlag
     THEN /\ dstate' = IF PendingIsFinal THEN "final" ELSE IF ~intx THEN dstate ELSE "other"
          /\ intx' = FALSE
     ELSE UNCHANGED <<dstate, intx>>
  /\ pc' = "return"
  /\ UNCHANGED <<pbase, pk, pos, ret>>

Return ==
  /\ pc = "return"
  /\ Rollback
  /\ ret' = "returned" /\ pc' = "end"
  /\ UNCHANGED <<dstate, pos>>

Next == (PullHeader \/ Delete \/ InsertNext \/ SourceExhausted \/ Commit \/ Return) /\ UNCHANGED params
Spec == Init /\ [][Next]_vars
----------------------------------------------------------------------------
AllOrNothing == dstate # "other"
FailureKeepsOld == ret = "raised" => dstate = "prev"
SuccessIsFinal == ret = "returned" /\ commitFlag => dstate = "final"
NoCommitLeavesPending == ret = "returned" /\ ~commitFlag /\ handle # "filename" => dstate = "prev" /\ PendingIsFinal
Safe == AllOrNothing /\ FailureKeepsOld /\ SuccessIsFinal /\ NoCommitLeavesPending

TypeOK == /\ dstate \in {"prev", "final", "other"} /\ pbase \in {"prev", "empty"} /\ pk \in Nat
          /\ intx \in BOOLEAN /\ pos \in Nat /\ pc \in {"header", "delete", "insert", "commit", "return", "end"}
          /\ ret \in {"running", "raised", "returned"}
Loading == pbase = FinalBase /\ pk = pos
IndInv ==
  /\ ParamsOK /\ TypeOK
  /\ pos <= N
  /\ pc \in {"header", "delete"} => dstate = "prev" /\ PendingIsPrev /\ pos = 0 /\ ret = "running"
  /\ pc = "delete" => op = "todb"
  /\ pc = "insert" => dstate = "prev" /\ Loading /\ ret = "running"
  /\ pc = "commit" => dstate = "prev" /\ Loading /\ pos = N /\ ret = "running"
  /\ pc = "return" => Loading /\ pos = N /\ ret = "running" /\ (IF commitFlag THEN dstate = "final" ELSE dstate = "prev")
  /\ pc = "end" => /\ ret \in {"raised", "returned"}
                   /\ ret = "raised" => dstate = "prev"
                   /\ ret = "returned" => /\ (IF commitFlag THEN dstate = "final" ELSE dstate = "prev")
                                          /\ (handle # "filename" => Loading /\ pos = N)
  /\ ret # "running" => pc = "end"
IndInit == IndInv
=============================================================================
