---------------------------- MODULE SelectTrace ----------------------------
(***************************************************************************)
(* Trace validation for C13 (code -> spec): a real comparison / range      *)
(* selector over a random column of concrete values (abstracted to typed   *)
(* values with native ranks, a missing cell logged as None) and reference  *)
(* values; the event carries the positions of the rows delivered.          *)
(* Accepted iff they are exactly the rows satisfying the documented        *)
(* predicate under the ordering of C04 (XOR complement), in input order.   *)
(***************************************************************************)
EXTENDS Ordering, Naturals, Sequences, FiniteSets, SequencesExt, Json, IOUtils, TLC
Trace == ndJsonDeserialize(IOEnv.TRACE_FILE)
VARIABLES tid, l, bad
vars == <<tid, l, bad>>
T == Trace[tid]
Init == tid \in 1..Len(Trace) /\ l = 0 /\ bad = 0
Pred(op, x, a, b) ==
  CASE op = "selecteq" -> Eq(x, a)
    [] op = "selectne" -> ~Eq(x, a)
    [] op = "selectlt" -> Lt(x, a)
    [] op = "selectle" -> Le(x, a)
    [] op = "selectgt" -> Gt(x, a)
    [] op = "selectge" -> Ge(x, a)
    [] op = "selectrangeopen" -> Le(a, x) /\ Le(x, b)
    [] op = "selectrangeopenleft" -> Le(a, x) /\ Lt(x, b)
    [] op = "selectrangeopenright" -> Lt(a, x) /\ Le(x, b)
    [] op = "selectrangeclosed" -> Lt(a, x) /\ Lt(x, b)
Expected == SelectSeq([i \in 1..Len(T.cells) |-> i], LAMBDA i : Pred(T.op, T.cells[i], T.a, T.b) # T.complement)
Step == /\ l = 0 /\ l' = 1 /\ UNCHANGED tid
        /\ bad' = IF T.out = Expected THEN 0 ELSE 1
Next == Step
Verdict == l = 1 => PrintT(<<"VERDICT", tid, bad>>)
=============================================================================
