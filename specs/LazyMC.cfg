CONSTANTS L = 7
          MaxDepth = 3
          MaxK = 4
INIT Init
NEXT Next
INVARIANT PullBound
INVARIANT ConstructionReadsNothing
INVARIANT StagewiseBound
INVARIANT Tight
