CONSTANTS MaxPrev = 2
          MaxNew = 3
VIEW View
INIT Init
NEXT Next
INVARIANT AllOrNothing
INVARIANT FailureKeepsOld
INVARIANT SuccessIsFinal
INVARIANT NoCommitLeavesPending
PROPERTY OnlyCommitChangesDurable
