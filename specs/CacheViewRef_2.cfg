CONSTANTS M = 4
          NIter = 3
          Limit = 2
          Variant = "fixed"
INIT Init
NEXT Next
PROPERTY AbsSpec
INVARIANT AbsSafe
