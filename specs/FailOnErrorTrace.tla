------------------------- MODULE FailOnErrorTrace -------------------------
(***************************************************************************)
(* Trace validation for C19 (code -> spec).  One recorded execution = one  *)
(* real convert / fieldmap / rowmap / rowmapmany view over a random table  *)
(* with a random set of failing cells, iterated with next(): one event per *)
(* input row = the items delivered for it (abstracted exactly as in        *)
(* FailOnError) and whether the exception surfaced.  The trace spec drives *)
(* FailOnError's own Step action and compares what it produces.            *)
(***************************************************************************)
EXTENDS FailOnError, IOUtils
Trace == ndJsonDeserialize(IOEnv.TRACE_FILE)
VARIABLES tid, l, bad
tvars == <<tid, l, bad>>
T == Trace[tid]
TInit == /\ tid \in 1..Len(Trace) /\ l = 0 /\ bad = 0
         /\ P = [n |-> T.n, fail |-> {<<c[1], c[2]>> : c \in {T.fail[k] : k \in 1..Len(T.fail)}}, policy |-> T.policy, op |-> T.op,
                 skip |-> {T.skip[k] : k \in 1..Len(T.skip)}]
         /\ i = 0 /\ out = <<>> /\ pc = "run" /\ last = <<>>
E_ == T.events[l + 1]
TStep == /\ l < Len(T.events) /\ l' = l + 1 /\ UNCHANGED tid
         /\ IF bad = 0 /\ pc = "run" /\ i < P.n
            THEN /\ Step
                 /\ bad' = IF last' = E_.items /\ (pc' = "raised") = E_.raised THEN 0 ELSE l + 1
            ELSE bad' = (IF bad = 0 THEN l + 1 ELSE bad) /\ UNCHANGED vars
TNext == TStep
\* a complete trace has one event per processed row: all rows, or up to the row where the exception surfaced
TDone == l = Len(T.events)
Complete == (pc = "raised") \/ i = P.n
Verdict == TDone => PrintT(<<"VERDICT", tid, IF bad = 0 /\ ~Complete THEN l + 1 ELSE bad>>)
=============================================================================
