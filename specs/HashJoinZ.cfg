CONSTANTS MaxRows = 1
          Vals = {0, 1, 2}
          Ops = {"join", "left", "right", "anti", "lookup"}
          Passes = 2
INIT Init
NEXT Next
INVARIANT HashCorrect
INVARIANT StreamOrder
INVARIANT LookupLaws
