------------------------------- MODULE RowOps -------------------------------
(***************************************************************************)
(* C12: definitions of the row- and field-level transforms, written with   *)
(* the same field-resolution and padding rules the code applies            *)
(* (petl/util/base.asindices, petl/transform/basics|headers|fills).        *)
(* A table is [hdr |-> sequence of field names, rows |-> sequence of       *)
(* rows]; rows are sequences of naturals and may be shorter or longer than *)
(* the header; 0 is None, the default `missing`.                           *)
(* A field selection is a sequence of items <<"n", name>> or <<"i", idx>>  *)
(* (idx 0-based, 0 <= idx < len(hdr)).                                     *)
(***************************************************************************)
EXTENDS PyData, FiniteSets, SequencesExt

Err == [hdr |-> <<"FieldSelectionError">>, rows |-> <<>>]     \* asindices / header lookup failed

\* asindices: an index takes priority; names are consumed left to right (a second use of a name finds the next
\* field of that name); anything else is a FieldSelectionError
RECURSIVE AsIdx(_, _, _)
AsIdx(hdr, spec, used) ==
  IF spec = <<>> THEN <<>>
  ELSE LET s == Head(spec) IN
       IF s[1] = "i" THEN <<s[2]>> \o AsIdx(hdr, Tail(spec), used)
       ELSE LET cand == {j \in 1..Len(hdr) : hdr[j] = s[2] /\ j \notin used} IN
            IF cand = {} THEN <<-1>>
            ELSE LET j == CHOOSE j \in cand : \A q \in cand : j <= q IN <<j - 1>> \o AsIdx(hdr, Tail(spec), used \cup {j})
AsIndices(hdr, spec) == AsIdx(hdr, spec, {})           \* 0-based indices; contains -1 iff the selection fails
Ok(idx) == \A j \in 1..Len(idx) : idx[j] >= 0

PickRow(row, idx, missing) == [j \in 1..Len(idx) |-> PyGetOr(row, idx[j], missing)]
MapRows(rows, F(_)) == [i \in 1..Len(rows) |-> F(rows[i])]

Cut(t, spec, missing) ==
  LET idx == AsIndices(t.hdr, spec) IN
  IF ~Ok(idx) THEN Err ELSE [hdr |-> PickRow(t.hdr, idx, missing), rows |-> MapRows(t.rows, LAMBDA r : PickRow(r, idx, missing))]
Cutout(t, spec, missing) ==
  LET out == AsIndices(t.hdr, spec) IN
  IF ~Ok(out) THEN Err ELSE
  LET keep == SelectSeq([j \in 1..Len(t.hdr) |-> j - 1], LAMBDA i : ~Has(out, i)) IN
  [hdr |-> PickRow(t.hdr, keep, missing), rows |-> MapRows(t.rows, LAMBDA r : PickRow(r, keep, missing))]
\* movefield(name, index): the FIRST field of that name is taken out of the header and the name re-inserted
\* (list.insert semantics); the columns are then re-read BY NAME in the new header order (asindices consumes equal
\* names left to right), so among fields sharing the moved name the cells keep their relative order
MoveField(t, name, index, missing) ==
  IF ~Has(t.hdr, name) THEN Err ELSE
  LET p == IndexOf(t.hdr, name)
      newhdr == PyInsert(SubSeq(t.hdr, 1, p - 1) \o SubSeq(t.hdr, p + 1, Len(t.hdr)), index, name)
      order == AsIndices(t.hdr, [j \in 1..Len(newhdr) |-> <<"n", newhdr[j]>>]) IN
  [hdr |-> newhdr, rows |-> MapRows(t.rows, LAMBDA r : PickRow(r, order, missing))]
\* addfield(name, value, index): rows are first squared up to the header's length (AddFieldView wraps its source in
\* stack(): short rows padded with missing, long rows trimmed), then list.insert on the header and on every row
AddFieldM(t, name, val(_, _), index, missing) ==
  LET at == IF index = 99 THEN Len(t.hdr) ELSE index IN
  [hdr |-> PyInsert(t.hdr, at, name),
   rows |-> [i \in 1..Len(t.rows) |-> PyInsert(PyPadTrim(t.rows[i], Len(t.hdr), missing), at, val(i, t.rows[i]))]]
AddField(t, name, val(_, _), index) == AddFieldM(t, name, val, index, 0)
AddRowNumbers(t, start, step) ==
  [hdr |-> <<"row">> \o t.hdr, rows |-> [i \in 1..Len(t.rows) |-> <<start + (i - 1) * step>> \o t.rows[i]]]
\* addcolumn: izip_longest(rows, col): a missing row is a row of `missing` of the header's length
AddColumn(t, name, col, index, missing) ==
  LET at == IF index = 99 THEN Len(t.hdr) ELSE index
      n == IF Len(t.rows) > Len(col) THEN Len(t.rows) ELSE Len(col) IN
  [hdr |-> PyInsert(t.hdr, at, name),
   rows |-> [i \in 1..n |-> PyInsert(IF i <= Len(t.rows) THEN t.rows[i] ELSE [j \in 1..Len(t.hdr) |-> missing], at,
                                     IF i <= Len(col) THEN col[i] ELSE missing)]]
\* cat: union of field names in order of first appearance; every row re-read by NAME (first field of that name)
RECURSIVE Dedup(_)
Dedup(s) == IF s = <<>> THEN <<>> ELSE LET d == Dedup(SubSeq(s, 1, Len(s) - 1)) IN IF Has(d, s[Len(s)]) THEN d ELSE Append(d, s[Len(s)])
CatHdr(t1, t2) == t1.hdr \o SelectSeq(Dedup(t2.hdr), LAMBDA f : ~Has(t1.hdr, f))
CatRow(hdr, row, outhdr, missing) ==
  [j \in 1..Len(outhdr) |-> IF Has(hdr, outhdr[j]) THEN PyGetOr(row, IndexOf(hdr, outhdr[j]) - 1, missing) ELSE missing]
Cat(t1, t2, missing) ==
  LET oh == CatHdr(t1, t2) IN
  [hdr |-> oh, rows |-> MapRows(t1.rows, LAMBDA r : CatRow(t1.hdr, r, oh, missing)) \o MapRows(t2.rows, LAMBDA r : CatRow(t2.hdr, r, oh, missing))]
CatHeader(t1, t2, oh, missing) ==
  [hdr |-> oh, rows |-> MapRows(t1.rows, LAMBDA r : CatRow(t1.hdr, r, oh, missing)) \o MapRows(t2.rows, LAMBDA r : CatRow(t2.hdr, r, oh, missing))]
\* stack: first header, every row padded with missing / trimmed to its length
Stack(t1, t2, missing) ==
  [hdr |-> t1.hdr, rows |-> MapRows(t1.rows \o t2.rows, LAMBDA r : PyPadTrim(r, Len(t1.hdr), missing))]
\* annex: rows side by side, each padded/trimmed to its own header, the shorter table continued with missing
Annex(t1, t2, missing) ==
  LET n == IF Len(t1.rows) > Len(t2.rows) THEN Len(t1.rows) ELSE Len(t2.rows)
      side(t, i) == IF i <= Len(t.rows) THEN PyPadTrim(t.rows[i], Len(t.hdr), missing) ELSE [j \in 1..Len(t.hdr) |-> missing] IN
  [hdr |-> t1.hdr \o t2.hdr, rows |-> [i \in 1..n |-> side(t1, i) \o side(t2, i)]]
\* header functions: data rows are carried over untouched
SetHeader(t, h) == [hdr |-> h, rows |-> t.rows]
ExtendHeader(t, h) == [hdr |-> t.hdr \o h, rows |-> t.rows]
PushHeader(t, h) == [hdr |-> h, rows |-> <<t.hdr>> \o t.rows]
\* rename is strict by default: renaming a field that does not exist is a FieldSelectionError
Rename(t, old, new) == IF ~Has(t.hdr, old) THEN Err ELSE [hdr |-> [j \in 1..Len(t.hdr) |-> IF t.hdr[j] = old THEN new ELSE t.hdr[j]], rows |-> t.rows]
\* convert(field, f): only that cell of every row that has it
Convert(t, name, f(_)) ==
  IF ~Has(t.hdr, name) THEN Err ELSE
  LET p == IndexOf(t.hdr, name) IN
  [hdr |-> t.hdr, rows |-> MapRows(t.rows, LAMBDA r : [j \in 1..Len(r) |-> IF j = p THEN f(r[j]) ELSE r[j]])]
\* fills (missing = None = 0)
FillRightRow(r) == LET RECURSIVE F(_)
                       F(j) == IF j = 0 THEN <<>> ELSE LET pre == F(j - 1) IN
                               Append(pre, IF j > 1 /\ r[j] = 0 /\ pre[j - 1] # 0 THEN pre[j - 1] ELSE r[j])
                   IN F(Len(r))
FillRight(t) == [hdr |-> t.hdr, rows |-> MapRows(t.rows, FillRightRow)]
FillLeft(t) == [hdr |-> t.hdr, rows |-> MapRows(t.rows, LAMBDA r : PyReverse(FillRightRow(PyReverse(r))))]
\* filldown over the 1-based positions P (rectangular tables): a None cell takes the last non-None value above it
FillDown(t, P) ==
  LET RECURSIVE G(_)
      G(i) == IF i = 0 THEN <<>> ELSE LET pre == G(i - 1) IN
              Append(pre, [j \in 1..Len(t.rows[i]) |->
                             IF j \in P /\ i > 1 /\ t.rows[i][j] = 0 THEN pre[i - 1][j] ELSE t.rows[i][j]])
  IN [hdr |-> t.hdr, rows |-> G(Len(t.rows))]
\* accessors
Values(t, name, missing) == IF ~Has(t.hdr, name) THEN Err ELSE [hdr |-> <<>>, rows |-> MapRows(t.rows, LAMBDA r : PyGetOr(r, IndexOf(t.hdr, name) - 1, missing))]

----------------------------------------------------------------------------
\* frame conditions (C12): used as laws on every generated case
OneToOne(t, out) == Len(out.rows) = Len(t.rows)
\* removing position p (1-based) from a sequence
Without(s, p) == SubSeq(s, 1, p - 1) \o SubSeq(s, p + 1, Len(s))
=============================================================================
