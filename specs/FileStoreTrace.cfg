CONSTANTS MaxRows = 0
          MaxOps = 1000000
          Variant = "ok"
INIT TInit
NEXT TNext
INVARIANT Verdict
