CONSTANTS MaxRows = 3
INIT Init
NEXT Next
