---------------------------- MODULE DbLoadTrace ----------------------------
(***************************************************************************)
(* Trace validation for C17 (code -> spec).  A trace is the DB-API call    *)
(* sequence petl issued through a recording proxy around a real sqlite3    *)
(* connection, each event carrying the table contents a FRESH connection   *)
(* saw right after it, plus how the call ended (returned / raised) and     *)
(* the final durable contents.  Events that have no counterpart in DbLoad  *)
(* (cursor(), close_cursor, close_conn) are stuttering steps that only     *)
(* check the durable contents; the others drive DbLoad's own actions.      *)
(*   property level: AllOrNothing at every event; FailureKeepsOld /        *)
(*                   SuccessIsFinal on the logged outcome                  *)
(*   model level   : the event sequence is a behaviour of DbLoad (-> drift)*)
(***************************************************************************)
EXTENDS DbLoad, IOUtils

Trace == ndJsonDeserialize(IOEnv.TRACE_FILE)
VARIABLES tid, l, bad, why, drift
tvars == <<tid, l, bad, why, drift>>
T == Trace[tid]

TInit == /\ tid \in 1..Len(Trace) /\ l = 0 /\ bad = 0 /\ why = "ok" /\ drift = 0
         /\ prev = T.prev /\ new = T.new /\ op = T.op /\ handle = T.handle /\ commitFlag = T.commit /\ failAt = T.failAt
         /\ durable = T.prev /\ pending = T.prev /\ intx = FALSE /\ pos = 0 /\ pc = "header" /\ ret = "running" /\ hist = <<>>

E_ == T.events[l + 1]
Silent == E_.ev \in {"cursor", "close_cursor", "close_conn", "rollback"}
Act == CASE E_.ev = "pull_header" -> PullHeader
         [] E_.ev = "execute_delete" -> Delete
         [] E_.ev = "insert_row" -> InsertNext /\ hist'[Len(hist')].ev = "insert_row"
         [] E_.ev = "source_exhausted" -> SourceExhausted /\ hist'[Len(hist')].ev = "source_exhausted"
         [] E_.ev = "commit" -> Commit /\ commitFlag
         [] E_.ev = "fail" -> (PullHeader \/ InsertNext \/ SourceExhausted) /\ ret' = "raised"
         [] E_.ev = "no_commit" -> Commit /\ ~commitFlag     \* synthetic: the driver knows commit=False was passed
         [] E_.ev = "return" -> Return
         [] OTHER -> FALSE

PropertyOk == /\ (E_.durable = T.prev \/ E_.durable = Final)
              /\ (E_.ev = "fail" => E_.durable = T.prev)
              /\ (E_.ev = "return" /\ T.commit => E_.durable = Final)

TStep ==
  /\ l < Len(T.events) /\ l' = l + 1 /\ UNCHANGED tid
  /\ bad' = IF bad = 0 /\ ~PropertyOk THEN l + 1 ELSE bad
  /\ why' = IF bad = 0 /\ ~PropertyOk THEN E_.ev ELSE why
  /\ IF Silent \/ drift # 0 THEN UNCHANGED <<vars, drift>>
     ELSE IF ENABLED Act THEN Act /\ drift' = (IF durable' # E_.durable THEN l + 1 ELSE 0)
     ELSE drift' = l + 1 /\ UNCHANGED vars
TNext == TStep
TDone == l = Len(T.events)
Verdict == TDone => PrintT(<<"VERDICT", tid, bad, why, drift>>)
=============================================================================
