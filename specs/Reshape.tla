------------------------------ MODULE Reshape ------------------------------
(***************************************************************************)
(* C14: reshape operators as definitions and their inverse laws.           *)
(* Tables are [hdr, rows] with rectangular rows of naturals (0 = None);    *)
(* field names are strings; in molten tables the `variable` column holds   *)
(* field names, so molten rows are heterogeneous tuples.                   *)
(***************************************************************************)
EXTENDS Tables, Sorting

Pick(row, idx) == [j \in 1..Len(idx) |-> row[idx[j]]]
Others(n, idx) == SelectSeq([j \in 1..n |-> j], LAMBDA j : \A q \in 1..Len(idx) : idx[q] # j)
Flat(ss) == FoldLeft(LAMBDA acc, s : acc \o s, <<>>, ss)

\* melt(key): one row per (row, variable field) cell: key cells, variable name, value
Melt(t, kidx) ==
  LET vidx == Others(Len(t.hdr), kidx) IN
  [hdr |-> Pick(t.hdr, kidx) \o <<"variable", "value">>,
   rows |-> Flat([i \in 1..Len(t.rows) |-> [v \in 1..Len(vidx) |-> Pick(t.rows[i], kidx) \o <<t.hdr[vidx[v]], t.rows[i][vidx[v]]>>]])]

\* melt(variables=vs): the variable fields in the CALLER's order (vs = 1-based positions); key = the remaining fields
MeltVars(t, vs) ==
  LET kidx == Others(Len(t.hdr), vs) IN
  [hdr |-> Pick(t.hdr, kidx) \o <<"variable", "value">>,
   rows |-> Flat([i \in 1..Len(t.rows) |-> [v \in 1..Len(vs) |-> Pick(t.rows[i], kidx) \o <<t.hdr[vs[v]], t.rows[i][vs[v]]>>]])]

\* field names used as variables are ordered as Python strings; here: position in Alphabet
Alphabet == <<"a", "b", "c", "d", "value", "variable">>
NameRank(f) == CHOOSE r \in 1..Len(Alphabet) : Alphabet[r] = f
SortNames(S) == SetToSortSeq(S, LAMBDA x, y : NameRank(x) < NameRank(y))

KeyOrd(k) == IF Len(k) = 1 THEN CellVal(k[1]) ELSE SeqV([j \in 1..Len(k) |-> CellVal(k[j])])
\* recast(molten, key = the first nk fields): header = key fields + sorted variable names; one row per key in ascending
\* key order; the value of variable v for key k is the value of the molten row carrying (k, v), missing if none
Recast(m, nk, missing) ==
  LET kidx == [j \in 1..nk |-> j]
      vars == SortNames({m.rows[i][nk + 1] : i \in 1..Len(m.rows)})
      keys == SetToSortSeq({Pick(m.rows[i], kidx) : i \in 1..Len(m.rows)}, LAMBDA x, y : Lt(KeyOrd(x), KeyOrd(y)))
      val(k, v) == LET S == {i \in 1..Len(m.rows) : Pick(m.rows[i], kidx) = k /\ m.rows[i][nk + 1] = v} IN
                   IF S = {} THEN missing ELSE m.rows[CHOOSE i \in S : TRUE][nk + 2]
  IN [hdr |-> Pick(m.hdr, kidx) \o vars,
      rows |-> [r \in 1..Len(keys) |-> keys[r] \o [c \in 1..Len(vars) |-> val(keys[r], vars[c])]]]

\* sort(t, key) with the variable columns re-ordered by field name: what recast(melt(t)) must reproduce
Canonical(t, kidx) ==
  LET vidx == Others(Len(t.hdr), kidx)
      vorder == SetToSortSeq({vidx[j] : j \in 1..Len(vidx)}, LAMBDA x, y : NameRank(t.hdr[x]) < NameRank(t.hdr[y]))
      cols == kidx \o vorder
      order == StableOrder([i \in 1..Len(t.rows) |-> KeyOrd(Pick(t.rows[i], kidx))], FALSE) IN
  [hdr |-> Pick(t.hdr, cols), rows |-> [r \in 1..Len(order) |-> Pick(t.rows[order[r]], cols)]]
UniqueKeys(t, kidx) == \A i, j \in 1..Len(t.rows) : i # j => Pick(t.rows[i], kidx) # Pick(t.rows[j], kidx)

\* transpose: the header becomes the first column; row r of the result is column r of the input (header cell first)
Grid(t) == <<t.hdr>> \o t.rows
Transpose(g) == IF Len(g) = 0 THEN <<>> ELSE [c \in 1..Len(g[1]) |-> [r \in 1..Len(g) |-> g[r][c]]]

\* flatten / unflatten(n)
Flatten(t) == Flat(t.rows)
Unflatten(vals, n, missing) ==
  LET m == (Len(vals) + n - 1) \div n IN
  [r \in 1..m |-> [c \in 1..n |-> IF (r - 1) * n + c <= Len(vals) THEN vals[(r - 1) * n + c] ELSE missing]]

\* pivot(f1, f2, f3, sum): rows = distinct f1 values ascending, columns = distinct f2 values ascending,
\* cell = sum of f3 over exactly the rows carrying that pair (missing when there is none)
SumOver(t, S, f3) == LET RECURSIVE Sm(_)
                         Sm(T) == IF T = {} THEN 0 ELSE LET i == CHOOSE i \in T : TRUE IN t.rows[i][f3] + Sm(T \ {i})
                     IN Sm(S)
Pivot(t, f1, f2, f3, missing) ==
  LET r1 == SetToSortSeq({t.rows[i][f1] : i \in 1..Len(t.rows)}, LAMBDA x, y : Lt(CellVal(x), CellVal(y)))
      c2 == SetToSortSeq({t.rows[i][f2] : i \in 1..Len(t.rows)}, LAMBDA x, y : x < y)
      cell(a, b) == LET S == {i \in 1..Len(t.rows) : t.rows[i][f1] = a /\ t.rows[i][f2] = b} IN
                    IF S = {} THEN missing ELSE SumOver(t, S, f3)
  IN [f1vals |-> r1, f2vals |-> c2, rows |-> [r \in 1..Len(r1) |-> <<r1[r]>> \o [c \in 1..Len(c2) |-> cell(r1[r], c2[c])]]]

\* unpack(field f holding a sequence, n new fields): other cells unchanged, the first n elements (padded with missing)
Unpack(row, f, n, missing) ==
  LET v == row[f] IN
  [j \in 1..(Len(row) - 1) |-> IF j < f THEN row[j] ELSE row[j + 1]] \o [j \in 1..n |-> IF j <= Len(v) THEN v[j] ELSE missing]
=============================================================================
