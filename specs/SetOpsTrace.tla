---------------------------- MODULE SetOpsTrace ----------------------------
(***************************************************************************)
(* Trace validation for C08 (code -> spec).  One recorded execution = one  *)
(* real set operation over two random rectangular tables; rows are typed   *)
(* abstract sequence values (equal rows <-> equal values).  Accepted iff   *)
(* the delivered rows are the multiset the definition prescribes, the      *)
(* sort-based variants deliver them in ascending row order (C04) and the   *)
(* hash variants exactly the definition's subsequence of a.                *)
(***************************************************************************)
EXTENDS SetDefs, Ordering, Json, IOUtils, TLC

Trace == ndJsonDeserialize(IOEnv.TRACE_FILE)
VARIABLES tid, l, bad, why
vars == <<tid, l, bad, why>>
Init == tid \in 1..Len(Trace) /\ l = 0 /\ bad = 0 /\ why = "ok"

BagOk(T, out) ==
  CASE T.op \in {"complement", "hashcomplement", "recordcomplement"} ->
          IF T.strict THEN IsStrictDiff(out, T.A, T.B) ELSE IsBagDiff(out, T.A, T.B)
    [] T.op \in {"intersection", "hashintersection"} -> IsBagInter(out, T.A, T.B)
OrderOk(T, out) ==
  CASE T.op \in {"complement", "intersection", "recordcomplement"} ->
          \A i \in 1..(Len(out) - 1) : ~Lt(out[i + 1], out[i])
    [] T.op = "hashcomplement" -> out = CompSeq(T.A, T.B, T.strict)
    [] T.op = "hashintersection" -> out = InterSeq(T.A, T.B)

Pass ==
  LET T == Trace[tid] IN
  /\ l < Len(T.passes)
  /\ l' = l + 1
  /\ LET out == T.passes[l + 1].out IN
     /\ bad' = IF bad = 0 /\ ~(BagOk(T, out) /\ OrderOk(T, out)) THEN l + 1 ELSE bad
     /\ why' = IF bad = 0 /\ ~BagOk(T, out) THEN "rows" ELSE IF bad = 0 /\ ~OrderOk(T, out) THEN "order" ELSE why
  /\ UNCHANGED tid
Next == Pass
Done == l = Len(Trace[tid].passes)
Verdict == Done => PrintT(<<"VERDICT", tid, bad, why>>)
=============================================================================
