CONSTANTS MaxFields = 3
          MaxRows = 3
          MaxLen = 4
INIT Init
NEXT Next
