CONSTANTS MaxRows = 5
INIT Init
NEXT Next
