CONSTANTS M = 2
          NIter = 3
          MaxSteps = 12
INIT Init
NEXT Next
INVARIANT EmitSchedule
