--------------------------- MODULE DictsSpillRef ---------------------------
(* Refinement: DictsSpill.tla (sequence level, bound to the code) implements DictsSpillInt.tla (integer abstraction whose *)
(* inductive invariant Apalache proves for every number of rows and every sample size).  Checked by TLC.                 *)
EXTENDS DictsSpill
Abs == INSTANCE DictsSpillInt WITH dlen <- [i \in Its |-> Len(del[i])], dbad <- [i \in Its |-> ~IsPrefixOfSolo(del[i])]
AbsSpec == Abs!Spec
AbsSafe == Abs!Safe
=============================================================================
