------------------------------ MODULE DbLoadRef ------------------------------
(* Refinement: DbLoad.tla (the protocol model bound to the code by replay and trace validation) implements DbLoadInt.tla, *)
(* whose inductive invariant Apalache proves for every number of new rows and every failure point.  Checked by TLC.      *)
EXTENDS DbLoad
Committed == pc \in {"return", "end"} /\ commitFlag /\ ret # "raised"
Deleted == op = "todb" /\ (pc \in {"insert", "commit", "return"} \/ (pc = "end" /\ failAt # 1))
Abs == INSTANCE DbLoadInt WITH
         N <- Len(new),
         dstate <- (IF Committed THEN (IF durable = Final THEN "final" ELSE "other")
                    ELSE (IF durable = prev THEN "prev" ELSE "other")),
         pbase <- (IF Deleted THEN "empty" ELSE "prev"),
         pk <- pos
AbsSpec == Abs!Spec
AbsSafe == Abs!Safe
\* the mapping is faithful where it matters: whenever a transaction is open, pending is what pbase / pk describe
MappingFaithful == intx => pending = (IF Deleted THEN <<>> ELSE prev) \o SubSeq(new, 1, pos)
=============================================================================
