CONSTANTS M = 3
          NIter = 3
          MaxSteps = 16
VIEW View
INIT Init
NEXT Next
INVARIANT Independent
