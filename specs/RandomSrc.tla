----------------------------- MODULE RandomSrc -----------------------------
(***************************************************************************)
(* petl.util.random: randomtable / dummytable draw their cells from a      *)
(* random generator that is (re)seeded with the table's seed when a pass   *)
(* starts (first next()) and advanced once per data row.                   *)
(*   Variant "global":  the process-wide `random` module state, shared by  *)
(*                      all iterators (code as found; dummytable's field   *)
(*                      callables are bound to it).                        *)
(*   Variant "private": one generator object per pass (repaired            *)
(*                      randomtable).                                      *)
(* Generator state = number of draws since seeding; row r of the solo pass *)
(* is the one produced from state r - 1, so item j > 1 is "j" iff the      *)
(* generator was in state j - 2 when it was produced.                      *)
(***************************************************************************)
EXTENDS Naturals, Sequences, FiniteSets
CONSTANTS M, NIter, Variant

VARIABLES g,       \* shared generator state (draws since the last seeding)
          own,     \* per-iterator generator state (Variant "private")
          st, del
vars == <<g, own, st, del>>
Its == 1..NIter

Init == /\ g = 0 /\ own = [i \in Its |-> 0]
        /\ st = [i \in Its |-> "unborn"] /\ del = [i \in Its |-> <<>>]

Iter(i) == /\ st[i] = "unborn" /\ (\A j \in 1..(i - 1) : st[j] # "unborn")
           /\ st' = [st EXCEPT ![i] = "fresh"] /\ UNCHANGED <<g, own, del>>

\* first next(): seed, yield the header
NextHeader(i) ==
  /\ st[i] = "fresh"
  /\ st' = [st EXCEPT ![i] = "run"]
  /\ del' = [del EXCEPT ![i] = <<1>>]
  /\ IF Variant = "global" THEN g' = 0 /\ UNCHANGED own ELSE own' = [own EXCEPT ![i] = 0] /\ UNCHANGED g

\* later next(): one row drawn from the generator's current state s: the row is item s + 2 of the solo pass
NextRow(i) ==
  /\ st[i] = "run"
  /\ IF Len(del[i]) < M
     THEN LET s == IF Variant = "global" THEN g ELSE own[i] IN
          /\ del' = [del EXCEPT ![i] = Append(@, s + 2)]
          /\ IF Variant = "global" THEN g' = g + 1 /\ UNCHANGED own
             ELSE own' = [own EXCEPT ![i] = @ + 1] /\ UNCHANGED g
          /\ UNCHANGED st
     ELSE st' = [st EXCEPT ![i] = "done"] /\ UNCHANGED <<g, own, del>>

Drop(i) == /\ st[i] \in {"fresh", "run"} /\ st' = [st EXCEPT ![i] = "dropped"] /\ UNCHANGED <<g, own, del>>

Next == \E i \in Its : Iter(i) \/ NextHeader(i) \/ NextRow(i) \/ Drop(i)
Spec == Init /\ [][Next]_vars
IsPrefixOfSolo(d) == \A j \in 1..Len(d) : d[j] = j
Independent == \A i \in Its : IsPrefixOfSolo(del[i])
=============================================================================
