CONSTANTS MaxRows = 2
          MaxOps = 3
          Variant = "ok"
VIEW View
INIT Init
NEXT Next
PROPERTY AbsSpec
INVARIANT AbsSafe
