CONSTANT Deep = TRUE
INIT Init
NEXT Next
