CONSTANTS KCells = {0, 1, 2}
          VCells = {0, 1, 2}
          MaxRows = 4
INIT Init
NEXT Next
