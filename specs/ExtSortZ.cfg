CONSTANTS MaxRows = 1
          Vals = {0, 1, 2}
          Passes = 2
INIT Init
NEXT Next
INVARIANT SortCorrect
INVARIANT DefsAgree
INVARIANT ChunksSorted
INVARIANT PathRule
INVARIANT CacheRule
