----------------------------- MODULE SelectGen -----------------------------
(* C13 laws checked on every small table, and case emission for replay.                         *)
EXTENDS Select, Json, IOUtils, TLC
CONSTANTS Cells, MaxRows
Refs == <<0, 1, 2, 3>>      \* reference values: None, two table values, one absent value

RowVals == {<<>>} \cup {<<x>> : x \in Cells} \cup {<<x, y>> : x, y \in Cells} \cup {<<x, y, 9>> : x \in {1}, y \in {0}}
Tabs == SeqsUpTo(RowVals, MaxRows)
Names == {"eq", "ne", "lt", "le", "gt", "ge", "none", "notnone", "true", "false"}
RNames == {"rangeopen", "rangeopenleft", "rangeopenright", "rangeclosed"}

\* select + select(complement) partition the table, order preserved; lt/ge, le/gt, eq/ne, none/notnone are exact complements
ASSUME \A t \in Tabs, f \in {1, 2}, r \in {Refs[q] : q \in DOMAIN Refs} :
  /\ \A nm \in Names : LET a == SelC(t, LAMBDA row : PredOf(nm, f, r, row), FALSE)
                           b == SelC(t, LAMBDA row : PredOf(nm, f, r, row), TRUE) IN
                       IsPartition(t, a, b) /\ Increasing(a) /\ Increasing(b)
  /\ Sel(t, LAMBDA row : PredOf("lt", f, r, row)) = SelC(t, LAMBDA row : PredOf("ge", f, r, row), TRUE)
  /\ Sel(t, LAMBDA row : PredOf("le", f, r, row)) = SelC(t, LAMBDA row : PredOf("gt", f, r, row), TRUE)
  /\ Sel(t, LAMBDA row : PredOf("eq", f, r, row)) = SelC(t, LAMBDA row : PredOf("ne", f, r, row), TRUE)
  /\ Sel(t, LAMBDA row : PredOf("none", f, r, row)) = SelC(t, LAMBDA row : PredOf("notnone", f, r, row), TRUE)
\* slices: head / skip / tail are islice instances; head(k) and the rows after them reassemble the table
ASSUME \A n \in 0..5, k \in 0..6 : /\ HeadRows(n, k) = ISlice(n, 0, k, 1)
                                   /\ HeadRows(n, k) \o ISlice(n, k, -1, 1) = [i \in 1..n |-> i]
                                   /\ TailRows(n, k) = ISlice(n, IF k < n THEN n - k ELSE 0, -1, 1)

SelCase(t, f, r) == [kind |-> "sel", rows |-> t, f |-> f, ref |-> r,
   sel |-> [nm \in Names |-> Sel(t, LAMBDA row : PredOf(nm, f, r, row))],
   range |-> [nm \in RNames |-> [hi \in DOMAIN Refs |-> Sel(t, LAMBDA row : RangePred(nm, f, r, Refs[hi], row))]],
   isin |-> Sel(t, LAMBDA row : InPred(f, {r, 1}, row)),
   \* search(pattern) over the WHOLE row: a row is selected iff some cell (rendered as text) matches
   anycell |-> Sel(t, LAMBDA row : \E j \in 1..Len(row) : row[j] = r),
   rowlen |-> [n \in 0..3 |-> Sel(t, LAMBDA row : Len(row) = n)]]
SliceCase(n) == [kind |-> "slice", n |-> n,
   slices |-> SetToSeq({[start |-> a, stop |-> b, step |-> s, out |-> ISlice(n, a, b, s)] : a \in 0..3, b \in {-1, 0, 1, 2, 4, 6}, s \in 1..3}),
   head |-> [k \in 0..6 |-> HeadRows(n, k)], tail |-> [k \in 0..6 |-> TailRows(n, k)], skip |-> [k \in 1..6 |-> SkipRows(n, k)]]
ASSUME ndJsonSerialize(IOEnv.OUT, SetToSeq({SelCase(t, f, Refs[r]) : t \in Tabs, f \in {1, 2}, r \in DOMAIN Refs}))
ASSUME ndJsonSerialize(IOEnv.OUT2, [n \in 1..6 |-> SliceCase(n - 1)])
VARIABLE x
Init == x = 0
Next == FALSE /\ UNCHANGED x
=============================================================================
