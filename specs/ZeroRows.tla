------------------------------ MODULE ZeroRows ------------------------------
(***************************************************************************)
(* C20: what the operator DEFINITIONS give for tables with a header and no *)
(* data rows, stated as lemmas over the definition modules and checked by  *)
(* TLC for all small non-empty partners; the algorithm models (MergeJoin,  *)
(* HashJoin, SetOps, Dedup, GroupBy, ExtSort) are additionally run by the  *)
(* harness with their zero-row instances (NoCrash, result = definition).   *)
(* ExpectedRows(op, na, nb) is the row count the definitions prescribe for *)
(* inputs of na / nb data rows when at least one of them is 0; the harness *)
(* replays it on every catalogued operator.                                *)
(***************************************************************************)
EXTENDS RelJoin, SetDefs, DedupDefs, GroupDefs, Json, IOUtils, TLC

CONSTANTS Vals, MaxRows
KSeqs == UNION {[1..n -> Vals] : n \in 0..MaxRows}
E == <<>>

\* joins: nothing matches an empty side; outer variants return the other side padded
ASSUME \A k \in KSeqs :
  /\ RelJoinSet("join", E, k) = {} /\ RelJoinSet("join", k, E) = {}
  /\ RelJoinSet("left", E, k) = {} /\ RelJoinSet("left", k, E) = {<<l, 0>> : l \in 1..Len(k)}
  /\ RelJoinSet("right", k, E) = {} /\ RelJoinSet("right", E, k) = {<<0, r>> : r \in 1..Len(k)}
  /\ RelJoinSet("outer", E, k) = {<<0, r>> : r \in 1..Len(k)} /\ RelJoinSet("outer", k, E) = {<<l, 0>> : l \in 1..Len(k)}
  /\ RelJoinSet("anti", E, k) = {} /\ RelJoinSet("anti", k, E) = {<<l, 0>> : l \in 1..Len(k)}
  /\ RelJoinSet("lookup", E, k) = {} /\ RelJoinSet("lookup", k, E) = {<<l, 0>> : l \in 1..Len(k)}
\* set operations
ASSUME \A a \in KSeqs :
  /\ CompSeq(a, E, FALSE) = a /\ CompSeq(a, E, TRUE) = a /\ CompSeq(E, a, FALSE) = E /\ CompSeq(E, a, TRUE) = E
  /\ InterSeq(a, E) = E /\ InterSeq(E, a) = E
\* dedup / grouping of a table without rows: every result is empty, isunique holds
ASSUME /\ DuplicatesDef(E, <<1>>) = E /\ UniqueDef(E, <<1>>) = E /\ DistinctDef(E, <<1>>) = E /\ CountsDef(E, <<1>>) = E
       /\ IsUniqueDef(E, <<1>>) /\ ConflictAllowed(E, <<1>>, 0) = E
       /\ Partition(E, <<1>>) = E

MaxOf(a, b) == IF a > b THEN a ELSE b
ExpectedRows(op, na, nb) ==
  CASE op \in {"unary"} -> 0                                   \* usual header, no data rows
    [] op \in {"cat", "stack", "mergesort", "outerjoin"} -> na + nb
    [] op \in {"annex", "addcolumn"} -> MaxOf(na, nb)     \* rows side by side / a column of nb values: the longer one decides
    [] op \in {"join", "crossjoin", "intersection", "hashjoin", "hashintersection"} -> 0
    [] op \in {"leftjoin", "lookupjoin", "antijoin", "hashleftjoin", "hashlookupjoin", "hashantijoin",
               "complement", "recordcomplement", "hashcomplement"} -> na
    [] op \in {"rightjoin", "hashrightjoin", "diff"} -> nb       \* diff[0] = complement(b, a)
    [] op = "aggregate(key=None)" -> 1                           \* the documented single row
    [] op = "pushheader" -> 1                                    \* the old header becomes the only data row
BinaryOps == {"cat", "stack", "mergesort", "outerjoin", "annex", "addcolumn", "join", "crossjoin", "intersection", "hashjoin",
              "hashintersection", "leftjoin", "lookupjoin", "antijoin", "hashleftjoin", "hashlookupjoin", "hashantijoin",
              "complement", "recordcomplement", "hashcomplement", "rightjoin", "hashrightjoin", "diff"}
ASSUME ndJsonSerialize(IOEnv.OUT, SetToSeq({[op |-> o, na |-> p[1], nb |-> p[2], rows |-> ExpectedRows(o, p[1], p[2])] :
                                              o \in BinaryOps, p \in {<<0, 0>>, <<0, 3>>, <<3, 0>>}}))
VARIABLE x
Init == x = 0
Next == FALSE /\ UNCHANGED x
=============================================================================
