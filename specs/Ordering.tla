------------------------------ MODULE Ordering ------------------------------
(***************************************************************************)
(* The mixed-type ordering petl applies to cell values and keys            *)
(* (petl/comparison.py, class Comparable), transcribed branch by branch    *)
(* over *typed abstract values*.                                           *)
(*                                                                         *)
(* A value is a record [c, r, s]:                                          *)
(*   c  class: "none" | "num" | "date" | "datetime" | "bytes" | "time"     *)
(*             | "text" | "seq"                                            *)
(*   r  rank inside the class (the native order of the class; all numeric  *)
(*      kinds bool/int/float/Decimal share the class "num" and are ranked  *)
(*      by numeric value)                                                  *)
(*   s  for c = "seq": the elements (tuple or list, both become a tuple of *)
(*      wrapped elements in Comparable.__init__); <<>> otherwise           *)
(***************************************************************************)
EXTENDS Naturals, Sequences

Classes == {"none", "num", "date", "datetime", "bytes", "time", "text", "seq"}

Scalar(c, r) == [c |-> c, r |-> r, s |-> <<>>]
NoneV == Scalar("none", 0)
SeqV(elems) == [c |-> "seq", r |-> 0, s |-> elems]

IsNone(v) == v.c = "none"
IsNum(v) == v.c = "num"
IsText(v) == v.c = "text"
IsBytes(v) == v.c = "bytes"
IsSeq(v) == v.c = "seq"

(***************************************************************************)
(* _typestr(): type(x).__name__ with the Python-2 names 'str' for bytes    *)
(* and 'unicode' for text; names are compared as Python strings, i.e.      *)
(* lexicographically by code point.  Names are spelled as code sequences   *)
(* so that the class order is *derived*, not assumed.                      *)
(***************************************************************************)
TypeName(v) ==
  CASE v.c = "date"     -> <<100, 97, 116, 101>>                       \* "date"
    [] v.c = "datetime" -> <<100, 97, 116, 101, 116, 105, 109, 101>>   \* "datetime"
    [] v.c = "bytes"    -> <<115, 116, 114>>                           \* "str"
    [] v.c = "time"     -> <<116, 105, 109, 101>>                      \* "time"
    [] v.c = "seq"      -> <<116, 117, 112, 108, 101>>                 \* "tuple"
    [] v.c = "text"     -> <<117, 110, 105, 99, 111, 100, 101>>        \* "unicode"
    [] v.c = "num"      -> <<105, 110, 116>>                           \* "int" (never consulted)
    [] v.c = "none"     -> <<78, 111, 110, 101>>                       \* "NoneType" (never consulted)

RECURSIVE LexLtNat(_, _)
LexLtNat(a, b) ==   \* Python str < str on code-point sequences
  IF a = <<>> THEN b # <<>>
  ELSE IF b = <<>> THEN FALSE
  ELSE IF Head(a) # Head(b) THEN Head(a) < Head(b)
  ELSE LexLtNat(Tail(a), Tail(b))

(***************************************************************************)
(* Native comparison `obj < other` succeeds (no TypeError) exactly for two *)
(* values of one class: numbers with numbers (bool/int/float/Decimal are   *)
(* mutually comparable), date/date, datetime/datetime (date vs datetime    *)
(* raises TypeError in Python 3), bytes/bytes, time/time, text/text,       *)
(* tuple/tuple.                                                            *)
(***************************************************************************)
NativeComparable(a, b) == a.c = b.c

RECURSIVE Lt(_, _), Eq(_, _), SeqLt(_, _), SeqEq(_, _)

\* Comparable.__eq__: self.obj == other.obj ; for tuples element-wise ==
Eq(a, b) ==
  IF IsSeq(a) /\ IsSeq(b) THEN SeqEq(a.s, b.s)
  ELSE a.c = b.c /\ a.r = b.r

SeqEq(x, y) ==
  IF Len(x) # Len(y) THEN FALSE
  ELSE IF x = <<>> THEN TRUE
  ELSE Eq(Head(x), Head(y)) /\ SeqEq(Tail(x), Tail(y))

\* Python tuple.__lt__: first position where the elements differ (by ==) decides by <;
\* a proper prefix is smaller
SeqLt(x, y) ==
  IF x = <<>> THEN y # <<>>
  ELSE IF y = <<>> THEN FALSE
  ELSE IF Eq(Head(x), Head(y)) THEN SeqLt(Tail(x), Tail(y))
  ELSE Lt(Head(x), Head(y))

\* Comparable.__lt__, branch by branch
Lt(a, b) ==
  IF IsNone(b) THEN FALSE                                   \* None < everything else
  ELSE IF IsNone(a) THEN TRUE
  ELSE IF IsNum(a) /\ ~IsNum(b) THEN TRUE                   \* numbers < everything else
  ELSE IF ~IsNum(a) /\ IsNum(b) THEN FALSE
  ELSE IF IsText(a) /\ IsBytes(b) THEN FALSE                \* binary < unicode
  ELSE IF IsBytes(a) /\ IsText(b) THEN TRUE
  ELSE IF NativeComparable(a, b)
       THEN (IF IsSeq(a) THEN SeqLt(a.s, b.s) ELSE a.r < b.r)
  ELSE LexLtNat(TypeName(a), TypeName(b))                   \* TypeError: compare type names

\* derived operators exactly as the class defines them
Le(a, b) == Lt(a, b) \/ Eq(a, b)
Gt(a, b) == ~(Lt(a, b) \/ Eq(a, b))
Ge(a, b) == ~Lt(a, b)

(***************************************************************************)
(* The property (C04): a strict weak order whose incomparability relation  *)
(* is Eq.                                                                  *)
(***************************************************************************)
Irreflexive(a) == ~Lt(a, a)
Asymmetric(a, b) == Lt(a, b) => ~Lt(b, a)
Transitive(a, b, c) == Lt(a, b) /\ Lt(b, c) => Lt(a, c)
Equiv(a, b) == ~Lt(a, b) /\ ~Lt(b, a)
EquivTransitive(a, b, c) == Equiv(a, b) /\ Equiv(b, c) => Equiv(a, c)
EquivIsEq(a, b) == Equiv(a, b) <=> Eq(a, b)
Trichotomy(a, b) == (Lt(a, b) /\ ~Eq(a, b) /\ ~Gt(a, b))
                 \/ (~Lt(a, b) /\ Eq(a, b) /\ ~Gt(a, b))
                 \/ (~Lt(a, b) /\ ~Eq(a, b) /\ Gt(a, b))
DerivedConsistent(a, b) == /\ Gt(a, b) <=> Lt(b, a)
                           /\ Le(a, b) <=> ~Lt(b, a)
                           /\ Ge(a, b) <=> Le(b, a)
NoneMinimal(a) == IsNone(a) \/ Lt(NoneV, a)
NumBelowRest(a, b) == IsNum(a) /\ ~IsNum(b) /\ ~IsNone(b) => Lt(a, b)
BytesBeforeText(a, b) == IsBytes(a) /\ IsText(b) => Lt(a, b)
NativeWithinClass(a, b) == a.c = b.c /\ ~IsSeq(a) => (Lt(a, b) <=> a.r < b.r)

(***************************************************************************)
(* Sequence-level helpers used by every module that sorts or compares.     *)
(***************************************************************************)
IsSortedBy(seq, key(_)) == \A i \in 1..(Len(seq) - 1) : ~Lt(key(seq[i + 1]), key(seq[i]))

=============================================================================
