---------------------------- MODULE FileStoreInt ----------------------------
(***************************************************************************)
(* Counting abstraction of FileStore.tla (the writer stack of to* /         *)
(* append* / tee*, C15 / C16) for tables of ANY length and histories of any *)
(* number of operations: sequences of records are represented by their      *)
(* lengths (the concrete model only ever appends, so order is not at       *)
(* stake; what can go wrong is a record that is lost, written twice or     *)
(* left behind from an earlier operation).  Apalache discharges the        *)
(* inductive invariant; FileStoreRef.tla (TLC) shows that FileStore.tla     *)
(* implements this module under  flen <- Len(file), nb <- Len(buf),         *)
(* np <- Len(pend), want <- Len(expect), n <- Len(tab), dl <- Len(delivered).*)
(***************************************************************************)
EXTENDS Integers

CONSTANTS
    \* @type: Str;
    Variant

VARIABLES
    \* @type: Int;
    flen,
    \* @type: Int;
    nb,
    \* @type: Int;
    np,
    \* @type: Int;
    want,
    \* @type: Int;
    n,
    \* @type: Int;
    pos,
    \* @type: Int;
    dl,
    \* @type: Bool;
    wh,
    \* @type: Str;
    pc,
    \* @type: Str;
    op,
    \* @type: Bool;
    any

vars == <<flen, nb, np, want, n, pos, dl, wh, pc, op, any>>
ConstInit == Variant = "ok"
H == IF wh THEN 1 ELSE 0

Init == /\ flen = 0 /\ nb = 0 /\ np = 0 /\ want = 0 /\ n = 0 /\ pos = 0 /\ dl = 0 /\ wh = TRUE
        /\ pc = "idle" /\ op = "none" /\ any = FALSE

Start(o) ==
  /\ pc = "idle"
  /\ op' = o /\ any' = TRUE
  /\ n' \in Nat /\ wh' \in BOOLEAN                   \* any table, either header flag
  /\ want' = (IF o = "append" THEN flen ELSE 0) + (IF wh' THEN 1 ELSE 0) + n'
  /\ nb' = (IF o = "append" THEN flen ELSE 0)
  /\ np' = 0 /\ pos' = 0 /\ dl' = 0 /\ pc' = "hdr"
  /\ UNCHANGED flen

WriteHeader ==
  /\ pc = "hdr"
  /\ np' = np + H
  /\ dl' = IF op = "tee" THEN dl + 1 ELSE dl
  /\ pc' = "rows"
  /\ UNCHANGED <<flen, nb, want, n, pos, wh, op, any>>

WriteRow ==
  /\ pc = "rows" /\ pos < n
  /\ np' = np + 1
  /\ dl' = IF op = "tee" THEN dl + 1 ELSE dl
  /\ pos' = pos + 1
  /\ UNCHANGED <<flen, nb, want, n, wh, pc, op, any>>

AutoFlush ==
  /\ pc \in {"rows", "hdr"} /\ np > 0
  /\ nb' = nb + np /\ np' = 0
  /\ UNCHANGED <<flen, want, n, pos, dl, wh, pc, op, any>>

Flush ==
  /\ pc = "rows" /\ pos = n
  /\ IF Variant = "noflush" THEN UNCHANGED <<nb, np>> ELSE nb' = nb + np /\ np' = 0
  /\ pc' = "detach"
  /\ UNCHANGED <<flen, want, n, pos, dl, wh, op, any>>

Detach ==
  /\ pc = "detach"
  /\ np' = 0                       \* whatever is still pending in the wrapper is dropped
  /\ pc' = "close"
  /\ UNCHANGED <<flen, nb, want, n, pos, dl, wh, op, any>>

Close ==
  /\ pc = "close"
  /\ flen' = nb /\ nb' = 0
  /\ pc' = "idle"
  /\ UNCHANGED <<np, want, n, pos, dl, wh, op, any>>

Next == Start("to") \/ Start("append") \/ Start("tee") \/ WriteHeader \/ WriteRow \/ AutoFlush \/ Flush \/ Detach \/ Close
Spec == Init /\ [][Next]_vars
----------------------------------------------------------------------------
\* C15: a completed operation leaves exactly as many records as the store-level definition says
StoreCorrect == pc = "idle" /\ any => flen = want
\* C16: a consumed tee has yielded the header and every row
TeeTransparent == pc = "idle" /\ op = "tee" => dl = 1 + n
Safe == StoreCorrect /\ TeeTransparent

TypeOK == /\ flen \in Nat /\ nb \in Nat /\ np \in Nat /\ want \in Nat /\ n \in Nat /\ pos \in Nat /\ dl \in Nat
          /\ wh \in BOOLEAN /\ pc \in {"idle", "hdr", "rows", "detach", "close"} /\ op \in {"none", "to", "append", "tee"}
          /\ any \in BOOLEAN
IndInv ==
  /\ TypeOK /\ pos <= n
  /\ (pc # "idle" => any /\ op # "none")
  /\ pc = "hdr" => pos = 0 /\ np = 0 /\ nb + H + n = want /\ dl = 0
  /\ pc = "rows" => nb + np + (n - pos) = want /\ (op = "tee" => dl = 1 + pos)
  /\ pc = "detach" => np = 0 /\ nb = want /\ pos = n /\ (op = "tee" => dl = 1 + n)
  /\ pc = "close" => np = 0 /\ nb = want /\ pos = n /\ (op = "tee" => dl = 1 + n)
  /\ pc = "idle" => (any => flen = want) /\ (op = "tee" => dl = 1 + n)
IndInit == IndInv
=============================================================================
