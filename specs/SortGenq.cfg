CONSTANTS MaxRows = 3
          ACells = {0, 1, 2}
          BCells = {0, 1}
INIT Init
NEXT Next
