------------------------------ MODULE SetDefs ------------------------------
(* Multiset algebra on sequences of rows (C08): definitions shared by the algorithm model     *)
(* (SetOps) and by case generation (SetOpsGen).  Rows may be any values; only = is used.      *)
EXTENDS Naturals, Sequences, FiniteSets, SequencesExt

Count(s, x) == Cardinality({i \in 1..Len(s) : s[i] = x})
Occ(s, i) == Cardinality({j \in 1..i : s[j] = s[i]})       \* s[i] is the Occ-th occurrence of its value
Indices(s) == [i \in 1..Len(s) |-> i]
Pick(s, idx) == [i \in 1..Len(idx) |-> s[idx[i]]]

\* ---- definitions: multiset algebra, expressed on a given order of a ---------------------------
\* a - b : of the n occurrences of x in a, the first min(n, count_b(x)) are cancelled
CompSeq(a, b, strict) ==
  Pick(a, SelectSeq(Indices(a), LAMBDA i : IF strict THEN Count(b, a[i]) = 0 ELSE Occ(a, i) > Count(b, a[i])))
\* a /\ b : the first min(count_a, count_b) occurrences of x survive
InterSeq(a, b) == Pick(a, SelectSeq(Indices(a), LAMBDA i : Occ(a, i) <= Count(b, a[i])))

BagEq(s, t) == \A x \in Range(s) \cup Range(t) : Count(s, x) = Count(t, x)
IsBagDiff(out, a, b) == \A x \in Range(a) \cup Range(out) :
                           Count(out, x) = (IF Count(a, x) > Count(b, x) THEN Count(a, x) - Count(b, x) ELSE 0)
IsStrictDiff(out, a, b) == \A x \in Range(a) \cup Range(out) :
                           Count(out, x) = (IF Count(b, x) = 0 THEN Count(a, x) ELSE 0)
IsBagInter(out, a, b) == \A x \in Range(a) \cup Range(b) \cup Range(out) :
                           Count(out, x) = (IF Count(a, x) < Count(b, x) THEN Count(a, x) ELSE Count(b, x))

=============================================================================
