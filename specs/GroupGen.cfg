CONSTANTS KCells = {0, 1, 2}
          JCells = {0, 1}
          NCells = {1, 2}
          MaxRows = 3
INIT Init
NEXT Next
