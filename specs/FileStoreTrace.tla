--------------------------- MODULE FileStoreTrace ---------------------------
(***************************************************************************)
(* Trace validation for C15 / C16 (code -> spec).  The real to* / append*  *)
(* / tee* functions run against a recording source whose open() returns a  *)
(* recording binary buffer; the driver decodes the buffer after every      *)
(* write()/flush()/close() and logs how many COMPLETE records it holds:    *)
(*   open(mode) ; grow(c)* ; close(c)                                      *)
(* The trace spec drives FileStore: open -> Start(op) with the logged      *)
(* table and flag; grow(c) -> the silent WriteHeader/WriteRow steps needed *)
(* followed by a flush transfer (their composition, Transfer(c)); close    *)
(* -> Flush . Detach . Close.  Accepted iff such a behaviour exists and it  *)
(* ends with file = the store-level expectation; the records' contents are *)
(* compared by the driver against the codec.                               *)
(***************************************************************************)
EXTENDS FileStore, IOUtils
Trace == ndJsonDeserialize(IOEnv.TRACE_FILE)
VARIABLES tid, l, bad
tvars == <<tid, l, bad>>
T == Trace[tid]
E_ == T.events[l + 1]

TInit == /\ tid \in 1..Len(Trace) /\ l = 0 /\ bad = 0
         /\ file = T.initial /\ buf = <<>> /\ pend = <<>> /\ pc = "idle" /\ op = "none" /\ tab = <<>> /\ wh = TRUE /\ pos = 0
         /\ delivered = <<>> /\ nops = 0 /\ hist = <<>> /\ expect = <<>>

Full == (IF op = "append" THEN file ELSE <<>>) \o Records(tab, wh)
\* composition of the silent writer steps and one flush transfer that leaves exactly c records in the buffer
Transfer(c) ==
  /\ pc \in {"hdr", "rows"} /\ c >= Len(buf) /\ c <= Len(Full)
  /\ buf' = SubSeq(Full, 1, c) /\ pend' = <<>>
  /\ pos' = LET w == c - (IF op = "append" THEN Len(file) ELSE 0) - (IF wh THEN 1 ELSE 0) IN IF w > pos THEN w ELSE pos
  /\ pc' = "rows"
  /\ delivered' = delivered
  /\ UNCHANGED <<file, op, tab, wh, nops, hist, expect>>
\* close: everything still to be written goes out, then flush / detach / close
Finish(c) ==
  /\ pc \in {"hdr", "rows"} /\ c = Len(Full)
  /\ file' = Full /\ buf' = <<>> /\ pend' = <<>> /\ pos' = Len(tab) /\ pc' = "idle"
  /\ UNCHANGED <<op, tab, wh, delivered, nops, hist, expect>>

Open == /\ pc = "idle"
        /\ op' = E_.op /\ tab' = T.rows /\ wh' = T.write_header
        /\ expect' = IF E_.op = "append" THEN App(file, T.rows, T.write_header) ELSE To(file, T.rows, T.write_header)
        /\ buf' = IF E_.op = "append" THEN file ELSE <<>>
        /\ pend' = <<>> /\ pos' = 0 /\ delivered' = <<>> /\ pc' = "hdr" /\ nops' = nops + 1 /\ hist' = hist
        /\ UNCHANGED file
Act == CASE E_.ev = "open" -> Open
         [] E_.ev = "grow" -> Transfer(E_.n)
         [] E_.ev = "close" -> Finish(E_.n)
TStep == /\ l < Len(T.events) /\ l' = l + 1 /\ UNCHANGED tid
         /\ IF bad = 0 /\ ENABLED Act THEN Act /\ UNCHANGED bad
            ELSE bad' = (IF bad = 0 THEN l + 1 ELSE bad) /\ UNCHANGED vars
TNext == TStep
TDone == l = Len(T.events)
Verdict == TDone => PrintT(<<"VERDICT", tid, IF bad = 0 /\ (pc # "idle" \/ file # expect) THEN 9999 ELSE bad>>)
=============================================================================
