CONSTANTS MaxRows = 4
INIT Init
NEXT Next
