------------------------------- MODULE SetOps -------------------------------
(***************************************************************************)
(* petl/transform/setops.py (C08): the two-pointer loops of itercomplement *)
(* (strict / non-strict, `b is None` exhaustion marker) and                *)
(* iterintersection over the two SORTED inputs, the Counter-based hash     *)
(* variants streaming a in its own order, and the multiset definitions.    *)
(*                                                                         *)
(* A row is abstracted to a natural: equal rows <-> equal numbers, and <   *)
(* stands for the row order Comparable(tuple(row)) induces (C04).          *)
(***************************************************************************)
EXTENDS SetDefs

CONSTANTS MaxRows, RowVals

\* ---- the algorithms ---------------------------------------------------------------------------
Ascending(s) == \A i \in 1..(Len(s) - 1) : s[i] <= s[i + 1]
SortSeqNat(s) == SortSeq(s, LAMBDA x, y : x < y)

VARIABLES A, B, op, strict, pc,
          ia, ib,     \* position of the current a / b in the sorted (or, hash variants, raw) inputs
          bnone,      \* complement: b = None (b exhausted)
          bcnt,       \* hash variants: Counter of b
          out
vars == <<A, B, op, strict, pc, ia, ib, bnone, bcnt, out>>

SA == SortSeqNat(A)
SB == SortSeqNat(B)

Init ==
  /\ A \in UNION {[1..n -> RowVals] : n \in 0..MaxRows}
  /\ B \in UNION {[1..n -> RowVals] : n \in 0..MaxRows}
  /\ op \in {"complement", "intersection", "hashcomplement", "hashintersection"}
  /\ strict \in (IF op \in {"complement", "hashcomplement"} THEN BOOLEAN ELSE {FALSE})
  /\ pc = "start" /\ ia = 0 /\ ib = 0 /\ bnone = FALSE /\ out = <<>>
  /\ bcnt = [x \in RowVals |-> 0]

\* -- itercomplement --
CStart ==
  /\ pc = "start" /\ op = "complement"
  /\ IF Len(SA) = 0 THEN pc' = "done" /\ UNCHANGED <<ia, ib, out>>
     ELSE IF Len(SB) = 0 THEN pc' = "done" /\ out' = SA /\ UNCHANGED <<ia, ib>>   \* yield a; yield the rest
     ELSE pc' = "cloop" /\ ia' = 1 /\ ib' = 1 /\ UNCHANGED out
  /\ UNCHANGED <<A, B, op, strict, bnone, bcnt>>

AdvanceA == IF ia = Len(SA) THEN pc' = "done" /\ UNCHANGED ia ELSE ia' = ia + 1 /\ UNCHANGED pc
CLess ==      \* if b is None or a < b: yield a, advance a
  /\ pc = "cloop" /\ (bnone \/ SA[ia] < SB[ib])
  /\ out' = Append(out, SA[ia])
  /\ AdvanceA
  /\ UNCHANGED <<A, B, op, strict, ib, bnone, bcnt>>
CEqual ==     \* elif a == b: advance a; if not strict advance b (exhausted -> b = None)
  /\ pc = "cloop" /\ ~bnone /\ SA[ia] = SB[ib]
  /\ AdvanceA
  /\ IF ia # Len(SA) /\ ~strict
     THEN IF ib = Len(SB) THEN bnone' = TRUE /\ UNCHANGED ib ELSE ib' = ib + 1 /\ UNCHANGED bnone
     ELSE UNCHANGED <<ib, bnone>>
  /\ UNCHANGED <<A, B, op, strict, bcnt, out>>
CGreater ==   \* else: advance b
  /\ pc = "cloop" /\ ~bnone /\ SA[ia] > SB[ib]
  /\ IF ib = Len(SB) THEN bnone' = TRUE /\ UNCHANGED ib ELSE ib' = ib + 1 /\ UNCHANGED bnone
  /\ UNCHANGED <<A, B, op, strict, pc, ia, bcnt, out>>

\* -- iterintersection: any StopIteration ends the loop --
IStart ==
  /\ pc = "start" /\ op = "intersection"
  /\ IF Len(SA) = 0 \/ Len(SB) = 0 THEN pc' = "done" /\ UNCHANGED <<ia, ib>>
     ELSE pc' = "iloop" /\ ia' = 1 /\ ib' = 1
  /\ UNCHANGED <<A, B, op, strict, bnone, bcnt, out>>
ILess ==
  /\ pc = "iloop" /\ SA[ia] < SB[ib]
  /\ IF ia = Len(SA) THEN pc' = "done" /\ UNCHANGED ia ELSE ia' = ia + 1 /\ UNCHANGED pc
  /\ UNCHANGED <<A, B, op, strict, ib, bnone, bcnt, out>>
IEqual ==
  /\ pc = "iloop" /\ SA[ia] = SB[ib]
  /\ out' = Append(out, SA[ia])
  /\ IF ia = Len(SA) THEN pc' = "done" /\ UNCHANGED <<ia, ib>>
     ELSE /\ ia' = ia + 1
          /\ IF ib = Len(SB) THEN pc' = "done" /\ UNCHANGED ib ELSE ib' = ib + 1 /\ UNCHANGED pc
  /\ UNCHANGED <<A, B, op, strict, bnone, bcnt>>
IGreater ==
  /\ pc = "iloop" /\ SA[ia] > SB[ib]
  /\ IF ib = Len(SB) THEN pc' = "done" /\ UNCHANGED ib ELSE ib' = ib + 1 /\ UNCHANGED pc
  /\ UNCHANGED <<A, B, op, strict, ia, bnone, bcnt, out>>

\* -- hash variants: Counter(b), then stream a in its own order --
HStart ==
  /\ pc = "start" /\ op \in {"hashcomplement", "hashintersection"}
  /\ bcnt' = [x \in RowVals |-> Count(B, x)]
  /\ pc' = "hloop"
  /\ UNCHANGED <<A, B, op, strict, ia, ib, bnone, out>>
HStep ==
  /\ pc = "hloop" /\ ia < Len(A)
  /\ ia' = ia + 1
  /\ LET t == A[ia + 1] IN
     IF op = "hashcomplement"
     THEN IF bcnt[t] > 0
          THEN out' = out /\ bcnt' = IF strict THEN bcnt ELSE [bcnt EXCEPT ![t] = @ - 1]
          ELSE out' = Append(out, t) /\ UNCHANGED bcnt
     ELSE IF bcnt[t] > 0
          THEN out' = Append(out, t) /\ bcnt' = [bcnt EXCEPT ![t] = @ - 1]
          ELSE UNCHANGED <<out, bcnt>>
  /\ UNCHANGED <<A, B, op, strict, pc, ib, bnone>>
HEnd ==
  /\ pc = "hloop" /\ ia = Len(A)
  /\ pc' = "done"
  /\ UNCHANGED <<A, B, op, strict, ia, ib, bnone, bcnt, out>>

Next == CStart \/ CLess \/ CEqual \/ CGreater \/ IStart \/ ILess \/ IEqual \/ IGreater \/ HStart \/ HStep \/ HEnd
Spec == Init /\ [][Next]_vars
----------------------------------------------------------------------------
Done == pc = "done"
ComplementIsBagDiff == Done /\ op \in {"complement", "hashcomplement"} =>
                          IF strict THEN IsStrictDiff(out, A, B) ELSE IsBagDiff(out, A, B)
IntersectionIsBagInter == Done /\ op \in {"intersection", "hashintersection"} => IsBagInter(out, A, B)
SortedVariantsAscending == Done /\ op \in {"complement", "intersection"} => Ascending(out)
\* the constructive definitions used for case generation are exactly what the loops deliver
MatchesDefinition == Done =>
  CASE op = "complement"       -> out = CompSeq(SA, SB, strict)
    [] op = "intersection"     -> out = InterSeq(SA, SB)
    [] op = "hashcomplement"   -> out = CompSeq(A, B, strict)     \* a's order
    [] op = "hashintersection" -> out = InterSeq(A, B)
\* complement(a, b) together with intersection(a, b) reassemble a
Reassemble == \A x \in RowVals : Count(CompSeq(SA, SB, FALSE), x) + Count(InterSeq(SA, SB), x) = Count(A, x)
=============================================================================
