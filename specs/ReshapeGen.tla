----------------------------- MODULE ReshapeGen -----------------------------
(* C14: inverse laws evaluated on every small rectangular table with unique keys, and case emission. *)
EXTENDS Reshape, Json, IOUtils, TLC
CONSTANTS MaxRows
Hdr == <<"a", "b", "c">>
RowsOf(ks) == [i \in 1..Len(ks) |-> <<ks[i][1], ks[i][2], 100 + i>>]
KeyPairs == {<<x, y>> : x \in {0, 1, 2}, y \in {1, 2}}
Tabs == {[hdr |-> Hdr, rows |-> RowsOf(ks)] : ks \in SeqsUpTo(KeyPairs, MaxRows)}
KeyChoices == {<<1>>, <<1, 2>>, <<2>>}

\* recast(melt(t)) = t sorted by key with the variable fields in name order, whenever the keys are unique
ASSUME \A t \in Tabs, k \in KeyChoices :
         UniqueKeys(t, k) /\ Len(t.rows) > 0 => Recast(Melt(t, k), Len(k), 0) = Canonical(t, k)
\* melt: exactly one row per (row, variable) cell
ASSUME \A t \in Tabs, k \in KeyChoices : Len(Melt(t, k).rows) = Len(t.rows) * (3 - Len(k))
\* transpose is an involution; unflatten(flatten(t), 3) = data(t)
ASSUME \A t \in Tabs : Transpose(Transpose(Grid(t))) = Grid(t) /\ Unflatten(Flatten(t), 3, 0) = t.rows
\* pivot conserves the total
ASSUME \A t \in Tabs : LET p == Pivot(t, 1, 2, 3, 0) IN
         FoldLeft(LAMBDA acc, r : acc + FoldLeft(LAMBDA x, y : x + y, 0, Tail(r)), 0, p.rows) = SumOver(t, 1..Len(t.rows), 3)

Case(t) == [hdr |-> t.hdr, rows |-> t.rows,
  melt |-> [k \in {"a", "ab", "b"} |-> LET kk == CASE k = "a" -> <<1>> [] k = "ab" -> <<1, 2>> [] k = "b" -> <<2>> IN
              [unique |-> UniqueKeys(t, kk), molten |-> Melt(t, kk).rows, mhdr |-> Melt(t, kk).hdr,
               recast |-> IF Len(t.rows) > 0 THEN Recast(Melt(t, kk), Len(kk), 0) ELSE [hdr |-> <<>>, rows |-> <<>>],
               canonical |-> Canonical(t, kk)]],
  meltvars |-> MeltVars(t, <<3, 2>>).rows,           \* melt(t, variables=['c', 'b'])
  transpose |-> Transpose(Grid(t)), flat |-> Flatten(t),
  unflatten2 |-> Unflatten(Flatten(t), 2, 0), unflatten4 |-> Unflatten(Flatten(t), 4, 0),
  pivot |-> Pivot(t, 1, 2, 3, 0)]
UCase(vs) == [vals |-> vs, out2 |-> [i \in 1..Len(vs) |-> Unpack(<<i, vs[i], 50 + i>>, 2, 2, 0)],
              out3 |-> [i \in 1..Len(vs) |-> Unpack(<<i, vs[i], 50 + i>>, 2, 3, 9)]]
USeqs == SeqsUpTo({1, 2}, 3)
ASSUME ndJsonSerialize(IOEnv.OUT, SetToSeq({Case(t) : t \in Tabs}))
ASSUME ndJsonSerialize(IOEnv.OUT2, SetToSeq({UCase(vs) : vs \in SeqsUpTo(USeqs, 2)}))
VARIABLE x
Init == x = 0
Next == FALSE /\ UNCHANGED x
=============================================================================
