------------------------------ MODULE LazyGen ------------------------------
(* Emits, for every pipeline of stage classes up to MaxDepth, the composed need for k = 1..MaxK. *)
EXTENDS Lazy, IOUtils, SequencesExt
ASSUME ndJsonSerialize(IOEnv.OUT, SetToSeq({[pipe |-> p, need |-> Bounds(p), bound |-> TolerantBounds(p)] : p \in Pipelines}))
=============================================================================
