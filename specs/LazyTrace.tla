----------------------------- MODULE LazyTrace -----------------------------
(***************************************************************************)
(* Trace validation for C02 (code -> spec).  One recorded execution = a    *)
(* real pipeline (composition of petl operators of known stage classes)    *)
(* over an instrumented source: the sequence of "p" (a data row pulled     *)
(* from the source) and "y" (a data row delivered to the consumer) events, *)
(* plus the pulls seen during construction.  Accepted iff construction     *)
(* pulled no data row and every pull is within the composed need of the    *)
(* row being produced: pulls <= NeedS(pipe, yielded + 1), the tolerant      *)
(* ("k plus a small constant" per stage) bound; exceeding the exact        *)
(* Need(pipe, yielded + 1) of the model is reported as drift only.         *)
(***************************************************************************)
EXTENDS Lazy, IOUtils
Trace == ndJsonDeserialize(IOEnv.TRACE_FILE)
VARIABLES tid, l, pulls, y, bad, drift
tvars == <<tid, l, pulls, y, bad, drift>>
T == Trace[tid]
TInit == /\ tid \in 1..Len(Trace) /\ l = 0 /\ pulls = 0 /\ y = 0 /\ bad = 0 /\ drift = 0
         /\ pipe = T.pipe /\ want = [s \in 1..Len(T.pipe) |-> 0] /\ got = [s \in 1..Len(T.pipe) |-> 0]
         /\ delivered = 0 /\ asked = 0
TStep == /\ l < Len(T.events) /\ l' = l + 1 /\ UNCHANGED <<tid, vars>>
         /\ IF T.events[l + 1] = "p"
            THEN /\ pulls' = pulls + 1 /\ y' = y
                 /\ bad' = IF bad = 0 /\ pulls + 1 > NeedS(pipe, y + 1) THEN l + 1 ELSE bad
                 /\ drift' = IF drift = 0 /\ pulls + 1 > Need(pipe, y + 1) THEN l + 1 ELSE drift
            ELSE pulls' = pulls /\ y' = y + 1 /\ bad' = bad /\ drift' = drift
TNext == TStep
TDone == l = Len(T.events)
Verdict == TDone => PrintT(<<"VERDICT", tid, IF T.construction # 0 THEN 999999 ELSE bad, drift>>)
=============================================================================
