----------------------------- MODULE Iterators -----------------------------
(***************************************************************************)
(* C01, property level: the iterator protocol of a table view.             *)
(* A view has a fixed header-first output sequence of M items (item j is   *)
(* simply j).  Iterators are born by iter(view), advanced by next(),       *)
(* abandoned at any point (Drop) or exhausted (next() -> Stop).  The       *)
(* guarantee: whatever the interleaving, iterator i delivers the items     *)
(* 1, 2, 3, ... of the solo pass - a prefix of it at every moment.         *)
(*                                                                         *)
(* This module IS the allowed behaviour: every implementation-shaped model *)
(* (CacheView, SortCache, DictsSpill, RandomSrc) must satisfy Independent, *)
(* and the schedules it generates (hist) are replayed on every real view.  *)
(***************************************************************************)
EXTENDS Naturals, Sequences, FiniteSets, Json, TLC

CONSTANTS M,        \* items in the solo pass (header + data rows)
          NIter,    \* iterators
          MaxSteps

VARIABLES st,       \* st[i] \in {"unborn", "live", "done", "dropped"}
          del,      \* del[i] = items delivered to iterator i so far
          steps, hist
vars == <<st, del, steps, hist>>
View == <<st, del>>

Its == 1..NIter
Init == /\ st = [i \in Its |-> "unborn"] /\ del = [i \in Its |-> <<>>] /\ steps = 0 /\ hist = <<>>

\* iterators are born in index order (symmetry: which Python object is "first" is irrelevant)
Iter(i) == /\ st[i] = "unborn" /\ (\A j \in 1..(i - 1) : st[j] # "unborn") /\ steps < MaxSteps
           /\ st' = [st EXCEPT ![i] = "live"]
           /\ steps' = steps + 1 /\ hist' = Append(hist, <<i, "iter">>)
           /\ UNCHANGED del

Next_(i) == /\ st[i] = "live" /\ steps < MaxSteps
            /\ IF Len(del[i]) < M
               THEN del' = [del EXCEPT ![i] = Append(@, Len(@) + 1)] /\ UNCHANGED st
               ELSE st' = [st EXCEPT ![i] = "done"] /\ UNCHANGED del          \* StopIteration
            /\ steps' = steps + 1 /\ hist' = Append(hist, <<i, "next">>)

Drop(i) == /\ st[i] = "live" /\ steps < MaxSteps
           /\ st' = [st EXCEPT ![i] = "dropped"]
           /\ steps' = steps + 1 /\ hist' = Append(hist, <<i, "drop">>)
           /\ UNCHANGED del

Next == \E i \in Its : Iter(i) \/ Next_(i) \/ Drop(i)
Spec == Init /\ [][Next]_vars

IsPrefixOfSolo(d) == \A j \in 1..Len(d) : d[j] = j
Independent == \A i \in Its : IsPrefixOfSolo(del[i]) /\ Len(del[i]) <= M

\* spec -> code: every schedule in which all iterators were born and finished (exhausted or dropped)
Finished == \A i \in Its : st[i] \in {"done", "dropped"}
EmitSchedule == Finished => PrintT(ToJson(hist))
=============================================================================
