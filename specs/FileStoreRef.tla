---------------------------- MODULE FileStoreRef ----------------------------
(* Refinement: FileStore.tla (record sequences; bound to the code by replay and buffer-trace validation) implements the     *)
(* counting abstraction FileStoreInt.tla, whose inductive invariant Apalache proves for tables and histories of any length. *)
EXTENDS FileStore
Abs == INSTANCE FileStoreInt WITH flen <- Len(file), nb <- Len(buf), np <- Len(pend), want <- Len(expect), n <- Len(tab),
                                  dl <- Len(delivered), any <- (nops > 0)
AbsSpec == Abs!Spec
AbsSafe == Abs!Safe
=============================================================================
