CONSTANTS M = 3
          NIter = 3
          Path = "file"
          CacheFlag = TRUE
          Variant = "fixed"
INIT Init
NEXT Next
PROPERTY AbsSpec
INVARIANT AbsSafe
