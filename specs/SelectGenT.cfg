CONSTANTS Cells = {0, 1, 2}
          MaxRows = 3
INIT Init
NEXT Next
