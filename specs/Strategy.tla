------------------------------ MODULE Strategy ------------------------------
(***************************************************************************)
(* C11 - execution-strategy arguments.                                     *)
(*                                                                         *)
(* (a) presorted: a sequence that is already in key order is a fixpoint of *)
(*     the stable sort, so skipping the sort changes nothing (checked for  *)
(*     all key sequences up to the bound by the ASSUME below); that the    *)
(*     result of the sort itself does not depend on buffersize / cache /   *)
(*     pass is ExtSort!DefsAgree (C05).                                    *)
(*                                                                         *)
(* (b) the cache clause, as a state machine of one sort-backed view over   *)
(*     an editable source.  The source has a version; a pass shows the     *)
(*     version it was computed from.  Implementation-shaped (SortView):    *)
(*     a pass that finds the cache filled is served from it without        *)
(*     touching the source; otherwise its first next() clears the cache,   *)
(*     and - because the whole source is read and sorted before the first  *)
(*     data row is delivered - a pass that delivered at least one data row *)
(*     has (with cache=True) filled the cache, completed or not.           *)
(*     A pass during which the SOURCE FAILS (raises while being read) ends *)
(*     before the sort has finished: nothing may be cached from it, or a   *)
(*     later pass would replay an incomplete result.  Variant "eager"      *)
(*     (negative test) is the design that hands the chunk list to the view *)
(*     while it is still being written.                                    *)
(***************************************************************************)
EXTENDS Naturals, Sequences, FiniteSets, SequencesExt, Sorting, Json, TLC

CONSTANTS MaxSteps, MaxRows, Vals, CVariant   \* CVariant: "atomic" (petl) | "eager" (negative test)

KeyVal(n) == IF n = 0 THEN NoneV ELSE Scalar("num", n)
AllSeqs == UNION {[1..n -> Vals] : n \in 0..MaxRows}
Keys(s) == [i \in 1..Len(s) |-> KeyVal(s[i])]
Ident(n) == [i \in 1..n |-> i]
\* presorted=True on key-sorted input is the identity of the stable sort (both directions)
ASSUME \A s \in AllSeqs : /\ IsSortedKeys(Keys(s), FALSE, FALSE) => StableOrder(Keys(s), FALSE) = Ident(Len(s))
                          /\ IsSortedKeys(Keys(s), TRUE, FALSE) => StableOrder(Keys(s), TRUE) = Ident(Len(s))

VARIABLES cache,      \* the view's cache argument
          ver,        \* current version of the source
          cached,     \* version held in the view's cache, 0 = empty
          whole,      \* the cache holds the COMPLETE sorted result of version `cached`
          steps,
          ev,         \* last event: [kind, shown, pulled]
          firstDone,  \* version shown by the first COMPLETED pass (0 = none yet) - history variable
          hist        \* the behaviour so far as a sequence of events (for spec -> code replay only;
                      \* hidden from the exhaustive check by VIEW)
vars == <<cache, ver, cached, whole, steps, ev, firstDone, hist>>
ViewNoHist == <<cache, ver, cached, whole, steps, ev, firstDone>>

NoEv == [kind |-> "none", shown |-> 0, pulled |-> FALSE, complete |-> TRUE]
Init == /\ cache \in BOOLEAN /\ ver = 1 /\ cached = 0 /\ whole = TRUE /\ steps = 0
        /\ ev = NoEv /\ firstDone = 0 /\ hist = <<>>

Edit == /\ steps < MaxSteps /\ steps' = steps + 1
        /\ ver' = ver + 1
        /\ ev' = [kind |-> "edit", shown |-> 0, pulled |-> FALSE, complete |-> TRUE]
        /\ hist' = Append(hist, [a |-> "edit", k |-> 0, shown |-> 0, pulled |-> FALSE, mustreplay |-> FALSE, raised |-> FALSE])
        /\ UNCHANGED <<cache, cached, whole, firstDone>>

FromCache == cache /\ cached # 0

FullBody(name) ==
  /\ IF FromCache
     THEN /\ ev' = [kind |-> "full", shown |-> cached, pulled |-> FALSE, complete |-> whole]
          /\ UNCHANGED <<cached, whole>>
     ELSE /\ ev' = [kind |-> "full", shown |-> ver, pulled |-> TRUE, complete |-> TRUE]
          /\ cached' = IF cache THEN ver ELSE 0
          /\ whole' = TRUE
  /\ firstDone' = IF firstDone = 0 THEN ev'.shown ELSE firstDone
  /\ hist' = Append(hist, [a |-> name, k |-> 0, shown |-> ev'.shown, pulled |-> ev'.pulled,
                           mustreplay |-> cache /\ firstDone # 0, raised |-> FALSE])
FullPass ==
  /\ steps < MaxSteps /\ steps' = steps + 1
  /\ FullBody("full")
  /\ UNCHANGED <<cache, ver>>

\* a pass during which the source raises after some data rows (some chunks may already have been written).
\* Served from the cache the source is not touched and the pass is an ordinary full pass.
FailPass ==
  /\ steps < MaxSteps /\ steps' = steps + 1
  /\ IF FromCache
     THEN FullBody("fail")
     ELSE /\ ev' = [kind |-> "fail", shown |-> 0, pulled |-> TRUE, complete |-> TRUE]
          /\ cached' = IF CVariant = "eager" /\ cache THEN ver ELSE 0     \* clearcache(), nothing assigned
          /\ whole' = (CVariant # "eager")
          /\ hist' = Append(hist, [a |-> "fail", k |-> 0, shown |-> 0, pulled |-> TRUE, mustreplay |-> FALSE, raised |-> TRUE])
          /\ UNCHANGED firstDone
  /\ UNCHANGED <<cache, ver>>

\* a pass abandoned after the header (k = 0) or after at least one data row (k = 1)
PartialPass(k) ==
  /\ steps < MaxSteps /\ steps' = steps + 1
  /\ IF FromCache
     THEN /\ ev' = [kind |-> "partial", shown |-> cached, pulled |-> FALSE, complete |-> whole]
          /\ UNCHANGED <<cached, whole>>
     ELSE /\ ev' = [kind |-> "partial", shown |-> ver, pulled |-> TRUE, complete |-> TRUE]
          /\ cached' = IF k = 0 THEN 0 ELSE (IF cache THEN ver ELSE 0)
          /\ whole' = TRUE
  /\ hist' = Append(hist, [a |-> "partial", k |-> k, shown |-> ev'.shown, pulled |-> ev'.pulled, mustreplay |-> FALSE, raised |-> FALSE])
  /\ UNCHANGED <<cache, ver, firstDone>>

Next == Edit \/ FullPass \/ FailPass \/ \E k \in {0, 1} : PartialPass(k)
Spec == Init /\ [][Next]_vars
----------------------------------------------------------------------------
\* C11, cache clause (property level, over FULL passes only):
\* cache=False: every pass re-reads the sources and reflects their current contents
NoCacheFresh == ~cache /\ ev.kind = "full" => ev.shown = ver /\ ev.pulled
\* cache=True: a pass after a completed one is served without reading the sources again ...
CacheReplays == [][cache /\ firstDone # 0 /\ ev'.kind = "full" => ~ev'.pulled /\ ev'.shown = firstDone]_vars
\* ... and a pass that does read the sources shows their current contents
ReadsAreCurrent == ev.kind \in {"full", "partial"} /\ ev.pulled => ev.shown = ver
\* every completed pass delivers the COMPLETE result of the version it shows (in particular after a failed pass)
PassesAreComplete == ev.kind = "full" => ev.complete
CacheIsWhole == cached # 0 => whole
\* spec -> code: every maximal behaviour, printed once, with the observations the model predicts
EmitBehaviour == steps = MaxSteps => PrintT(ToJson([cache |-> cache, hist |-> hist]))
=============================================================================
