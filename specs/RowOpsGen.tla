----------------------------- MODULE RowOpsGen -----------------------------
(* C12: frame-condition laws evaluated on every small table, and case emission for replay.  Cells are unique        *)
(* (10 * row + column) so that every carried-over cell can be followed; fill cases use a {None, 1, 2} alphabet.     *)
EXTENDS RowOps, Json, IOUtils, TLC
CONSTANTS MaxFields, MaxRows, MaxLen

Names == {"a", "b"}
Hdrs == UNION {[1..n -> Names] : n \in 1..MaxFields}
LenSeqs == UNION {[1..n -> 0..MaxLen] : n \in 0..MaxRows}
MkRows(ls) == [i \in 1..Len(ls) |-> [j \in 1..ls[i] |-> 10 * i + j]]
Tabs == {[hdr |-> h, rows |-> MkRows(ls)] : h \in Hdrs, ls \in LenSeqs}
T2 == [hdr |-> <<"b", "c">>, rows |-> <<<<71, 72>>, <<81>>, <<91, 92, 93>>>>]
Specs(h) == {<<<<"n", "a">>>>, <<<<"n", "b">>>>, <<<<"n", "b">>, <<"n", "a">>>>, <<<<"n", "a">>, <<"n", "a">>>>, <<<<"i", 0>>>>,
             <<<<"i", Len(h) - 1>>, <<"n", "a">>>>, <<<<"n", "c">>>>}
Indexes == {99, 0, 1, 2, 5, -1, -2, -7}        \* 99 encodes index=None (append after the last header field)
V(i, r) == 500 + i

\* ---- laws ----
ASSUME CutLaw == \A t \in Tabs : \A sp \in Specs(t.hdr) : LET c == Cut(t, sp, 0) IN
        c # Err => /\ OneToOne(t, c) /\ Len(c.hdr) = Len(sp)
                   /\ \A i \in 1..Len(t.rows) : Len(c.rows[i]) = Len(sp)                      \* short rows padded, never dropped
ASSUME CutoutLaw == \A t \in Tabs : \A sp \in Specs(t.hdr) : LET co == Cutout(t, sp, 0) IN
        co # Err => /\ OneToOne(t, co)
                    /\ \A i \in 1..Len(t.rows) : Len(co.rows[i]) = Len(co.hdr)
                    /\ Len(co.hdr) + Cardinality({AsIndices(t.hdr, sp)[j] : j \in 1..Len(sp)}) = Len(t.hdr)
ASSUME AddFieldLaw == \A t \in Tabs : \A ix \in Indexes : LET a == AddField(t, "z", V, ix) IN
        /\ OneToOne(t, a)
        /\ \A i \in 1..Len(t.rows) : \E p \in 1..Len(a.rows[i]) : a.rows[i][p] = 500 + i /\ Without(a.rows[i], p) = PyPadTrim(t.rows[i], Len(t.hdr), 0)
        /\ \E p \in 1..Len(a.hdr) : a.hdr[p] = "z" /\ Without(a.hdr, p) = t.hdr
ASSUME MoveFieldLaw == \A t \in Tabs : \A ix \in {0, 1, 2, 5, -1} : LET m == MoveField(t, "a", ix, 0) IN
        m # Err => /\ OneToOne(t, m) /\ Len(m.hdr) = Len(t.hdr)
                   /\ \A f \in Names : Cardinality({j \in 1..Len(m.hdr) : m.hdr[j] = f}) = Cardinality({j \in 1..Len(t.hdr) : t.hdr[j] = f})
ASSUME OtherLaws == \A t \in Tabs :
  /\ LET n == AddRowNumbers(t, 1, 1) IN \A i \in 1..Len(t.rows) : n.rows[i] = <<i>> \o t.rows[i]
  /\ LET s == Stack(t, T2, 0) IN Len(s.rows) = Len(t.rows) + 3 /\ \A i \in 1..Len(s.rows) : Len(s.rows[i]) = Len(t.hdr)
  /\ LET x == Annex(t, T2, 0) IN \A i \in 1..Len(x.rows) : Len(x.rows[i]) = Len(t.hdr) + 2
  /\ SetHeader(t, <<"x">>).rows = t.rows /\ ExtendHeader(t, <<"x">>).rows = t.rows /\ (Rename(t, "a", "q") # Err => Rename(t, "a", "q").rows = t.rows)

Case(t) == [hdr |-> t.hdr, rows |-> t.rows,
  cut |-> SetToSeq({[spec |-> sp, out |-> Cut(t, sp, 0), outm |-> Cut(t, sp, 9), cutout |-> Cutout(t, sp, 0)] : sp \in Specs(t.hdr)}),
  addfield |-> SetToSeq({[index |-> ix, out |-> AddField(t, "z", V, ix)] : ix \in Indexes}),
  movefield |-> SetToSeq({[name |-> nm, index |-> ix, out |-> MoveField(t, nm, ix, 0)] : nm \in {"a", "b"}, ix \in {0, 1, 2, 5, -1}}),
  rownumbers |-> AddRowNumbers(t, 100, 7),
  addcolumn |-> SetToSeq({[index |-> ix, col |-> col, out |-> AddColumn(t, "z", col, ix, 0)] : ix \in {99, 0, 1}, col \in {<<>>, <<61>>, <<61, 62, 63>>}}),
  cat |-> Cat(t, T2, 0), cat9 |-> Cat(t, T2, 9), cathdr |-> CatHeader(t, T2, <<"c", "a", "x">>, 0),
  stack |-> Stack(t, T2, 0), stack9 |-> Stack(t, T2, 9), annex |-> Annex(t, T2, 0), annexr |-> Annex(T2, t, 9),
  setheader |-> SetHeader(t, <<"x", "y">>), extendheader |-> ExtendHeader(t, <<"x">>), pushheader |-> PushHeader(t, <<"x", "y">>),
  rename |-> Rename(t, "a", "q"),
  convert |-> Convert(t, "a", LAMBDA v : v + 1000), values |-> Values(t, "b", 0), values9 |-> Values(t, "b", 9),
  \* rows as the accessors dicts / records / namedtuples see them: padded with missing, trimmed to the header
  squared |-> MapRows(t.rows, LAMBDA r : PyPadTrim(r, Len(t.hdr), 0)), squared9 |-> MapRows(t.rows, LAMBDA r : PyPadTrim(r, Len(t.hdr), 9)),
  addfield9 |-> SetToSeq({[index |-> ix, out |-> AddFieldM(t, "z", V, ix, 9)] : ix \in {99, 0, -1}})]

\* fill cases: rectangular for filldown (it indexes every row), ragged for fillright / fillleft
FCells == {0, 1, 2}
FRows == UNION {[1..n -> FCells] : n \in 0..3}
FTabs == {[hdr |-> <<"a", "b", "c">>, rows |-> rs] : rs \in UNION {[1..n -> FRows] : n \in 0..2}}
RTabs == {[hdr |-> <<"a", "b">>, rows |-> rs] : rs \in UNION {[1..n -> [1..2 -> FCells]] : n \in 0..3}}
FillCase(t) == [hdr |-> t.hdr, rows |-> t.rows, fillright |-> FillRight(t), fillleft |-> FillLeft(t)]
DownCase(t) == [hdr |-> t.hdr, rows |-> t.rows, filldown |-> FillDown(t, {1, 2}), filldown_a |-> FillDown(t, {1})]
ASSUME \A t \in RTabs : LET d == FillDown(t, {1, 2}) IN
          /\ OneToOne(t, d)
          /\ \A i \in 1..Len(t.rows), j \in 1..2 : t.rows[i][j] # 0 => d.rows[i][j] = t.rows[i][j]     \* non-missing cells untouched

ASSUME ndJsonSerialize(IOEnv.OUT, SetToSeq({Case(t) : t \in Tabs}))
ASSUME ndJsonSerialize(IOEnv.OUT2, SetToSeq({FillCase(t) : t \in FTabs}))
ASSUME ndJsonSerialize(IOEnv.OUT3, SetToSeq({DownCase(t) : t \in RTabs}))
VARIABLE x
Init == x = 0
Next == FALSE /\ UNCHANGED x
=============================================================================
