CONSTANTS MaxRows = 0
          Ops = {"convert"}
          Policies = {"false"}
INIT TInit
NEXT TNext
INVARIANT Verdict
