----------------------------- MODULE SortTrace -----------------------------
(***************************************************************************)
(* Trace validation for C05 (code -> spec).  One recorded execution = one  *)
(* real sort()/mergesort() view over a random table: the keys (abstracted  *)
(* to typed values with native ranks), the strategy arguments, and one     *)
(* `pass` event per completed pass carrying the delivered permutation of   *)
(* input positions and the number of chunk files seen in the private temp  *)
(* directory after the first data row.                                     *)
(*   property level: every pass is THE stable order (Sorting!IsStableOrder) *)
(*   model level   : the chunk-file count is the one ExtSort's disk path    *)
(*                   produces (ceil(n/B) when n >= B, else 0)  -> DRIFT     *)
(***************************************************************************)
EXTENDS Sorting, Json, IOUtils, TLC, Naturals

Trace == ndJsonDeserialize(IOEnv.TRACE_FILE)

VARIABLES tid, l, bad, drift
vars == <<tid, l, bad, drift>>

Init == tid \in 1..Len(Trace) /\ l = 0 /\ bad = 0 /\ drift = 0

ExpectedChunks(n, B) == IF B = 0 \/ n < B THEN 0 ELSE (n + B - 1) \div B

Pass ==
  LET T == Trace[tid] IN
  /\ l < Len(T.passes)
  /\ l' = l + 1
  /\ LET ev == T.passes[l + 1] IN
     /\ bad' = IF bad = 0 /\ ~IsStableOrder(ev.out, T.keys, T.reverse) THEN l + 1 ELSE bad
     /\ drift' = IF drift = 0 /\ ev.files # ExpectedChunks(Len(T.keys), T.B) THEN l + 1 ELSE drift
  /\ UNCHANGED tid

Next == Pass
Done == l = Len(Trace[tid].passes)
Verdict == Done => PrintT(<<"VERDICT", tid, bad, drift>>)
=============================================================================
