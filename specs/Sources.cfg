INIT Init
NEXT Next
