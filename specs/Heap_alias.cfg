CONSTANTS NSrc = 3
          Idiom = "alias"
INIT Init
NEXT Next
PROPERTY Immutable
INVARIANT SourcesIntact
