CONSTANTS M = 3
          NIter = 3
          Path = "file"
          CacheFlag = FALSE
          Variant = "fixed"
INIT Init
NEXT Next
PROPERTY AbsSpec
INVARIANT AbsSafe
