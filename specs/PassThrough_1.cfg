CONSTANTS M = 4
          Batch = 1
          Limit = 0
          Passes = 3
INIT Init
NEXT Next
INVARIANT Transparent
INVARIANT CachePrefix
