CONSTANTS M = 4
          NIter = 3
          Sample = 5
INIT Init
NEXT Next
PROPERTY AbsSpec
INVARIANT AbsSafe
