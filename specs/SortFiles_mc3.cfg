CONSTANTS NSet = {2, 3}
          BSet = {1, 2, 3}
          CacheSet = {TRUE, FALSE}
          FailSet = {0}
          NIter = 3
          MaxSteps = 30
VIEW View
INIT Init
NEXT Next
INVARIANT NoLeak
INVARIANT ReadersHaveFiles
INVARIANT Complete
INVARIANT MemPathNoFiles
