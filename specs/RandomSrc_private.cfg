CONSTANTS M = 3
          NIter = 2
          Variant = "private"
INIT Init
NEXT Next
INVARIANT Independent
