CONSTANTS MaxPrev = 0
          MaxNew = 0
INIT TInit
NEXT TNext
INVARIANT Verdict
