------------------------------ MODULE GroupGen ------------------------------
(* Case emission for C09: every small table (k, j, n) x key form with the partition the       *)
(* definition prescribes - groups in ascending key order, member rows in input order - and    *)
(* the definition-level selections (first/last/min/max by n) and merged values per group.     *)
EXTENDS GroupDefs, Json, IOUtils, TLC
CONSTANTS KCells, JCells, NCells, MaxRows

RowVals == {<<k, j, n>> : k \in KCells, j \in JCells, n \in NCells}
Tabs == SeqsUpTo(RowVals, MaxRows)
KeyIdx == [k |-> <<1>>, kj |-> <<1, 2>>]
MergeCode(S) == IF Cardinality(S) = 0 THEN <<"missing">>
                ELSE IF Cardinality(S) = 1 THEN <<"value", CHOOSE x \in S : TRUE>>
                ELSE <<"conflict", SetToSortSeq(S, <)>>
Case(t, kf) ==
  LET idx == KeyIdx[kf]  P == Partition(t, idx) IN
  [rows |-> t, key |-> kf,
   groups |-> [g \in 1..Len(P) |->
      LET m == P[g].members IN
      [key |-> P[g].key, members |-> m, rows |-> [p \in 1..Len(m) |-> t[m[p]]],
       first |-> t[FirstOf(m)], last |-> t[LastOf(m)],
       minrow |-> t[MinBy(t, m, 3)], maxrow |-> t[MaxBy(t, m, 3)],
       merged |-> [f \in 1..(3 - Len(idx)) |-> MergeCode(MergedVals(t, m, Len(idx) + f, 0))]]]]
ASSUME \A t \in Tabs : EachRowOnce(t, <<1>>) /\ EachRowOnce(t, <<1, 2>>)
ASSUME ndJsonSerialize(IOEnv.OUT, SetToSeq({Case(t, kf) : t \in Tabs, kf \in {"k", "kj"}}))
VARIABLE x
Init == x = 0
Next == FALSE /\ UNCHANGED x
=============================================================================
