CONSTANTS NIn = 3
          MaxLen = 3
          Vals = {0, 1, 2}
INIT Init
NEXT Next
INVARIANT MergeCorrect
INVARIANT Conserved
INVARIANT SlotsAligned
