---------------------------- MODULE CacheViewRef ----------------------------
(***************************************************************************)
(* Refinement: the sequence-level model CacheView.tla (the one bound to the *)
(* code) implements the integer abstraction CacheViewInt.tla, whose         *)
(* invariants Apalache proves for every M and every limit.  Checked by TLC *)
(* (PROPERTY Abs!Spec) on the same bounded instances as CacheView itself.  *)
(***************************************************************************)
EXTENDS CacheView

Abs == INSTANCE CacheViewInt WITH
         clen <- Len(cache),
         cbad <- ~IsPrefixOfSolo(cache),
         dlen <- [i \in Its |-> Len(del[i])],
         dbad <- [i \in Its |-> ~IsPrefixOfSolo(del[i])]
AbsSpec == Abs!Spec
AbsSafe == Abs!Safe
=============================================================================
