CONSTANTS M = 4
          NIter = 3
          Limit = 0
          Variant = "orig"
INIT Init
NEXT Next
INVARIANT Independent
INVARIANT CacheSound
INVARIANT ExhaustedIsComplete
