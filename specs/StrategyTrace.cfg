CONSTANTS MaxSteps = 1000
          MaxRows = 0
          Vals = {0}
INIT TInit
NEXT TNext
INVARIANT Verdict
