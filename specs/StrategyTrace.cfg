CONSTANTS MaxSteps = 1000
          MaxRows = 0
          CVariant = "atomic"
          Vals = {0}
INIT TInit
NEXT TNext
INVARIANT Verdict
