CONSTANTS MaxRows = 0
          Vals = {0, 1, 2, 3, 4, 5, 6, 7, 8, 9}
          Passes = 3
INIT TInit
NEXT TNext
CONSTRAINT Track
INVARIANT SortCorrect
POSTCONDITION Report
