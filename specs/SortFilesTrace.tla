--------------------------- MODULE SortFilesTrace ---------------------------
(***************************************************************************)
(* Trace validation for C18 (code -> spec): a recorded history of iter /   *)
(* next / drop / dropview steps on a real sort() view with a private temp  *)
(* directory; every event logs what next() produced (position in the solo  *)
(* pass, 0 = StopIteration, -1 = the injected source failure, -2 = anything *)
(* else) and the number of files in the directory afterwards.  The trace   *)
(* spec drives SortFiles' own actions with the logged events.              *)
(*   property level: deliveries are the ones the action produces; the      *)
(*                   final `end` event (everything released) sees 0 files  *)
(*   model level   : the file count after every step equals FilesAlive     *)
(***************************************************************************)
EXTENDS SortFiles, IOUtils

Trace == ndJsonDeserialize(IOEnv.TRACE_FILE)
VARIABLES tid, l, bad, why, drift
tvars == <<tid, l, bad, why, drift>>

TInit == /\ tid \in 1..Len(Trace) /\ l = 0 /\ bad = 0 /\ why = "ok" /\ drift = 0
         /\ P = [N |-> Trace[tid].N, B |-> Trace[tid].B, cache |-> Trace[tid].cache, fail |-> Trace[tid].FailAt]
         /\ viewRef = TRUE /\ viewList = 0 /\ memCache = FALSE
         /\ nfiles = [x \in Its |-> 0] /\ hold = [x \in Its |-> 0]
         /\ st = [x \in Its |-> "unborn"] /\ kind = [x \in Its |-> "nocache"]
         /\ n = [x \in Its |-> 0] /\ del = [x \in Its |-> <<>>] /\ steps = 0 /\ hist = <<>>

Ev == Trace[tid].events[l + 1]
Act == CASE Ev.a = "iter" -> Iter(Ev.i)
         [] Ev.a = "drop" -> Drop(Ev.i)
         [] Ev.a = "dropview" -> DropView
         [] Ev.a = "clearcache" -> ClearCache
         [] Ev.a = "next" -> (NextNoCache(Ev.i) \/ NextFromCache(Ev.i)) /\ hist'[Len(hist')].res = Ev.res
         [] Ev.a = "end" -> FALSE

TStep ==
  /\ l < Len(Trace[tid].events) /\ l' = l + 1 /\ UNCHANGED tid
  /\ IF Ev.a = "end"
     THEN /\ bad' = IF bad = 0 /\ Ev.files # 0 THEN l + 1 ELSE bad
          /\ why' = IF bad = 0 /\ Ev.files # 0 THEN "leak" ELSE why
          /\ UNCHANGED <<vars, drift>>
     ELSE IF bad = 0 /\ ENABLED Act
          THEN /\ Act
               /\ drift' = IF drift = 0 /\ Ev.files # FilesAlive' THEN l + 1 ELSE drift
               /\ UNCHANGED <<bad, why>>
          ELSE /\ bad' = IF bad = 0 THEN l + 1 ELSE bad
               /\ why' = IF bad = 0 THEN "delivery" ELSE why
               /\ UNCHANGED <<vars, drift>>
TNext == TStep
TDone == l = Len(Trace[tid].events)
Verdict == TDone => PrintT(<<"VERDICT", tid, bad, why, drift>>)
=============================================================================
