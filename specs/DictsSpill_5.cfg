CONSTANTS M = 4
          NIter = 3
          Sample = 5
INIT Init
NEXT Next
INVARIANT Independent
INVARIANT ExhaustedIsComplete
INVARIANT FileSound
