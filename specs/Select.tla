------------------------------- MODULE Select -------------------------------
(***************************************************************************)
(* C13: selections.  A table is a sequence of (possibly ragged) rows of    *)
(* abstract cells (naturals, 0 = None); a selection is the subsequence of  *)
(* row positions satisfying a predicate, its complement the exact rest.    *)
(* Comparison selectors read a missing cell as `missing` (None) and        *)
(* compare under the ordering of C04.  rowslice / head / tail / skip       *)
(* select by position exactly as itertools.islice.                         *)
(***************************************************************************)
EXTENDS Tables, Integers

Positions(t) == [i \in 1..Len(t) |-> i]
Sel(t, P(_)) == SelectSeq(Positions(t), LAMBDA i : P(t[i]))
SelC(t, P(_), complement) == SelectSeq(Positions(t), LAMBDA i : P(t[i]) # complement)     \* XOR, as in the code

V(row, f) == CellVal(Cell(row, f))         \* a cell beyond the end of a short row reads as None
PredOf(name, f, ref, row) ==
  LET x == V(row, f)  r == CellVal(ref) IN
  CASE name = "eq" -> Cell(row, f) = ref
    [] name = "ne" -> Cell(row, f) # ref
    [] name = "lt" -> Lt(x, r)
    [] name = "le" -> Le(x, r)
    [] name = "gt" -> Gt(x, r)
    [] name = "ge" -> Ge(x, r)
    [] name = "none" -> Cell(row, f) = None
    [] name = "notnone" -> Cell(row, f) # None
    [] name = "true" -> Cell(row, f) # None             \* the cell alphabet has no falsy value besides None
    [] name = "false" -> Cell(row, f) = None
RangePred(name, f, lo, hi, row) ==
  LET x == V(row, f)  a == CellVal(lo)  b == CellVal(hi) IN
  CASE name = "rangeopen" -> Le(a, x) /\ Le(x, b)               \* petl's naming: "open" = both ends included
    [] name = "rangeopenleft" -> Le(a, x) /\ Lt(x, b)
    [] name = "rangeopenright" -> Lt(a, x) /\ Le(x, b)
    [] name = "rangeclosed" -> Lt(a, x) /\ Lt(x, b)
InPred(f, S, row) == Cell(row, f) \in S

\* itertools.islice(rows, start, stop, step) over 1-based positions; stop = -1 encodes None
ISlice(n, start, stop, step) ==
  LET lim == IF stop = -1 \/ stop > n THEN n ELSE stop IN
  SelectSeq([i \in 1..n |-> i], LAMBDA i : i > start /\ i <= lim /\ (i - 1 - start) % step = 0)
HeadRows(n, k) == ISlice(n, 0, k, 1)
SkipRows(n, k) == [i \in 1..(IF k - 1 < n THEN n - (k - 1) ELSE 0) |-> i + (k - 1)]      \* skip(k) drops the header + k-1 rows
TailRows(n, k) == [i \in 1..(IF k < n THEN k ELSE n) |-> (IF k < n THEN n - k ELSE 0) + i]

\* ---- laws -------------------------------------------------------------------------------------
IsPartition(t, a, b) == /\ Len(a) + Len(b) = Len(t)
                        /\ \A i \in 1..Len(t) : (\E p \in 1..Len(a) : a[p] = i) # (\E p \in 1..Len(b) : b[p] = i)
Increasing(s) == \A p \in 1..(Len(s) - 1) : s[p] < s[p + 1]
=============================================================================
