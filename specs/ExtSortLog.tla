----------------------------- MODULE ExtSortLog -----------------------------
(***************************************************************************)
(* Trace validation of SortView's INTERNAL steps (code -> spec) against    *)
(* ExtSort.tla.  petl already logs its own linearisation points at DEBUG   *)
(* level (logger petl.transform.sorts): "iterate without cache", "clear    *)
(* cache", "created temporary chunk file", "caching files", "caching mem", *)
(* "iterate from memory cache", "iterate from file cache".  The driver     *)
(* captures them with a logging handler - no change to petl - interleaved  *)
(* with its own events: `row` (a data row was delivered, with its input    *)
(* position) and `passend`.                                                *)
(* Each logged event must be matched by the corresponding ExtSort action;  *)
(* steps the code does not log (DecideDisk, FromMem, FromFile, EndMerge,   *)
(* NextPass, and DecideMem / EndDump when cache is off) are silent actions *)
(* the validator may insert.  A trace is accepted iff some interleaving    *)
(* consumes every event and ends at a completed pass; the longest matched  *)
(* prefix is reported otherwise.                                           *)
(***************************************************************************)
EXTENDS ExtSort, Json, IOUtils, TLC
Trace == ndJsonDeserialize(IOEnv.TRACE_FILE)
VARIABLES tid, l, seen     \* seen = data rows of the current pass already matched against `row` events
tvars == <<tid, l, seen>>
T == Trace[tid]
ASSUME \A i \in 1..Len(Trace) : TLCSet(i, 0)

TInit == /\ tid \in 1..Len(Trace) /\ l = 0 /\ seen = 0
         /\ K = T.K /\ B = T.B /\ reverse = T.reverse /\ cache = T.cache
         /\ pc = "iter" /\ pos = 0 /\ rows = <<>> /\ chunks = <<>> /\ heads = <<>> /\ out = <<>>
         /\ pass = 1 /\ memcache = <<>> /\ filecache = <<>> /\ hasmem = FALSE /\ hasfile = FALSE

Ev == T.events[l + 1]
More == l < Len(T.events)
Consume == l' = l + 1 /\ UNCHANGED tid
\* logged events
LIter == /\ More /\ Ev.e \in {"nocache", "frommem", "fromfile"} /\ Iter /\ pc' = Ev.e /\ Consume /\ seen' = 0
LClear == More /\ Ev.e = "clear" /\ FirstChunk /\ Consume /\ UNCHANGED seen
LCacheMem == More /\ Ev.e = "cachemem" /\ cache /\ DecideMem /\ Consume /\ UNCHANGED seen
LChunk == More /\ Ev.e = "chunk" /\ DumpChunk /\ Consume /\ UNCHANGED seen
LCacheFiles == More /\ Ev.e = "cachefiles" /\ cache /\ EndDump /\ Consume /\ UNCHANGED seen
\* a delivered row: on the file path it is one MergeStep; on the memory path `out` already holds the whole pass
LRow == /\ More /\ Ev.e = "row"
        /\ \/ (pc = "merge" /\ MergeStep /\ out'[Len(out')] = Ev.id /\ seen' = seen + 1)
           \/ (pc = "passdone" /\ seen < Len(out) /\ out[seen + 1] = Ev.id /\ seen' = seen + 1 /\ UNCHANGED vars)
        /\ Consume
LPassEnd == /\ More /\ Ev.e = "passend" /\ pc = "passdone" /\ seen = Len(out) /\ Len(out) = Len(K)
            /\ Consume /\ UNCHANGED <<vars, seen>>
\* silent steps
Silent == /\ \/ DecideDisk \/ FromMem \/ FromFile \/ EndMerge
             \/ (~cache /\ DecideMem) \/ (~cache /\ EndDump)
             \/ (NextPass /\ l > 0 /\ T.events[l].e = "passend")
          /\ UNCHANGED <<tid, l, seen>>
TNext == LIter \/ LClear \/ LCacheMem \/ LChunk \/ LCacheFiles \/ LRow \/ LPassEnd \/ Silent

\* bookkeeping: longest matched prefix per trace; a fully matched trace that ends at a completed pass scores Len + 1
Score == IF l = Len(T.events) /\ pc = "passdone" THEN l + 1 ELSE l
Track == TLCSet(tid, IF Score > TLCGet(tid) THEN Score ELSE TLCGet(tid))
Report == \A i \in 1..Len(Trace) : PrintT(<<"VERDICT", i, TLCGet(i), Len(Trace[i].events)>>)
=============================================================================
