CONSTANTS Lens = {0, 2, 4, 5}
          MaxRows = 3
INIT Init
NEXT Next
