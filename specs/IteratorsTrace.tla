--------------------------- MODULE IteratorsTrace ---------------------------
(***************************************************************************)
(* Trace validation for C01 (code -> spec).  A trace is a recorded         *)
(* schedule on a real view: events <<i, a, res>> with a in iter/next/drop  *)
(* and, for next, res = the position in the view's solo pass of the item   *)
(* that was delivered (0 = StopIteration, -1 = an exception or an item     *)
(* that is not the solo pass's item at any position).  The trace spec      *)
(* drives Iterators' own actions with the logged events; a next event is   *)
(* accepted only if the logged result is the one the action produces.      *)
(* m = length of the solo pass of that view (logged per trace; Iterators'  *)
(* constant M is instantiated "large" and exhaustion is decided by m).     *)
(***************************************************************************)
EXTENDS Iterators, IOUtils

Trace == ndJsonDeserialize(IOEnv.TRACE_FILE)
VARIABLES tid, l, bad
tvars == <<tid, l, bad>>

TInit == Init /\ tid \in 1..Len(Trace) /\ l = 0 /\ bad = 0
Ev == Trace[tid].events[l + 1]
i_ == Ev[1]

Matched ==
  CASE Ev[2] = "iter" -> Iter(i_)
    [] Ev[2] = "drop" -> Drop(i_)
    [] Ev[2] = "next" ->
         IF Ev[3] = 0
         THEN \* StopIteration is only allowed once the whole solo pass was delivered
              /\ st[i_] = "live" /\ Len(del[i_]) = Trace[tid].m
              /\ st' = [st EXCEPT ![i_] = "done"] /\ UNCHANGED del
              /\ steps' = steps + 1 /\ hist' = hist
         ELSE /\ Len(del[i_]) < Trace[tid].m
              /\ Next_(i_)
              /\ Len(del'[i_]) = Ev[3]          \* the delivered item is item number res of the solo pass

\* a logged event that the specification cannot take is recorded (first one) and skipped
TStep == /\ l < Len(Trace[tid].events) /\ l' = l + 1 /\ UNCHANGED tid
         /\ IF bad = 0 /\ ENABLED Matched
            THEN Matched /\ UNCHANGED bad
            ELSE bad' = (IF bad = 0 THEN l + 1 ELSE bad) /\ UNCHANGED vars
TNext == TStep
TDone == l = Len(Trace[tid].events)
Verdict == TDone => PrintT(<<"VERDICT", tid, bad>>)
=============================================================================
