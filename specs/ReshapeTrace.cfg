INIT Init
NEXT Next
INVARIANT Verdict
