------------------------------ MODULE RelJoin ------------------------------
(***************************************************************************)
(* The relational join operators as definitions over key columns (C06/C07).*)
(* LK / RK are sequences of key values (any values; equality decides, so   *)
(* None = None); results are sets of pairs <<l, r>> of row positions, 0    *)
(* meaning "no partner: padded with `missing`".                            *)
(***************************************************************************)
EXTENDS Naturals, Sequences, FiniteSets

Matches(LK, RK) == {<<l, r>> \in (1..Len(LK)) \X (1..Len(RK)) : LK[l] = RK[r]}
LeftUnmatched(LK, RK) == {l \in 1..Len(LK) : \A r \in 1..Len(RK) : LK[l] # RK[r]}
RightUnmatched(LK, RK) == {r \in 1..Len(RK) : \A l \in 1..Len(LK) : LK[l] # RK[r]}
FirstPartner(l, LK, RK) ==
  CHOOSE r \in 1..Len(RK) : LK[l] = RK[r] /\ \A q \in 1..Len(RK) : LK[l] = RK[q] => r <= q

RelJoinSet(o, LK, RK) ==
  CASE o = "join"   -> Matches(LK, RK)
    [] o = "left"   -> Matches(LK, RK) \cup {<<l, 0>> : l \in LeftUnmatched(LK, RK)}
    [] o = "right"  -> Matches(LK, RK) \cup {<<0, r>> : r \in RightUnmatched(LK, RK)}
    [] o = "outer"  -> Matches(LK, RK) \cup {<<l, 0>> : l \in LeftUnmatched(LK, RK)}
                                      \cup {<<0, r>> : r \in RightUnmatched(LK, RK)}
    [] o = "anti"   -> {<<l, 0>> : l \in LeftUnmatched(LK, RK)}
    [] o = "lookup" -> {<<l, FirstPartner(l, LK, RK)>> : l \in (1..Len(LK)) \ LeftUnmatched(LK, RK)}
                       \cup {<<l, 0>> : l \in LeftUnmatched(LK, RK)}
=============================================================================
