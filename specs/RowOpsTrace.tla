---------------------------- MODULE RowOpsTrace ----------------------------
(***************************************************************************)
(* Trace validation for C12 (code -> spec): one `apply` event per recorded *)
(* execution - the operator, its arguments, the (ragged, integer-celled)   *)
(* input table(s) and the table the real function delivered.  The event is *)
(* accepted iff the output equals what the RowOps definition gives.        *)
(***************************************************************************)
EXTENDS RowOps, Json, IOUtils, TLC
Trace == ndJsonDeserialize(IOEnv.TRACE_FILE)
VARIABLES tid, l, bad
vars == <<tid, l, bad>>
T == Trace[tid]
Init == tid \in 1..Len(Trace) /\ l = 0 /\ bad = 0
Tab == [hdr |-> T.hdr, rows |-> T.rows]
Tab2 == [hdr |-> T.hdr2, rows |-> T.rows2]
Expected ==
  CASE T.op = "cut" -> Cut(Tab, T.spec, T.missing)
    [] T.op = "cutout" -> Cutout(Tab, T.spec, T.missing)
    [] T.op = "movefield" -> MoveField(Tab, T.name, T.index, T.missing)
    [] T.op = "addfield" -> AddField(Tab, "z", LAMBDA i, r : 500 + i, T.index)
    [] T.op = "addrownumbers" -> AddRowNumbers(Tab, T.start, T.step)
    [] T.op = "stack" -> Stack(Tab, Tab2, T.missing)
    [] T.op = "annex" -> Annex(Tab, Tab2, T.missing)
    [] T.op = "cat" -> Cat(Tab, Tab2, T.missing)
    [] T.op = "fillright" -> FillRight(Tab)
    [] T.op = "fillleft" -> FillLeft(Tab)
Step == /\ l = 0 /\ l' = 1 /\ UNCHANGED tid
        /\ bad' = IF T.out = Expected THEN 0 ELSE 1
Next == Step
Verdict == l = 1 => PrintT(<<"VERDICT", tid, bad>>)
=============================================================================
