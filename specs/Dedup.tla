------------------------------- MODULE Dedup -------------------------------
(***************************************************************************)
(* petl/transform/dedup.py (C10): the previous/current scans of            *)
(* iterduplicates, iterunique, DistinctView.__iter__ (with and without a   *)
(* count column) and iterconflicts over the key-sorted table, one action   *)
(* per loop iteration, against the multiplicity definitions of DedupDefs.  *)
(* Variant "orig" keeps `tuple(previous) + (n_dup,)` on the INIT sentinel  *)
(* for a table without data rows (F8: TypeError); "fixed" guards it.       *)
(***************************************************************************)
EXTENDS DedupDefs, Sorting

CONSTANTS MaxRows, KeyVals, ValVals, Variant

VARIABLES K, V, Rows, op, pc, i, prev, prevYielded, prevNe, ndup, out, cnt
vars == <<K, V, Rows, op, pc, i, prev, prevYielded, prevNe, ndup, out, cnt>>

N == Len(K)
\* sort(table, key): stable by key; Rows = the sorted table the scans read
SortedBy(k) == StableOrder([j \in 1..Len(k) |-> CellVal(k[j])], FALSE)
Idx == <<1>>
KeyP(p) == Rows[p][1]

Init ==
  /\ K \in UNION {[1..n -> KeyVals] : n \in 0..MaxRows}
  /\ op \in {"duplicates", "unique", "distinct", "distinctcount", "conflicts"}
  \* the value column only matters to conflicts
  /\ V \in (IF op = "conflicts" THEN [1..Len(K) -> ValVals] ELSE {[j \in 1..Len(K) |-> 0]})
  /\ Rows = LET s == SortedBy(K) IN [p \in 1..Len(K) |-> <<K[s[p]], V[s[p]]>>]
  /\ pc = "scan" /\ i = 0 /\ prev = 0 /\ prevYielded = FALSE /\ prevNe = TRUE /\ ndup = 1
  /\ out = <<>> /\ cnt = <<>>

\* iterduplicates / iterconflicts: `previous = None` ... for row in it
DupStep ==
  /\ pc = "scan" /\ op \in {"duplicates", "conflicts"} /\ i < N
  /\ i' = i + 1
  /\ IF prev = 0 THEN prev' = i + 1 /\ UNCHANGED <<prevYielded, out>>
     ELSE /\ prev' = i + 1
          /\ IF KeyP(prev) = KeyP(i + 1)
             THEN IF op = "duplicates" \/ Disagree(Rows[prev], Rows[i + 1], 0)
                  THEN /\ out' = (IF prevYielded THEN out ELSE Append(out, prev)) \o <<i + 1>>
                       /\ prevYielded' = TRUE
                  ELSE UNCHANGED <<out, prevYielded>>
             ELSE prevYielded' = FALSE /\ UNCHANGED out
  /\ UNCHANGED <<K, V, Rows, op, pc, prevNe, ndup, cnt>>

\* iterunique: first row, then prev_comp_ne / curr_comp_ne
UniqStart ==
  /\ pc = "scan" /\ op = "unique" /\ i = 0
  /\ IF N = 0 THEN pc' = "done" /\ UNCHANGED <<i, prev>>
     ELSE i' = 1 /\ prev' = 1 /\ UNCHANGED pc
  /\ UNCHANGED <<K, V, Rows, op, prevYielded, prevNe, ndup, out, cnt>>
UniqStep ==
  /\ pc = "scan" /\ op = "unique" /\ i > 0 /\ i < N
  /\ LET currNe == KeyP(i + 1) # KeyP(prev) IN
     /\ out' = IF prevNe /\ currNe THEN Append(out, prev) ELSE out
     /\ prevNe' = currNe
  /\ prev' = i + 1 /\ i' = i + 1
  /\ UNCHANGED <<K, V, Rows, op, pc, prevYielded, ndup, cnt>>
UniqEnd ==
  /\ pc = "scan" /\ op = "unique" /\ i > 0 /\ i = N
  /\ out' = IF prevNe THEN Append(out, prev) ELSE out
  /\ pc' = "done"
  /\ UNCHANGED <<K, V, Rows, op, i, prev, prevYielded, prevNe, ndup, cnt>>

\* distinct without count: previous_keys = INIT; yield when the key changes
DistStep ==
  /\ pc = "scan" /\ op = "distinct" /\ i < N
  /\ i' = i + 1
  /\ out' = IF prev = 0 \/ KeyP(i + 1) # KeyP(prev) THEN Append(out, i + 1) ELSE out
  /\ prev' = i + 1
  /\ UNCHANGED <<K, V, Rows, op, pc, prevYielded, prevNe, ndup, cnt>>

\* distinct with count: previous = INIT, n_dup
DistCountStep ==
  /\ pc = "scan" /\ op = "distinctcount" /\ i < N
  /\ i' = i + 1
  /\ IF prev = 0 THEN prev' = i + 1 /\ UNCHANGED <<ndup, out, cnt>>
     ELSE IF KeyP(prev) = KeyP(i + 1) THEN ndup' = ndup + 1 /\ UNCHANGED <<prev, out, cnt>>
     ELSE out' = Append(out, prev) /\ cnt' = Append(cnt, ndup) /\ ndup' = 1 /\ prev' = i + 1
  /\ UNCHANGED <<K, V, Rows, op, pc, prevYielded, prevNe>>
\* "deal with last row": yield tuple(previous) + (n_dup,)
DistCountEnd ==
  /\ pc = "scan" /\ op = "distinctcount" /\ i = N
  /\ IF prev = 0
     THEN IF Variant = "orig" THEN pc' = "crash" /\ UNCHANGED <<out, cnt>>   \* tuple(INIT): TypeError
          ELSE pc' = "done" /\ UNCHANGED <<out, cnt>>
     ELSE out' = Append(out, prev) /\ cnt' = Append(cnt, ndup) /\ pc' = "done"
  /\ UNCHANGED <<K, V, Rows, op, i, prev, prevYielded, prevNe, ndup>>

ScanEnd ==
  /\ pc = "scan" /\ op \in {"duplicates", "conflicts", "distinct"} /\ i = N
  /\ pc' = "done"
  /\ UNCHANGED <<K, V, Rows, op, i, prev, prevYielded, prevNe, ndup, out, cnt>>

Next == DupStep \/ UniqStart \/ UniqStep \/ UniqEnd \/ DistStep \/ DistCountStep \/ DistCountEnd \/ ScanEnd
Spec == Init /\ [][Next]_vars
----------------------------------------------------------------------------
Done == pc = "done"
NoCrash == pc # "crash"
DuplicatesCorrect == Done /\ op = "duplicates" => out = DuplicatesDef(Rows, Idx)
UniqueCorrect == Done /\ op = "unique" => out = UniqueDef(Rows, Idx)
DistinctCorrect == Done /\ op \in {"distinct", "distinctcount"} => out = DistinctDef(Rows, Idx)
CountsCorrect == Done /\ op = "distinctcount" => cnt = CountsDef(Rows, Idx) /\ SumSeq(cnt) = N
ConflictsSound == Done /\ op = "conflicts" =>
                     /\ ToSet(out) \subseteq ToSet(ConflictAllowed(Rows, Idx, 0))
                     /\ out = ConflictScan(Rows, Idx, 0)
\* duplicates and unique partition the table; isunique <=> duplicates empty
Partition == /\ ToSet(DuplicatesDef(Rows, Idx)) \cup ToSet(UniqueDef(Rows, Idx)) = 1..N
             /\ ToSet(DuplicatesDef(Rows, Idx)) \cap ToSet(UniqueDef(Rows, Idx)) = {}
             /\ IsUniqueDef(Rows, Idx) <=> DuplicatesDef(Rows, Idx) = <<>>
=============================================================================
