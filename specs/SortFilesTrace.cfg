CONSTANTS NSet = {0}
          BSet = {1}
          CacheSet = {TRUE}
          FailSet = {0}
          NIter = 3
          MaxSteps = 100000
INIT TInit
NEXT TNext
INVARIANT Verdict
