--------------------------- MODULE StrategyTrace ---------------------------
(***************************************************************************)
(* Trace validation for the cache clause of C11 (code -> spec).  A trace   *)
(* is a recorded history of edit / full / partial steps on a real sort()   *)
(* view over a version-stamped instrumented source; every pass event logs  *)
(* the version it showed and whether the source was read.  The trace spec  *)
(* drives Strategy's own actions with the logged action names and checks   *)
(*   property level : NoCacheFresh, CacheReplays, ReadsAreCurrent on the   *)
(*                    LOGGED observations (first violation -> bad)         *)
(*   model level    : the logged observation equals the one the            *)
(*                    implementation-shaped action predicts (-> drift)     *)
(***************************************************************************)
EXTENDS Strategy, IOUtils

Trace == ndJsonDeserialize(IOEnv.TRACE_FILE)
VARIABLES tid, l, bad, why, drift, seenDone
tvars == <<tid, l, bad, why, drift, seenDone>>

TInit == /\ tid \in 1..Len(Trace) /\ l = 0 /\ bad = 0 /\ why = "ok" /\ drift = 0 /\ seenDone = 0
         /\ cache = Trace[tid].cache /\ ver = 1 /\ cached = 0 /\ whole = TRUE /\ steps = 0
         /\ ev = NoEv /\ firstDone = 0 /\ hist = <<>>

Logged == Trace[tid].events[l + 1]
\* the spec action named by the logged event
Act(e) == CASE e.a = "edit" -> Edit [] e.a = "full" -> FullPass [] e.a = "partial" -> PartialPass(e.k) [] e.a = "fail" -> FailPass
\* a pass that ran to completion (a "fail" step whose armed source failure never surfaced is one)
Completed(e) == e.a = "full" \/ (e.a = "fail" /\ ~e.raised)

\* property-level judgement of the LOGGED observation, against the logged history so far
Judge(e) ==
  IF Completed(e) /\ ~cache /\ ~(e.shown = ver /\ e.pulled) THEN "NoCacheFresh"
  ELSE IF Completed(e) /\ cache /\ seenDone # 0 /\ ~(~e.pulled /\ e.shown = seenDone) THEN "CacheReplays"
  ELSE IF Completed(e) /\ ~e.complete THEN "PassesAreComplete"
  ELSE IF (Completed(e) \/ e.a = "partial") /\ e.pulled /\ e.shown # 0 /\ e.shown # ver THEN "ReadsAreCurrent"
  ELSE "ok"

TStep ==
  /\ l < Len(Trace[tid].events)
  /\ Act(Logged)
  /\ l' = l + 1
  /\ LET j == Judge(Logged) IN
     /\ bad' = IF bad = 0 /\ j # "ok" THEN l + 1 ELSE bad
     /\ why' = IF bad = 0 /\ j # "ok" THEN j ELSE why
  /\ seenDone' = IF Completed(Logged) /\ seenDone = 0 THEN Logged.shown ELSE seenDone
  /\ drift' = IF drift = 0 /\ Logged.a # "edit" /\ (ev'.pulled # Logged.pulled \/ (Completed(Logged) /\ ev'.shown # Logged.shown)
                                                     \/ (Logged.a = "fail" /\ Logged.raised # (ev'.kind = "fail")))
              THEN l + 1 ELSE drift
  /\ UNCHANGED tid

TNext == TStep
TDone == l = Len(Trace[tid].events)
Verdict == TDone => PrintT(<<"VERDICT", tid, bad, why, drift>>)
=============================================================================
