---------------------------- MODULE StrategyRef ----------------------------
(* Refinement: Strategy.tla (bounded, with the replay history; bound to the code) implements StrategyInt.tla, whose      *)
(* inductive invariant Apalache proves for histories of any length.  Checked by TLC.                                     *)
EXTENDS Strategy
Abs == INSTANCE StrategyInt WITH evKind <- ev.kind, evShown <- ev.shown, evPulled <- ev.pulled, evComplete <- ev.complete
AbsSpec == Abs!Spec
AbsSafe == Abs!Safe
=============================================================================
