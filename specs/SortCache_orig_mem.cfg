CONSTANTS M = 3
          NIter = 3
          Path = "mem"
          CacheFlag = TRUE
          Variant = "orig"
INIT Init
NEXT Next
INVARIANT Independent
INVARIANT NoCrash
INVARIANT ExhaustedIsComplete
