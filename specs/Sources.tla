------------------------------- MODULE Sources -------------------------------
(***************************************************************************)
(* petl.io.sources: how a `source` argument of a from* / to* function is   *)
(* resolved to a source object (read_source_from_arg /                     *)
(* write_source_from_arg / _resolve_source_from_arg), as a decision table. *)
(* An argument is abstracted to                                            *)
(*   kind   "none" | "string" | "object"                                   *)
(*   proto  "" (no '://') | "http" | "https" | "ftp" | "smb" | "other"     *)
(*   ext    "" | ".gz" | ".bgz" | ".bz2" | ".csv"                          *)
(*   open   the object has a callable open()   (objects only)              *)
(* The result is the class petl instantiates, or "AssertionError".         *)
(***************************************************************************)
EXTENDS Naturals, Sequences, FiniteSets, Json, IOUtils, TLC, SequencesExt

Args == [kind : {"none", "string", "object"}, proto : {"", "http", "https", "ftp", "smb", "other"},
         ext : {"", ".gz", ".bgz", ".bz2", ".csv"}, open : BOOLEAN]
Modes == {"read", "write"}

\* default registrations: petl/io/sources.py (URLSource, read only) and petl/io/remotes.py (SMBSource, read and write;
\* fsspec protocols are registered only when fsspec is installed - it is not, here)
Readers == [http |-> "URLSource", https |-> "URLSource", ftp |-> "URLSource", smb |-> "SMBSource"]
Writers == [smb |-> "SMBSource"]
Codec(ext) == CASE ext \in {".gz", ".bgz"} -> "GzipSource" [] ext = ".bz2" -> "BZ2Source" [] OTHER -> "none"
Handler(proto, mode) == IF mode = "read" /\ proto \in DOMAIN Readers THEN Readers[proto]
                        ELSE IF mode = "write" /\ proto \in DOMAIN Writers THEN Writers[proto] ELSE "none"

Resolve(a, mode) ==
  IF a.kind = "none" THEN (IF mode = "read" THEN "StdinSource" ELSE "StdoutSource")
  ELSE IF a.kind = "object" THEN (IF a.open THEN "same object" ELSE "AssertionError")
  ELSE IF Handler(a.proto, mode) # "none" THEN Handler(a.proto, mode)           \* a registered protocol wins over the codec
  ELSE IF Codec(a.ext) # "none" THEN Codec(a.ext)                                \* then the extension decides
  ELSE IF a.proto # "" THEN "AssertionError"                                     \* '://' without a handler
  ELSE "FileSource"

\* laws: plain paths never fail; compression is decided by the extension alone for local paths; the mode matters only
\* for remote protocols and for None
ASSUME \A a \in Args : a.kind = "string" /\ a.proto = "" => Resolve(a, "read") = Resolve(a, "write") /\ Resolve(a, "read") # "AssertionError"
ASSUME \A a \in Args, m \in Modes : a.kind = "string" /\ a.proto = "" =>
          (Resolve(a, m) = "GzipSource" <=> a.ext \in {".gz", ".bgz"}) /\ (Resolve(a, m) = "BZ2Source" <=> a.ext = ".bz2")
ASSUME ndJsonSerialize(IOEnv.OUT, SetToSeq({[arg |-> a, mode |-> m, result |-> Resolve(a, m)] : a \in Args, m \in Modes}))
VARIABLE x
Init == x = 0
Next == FALSE /\ UNCHANGED x
=============================================================================
