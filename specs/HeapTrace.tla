----------------------------- MODULE HeapTrace -----------------------------
(***************************************************************************)
(* Trace validation for C03 (code -> spec).  One recorded execution = one  *)
(* real operator iterated (fully or partially) over sources made of        *)
(* mutable lists.  After construction and after EVERY next() the driver    *)
(* logs a heap snapshot: for each tracked object (source containers,       *)
(* header, every source row, every row delivered so far - kept alive) its  *)
(* identity and a content digest, and the set of objects frozen at that    *)
(* point.  The trace is accepted iff Heap!Immutable holds along it: no     *)
(* step changes the digest of an object that was frozen before the step.   *)
(***************************************************************************)
EXTENDS Naturals, Sequences, FiniteSets, Json, IOUtils, TLC
Trace == ndJsonDeserialize(IOEnv.TRACE_FILE)
VARIABLES tid, l, bad, who
vars == <<tid, l, bad, who>>
T == Trace[tid]
Init == tid \in 1..Len(Trace) /\ l = 1 /\ bad = 0 /\ who = 0
\* snapshots are sequences of <<object id, digest>>; objects keep their position once tracked (append-only)
Changed(prevSnap, nextSnap) == {k \in 1..Len(prevSnap) : nextSnap[k] # prevSnap[k]}
Step == /\ l < Len(T.snaps) /\ l' = l + 1 /\ UNCHANGED tid
        /\ LET c == Changed(T.snaps[l], T.snaps[l + 1]) IN
           /\ bad' = IF bad = 0 /\ c # {} THEN l ELSE bad
           /\ who' = IF bad = 0 /\ c # {} THEN CHOOSE k \in c : TRUE ELSE who
Next == Step
Done == l = Len(T.snaps)
Verdict == Done => PrintT(<<"VERDICT", tid, bad, who>>)
=============================================================================
