CONSTANTS MaxRows = 1
          RowVals = {1, 2, 3}
INIT Init
NEXT Next
INVARIANT ComplementIsBagDiff
INVARIANT IntersectionIsBagInter
INVARIANT SortedVariantsAscending
INVARIANT MatchesDefinition
INVARIANT Reassemble
