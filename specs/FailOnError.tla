---------------------------- MODULE FailOnError ----------------------------
(***************************************************************************)
(* C19: what a failing conversion / mapping becomes under the failonerror  *)
(* policy (petl/transform/conversions.py: iterfieldconvert; maps.py:       *)
(* iterfieldmap, iterrowmap, iterrowmapmany).                              *)
(*                                                                         *)
(* A table has NRows rows of two converted fields; Fail is the set of      *)
(* <<row, field>> cells whose converter raises.  policy is the effective   *)
(* failonerror value ("false" | "true" | "inline") wherever it came from   *)
(* (argument, or petl.config.failonerror read when the view is built).     *)
(* One Step = the operator processes one input row:                        *)
(*   convert / fieldmap : one output row; a failing cell becomes the       *)
(*                        errorvalue (false), the exception object         *)
(*                        (inline) or the exception surfaces (true)        *)
(*   rowmap             : the row mapper fails iff any cell of the row is  *)
(*                        in Fail: row dropped / [exception] / raised      *)
(*   rowmapmany         : the generator yields one output row per field    *)
(*                        and fails when it reaches a failing field: rows  *)
(*                        produced before are kept                         *)
(* Delivered items: <<r, c1, c2>> with c in {"ok", "errorvalue", "exc"}    *)
(* for convert/fieldmap; <<r, "ok">> / <<r, "exc">> for rowmap;            *)
(* <<r, f, "ok">> / <<r, f, "exc">> for rowmapmany.                        *)
(* convert(.., where=w): the rows in P.skip are excluded by w; their       *)
(* converters are NOT applied: the row passes through unchanged            *)
(* (<<r, "raw", "raw">>) and can never fail, whatever its cells are.       *)
(***************************************************************************)
EXTENDS Naturals, Sequences, FiniteSets, Json, TLC

CONSTANTS MaxRows, Ops, Policies
Fields == {1, 2}

VARIABLES P,      \* [n, fail, policy, op]  constant along a behaviour
          i,      \* input rows processed
          out,    \* delivered items
          pc,     \* "run" | "raised" | "done"
          last    \* items delivered by the last Step (for trace validation)
vars == <<P, i, out, pc, last>>

Cells(n) == (1..n) \X Fields
Init == /\ P \in {p \in [n : 0..MaxRows, fail : SUBSET Cells(MaxRows), policy : Policies, op : Ops, skip : SUBSET (1..MaxRows)] :
                     p.fail \subseteq Cells(p.n) /\ p.skip \subseteq 1..p.n /\ (p.op # "convert" => p.skip = {})}
        /\ i = 0 /\ out = <<>> /\ pc = "run" /\ last = <<>>

Skipped(r) == r \in P.skip
Fails(r, f) == <<r, f>> \in P.fail /\ ~Skipped(r)      \* a converter that is not applied cannot fail
RowFails(r) == Fails(r, 1) \/ Fails(r, 2)
CellOut(r, f) == IF ~Fails(r, f) THEN "ok" ELSE IF P.policy = "inline" THEN "exc" ELSE "errorvalue"

\* items delivered for input row r and whether the exception surfaces while producing them
Produced(r) ==
  CASE P.op \in {"convert", "fieldmap"} ->
         IF Skipped(r) THEN << <<r, "raw", "raw">> >>
         ELSE IF P.policy = "true" /\ RowFails(r) THEN <<>> ELSE << <<r, CellOut(r, 1), CellOut(r, 2)>> >>
    [] P.op = "rowmap" ->
         IF ~RowFails(r) THEN << <<r, "ok">> >>
         ELSE IF P.policy = "inline" THEN << <<r, "exc">> >> ELSE <<>>
    [] P.op = "rowmapmany" ->
         LET pre == IF Fails(r, 1) THEN <<>> ELSE IF Fails(r, 2) THEN << <<r, 1, "ok">> >>
                    ELSE << <<r, 1, "ok">>, <<r, 2, "ok">> >> IN
         IF RowFails(r) /\ P.policy = "inline"
         THEN pre \o << <<r, IF Fails(r, 1) THEN 1 ELSE 2, "exc">> >>
         ELSE pre
Surfaces(r) == P.policy = "true" /\ RowFails(r)

Step == /\ pc = "run" /\ i < P.n
        /\ i' = i + 1
        /\ last' = Produced(i + 1)
        /\ out' = out \o Produced(i + 1)
        /\ pc' = IF Surfaces(i + 1) THEN "raised" ELSE "run"
        /\ UNCHANGED P
Finish == /\ pc = "run" /\ i = P.n /\ pc' = "done" /\ last' = <<>> /\ UNCHANGED <<P, i, out>>
Next == Step \/ Finish
Spec == Init /\ [][Next]_vars
----------------------------------------------------------------------------
FirstFailingRow == IF \E r \in 1..P.n : RowFails(r) THEN CHOOSE r \in 1..P.n : RowFails(r) /\ \A q \in 1..(r - 1) : ~RowFails(q) ELSE 0
RowOf(item) == item[1]
\* failonerror False / 'inline': nothing is ever raised, every input row is processed
NothingRaised == P.policy # "true" => pc # "raised" /\ (pc = "done" => i = P.n)
\* failonerror True: the exception surfaces exactly when the first failing row is requested, after every
\* earlier row has been delivered
RaisedAtFirstFailure ==
  /\ (pc = "raised" => P.policy = "true" /\ i = FirstFailingRow
                       /\ \A r \in 1..(i - 1) : \E k \in 1..Len(out) : RowOf(out[k]) = r)
  /\ (P.policy = "true" /\ pc = "done" => FirstFailingRow = 0)
\* rows and cells that do not fail are the same under all three policies: a non-failing cell is always "ok",
\* a non-failing row is always delivered in full, in input order
NonFailingUntouched ==
  /\ \A k \in 1..Len(out) : LET it == out[k] IN
        P.op \in {"convert", "fieldmap"} => \A f \in Fields : ~Fails(it[1], f) => it[f + 1] = (IF Skipped(it[1]) THEN "raw" ELSE "ok")
  /\ \A k \in 1..(Len(out) - 1) : RowOf(out[k]) <= RowOf(out[k + 1])
  /\ (pc = "done" => \A r \in 1..P.n : ~RowFails(r) => \E k \in 1..Len(out) : RowOf(out[k]) = r)
\* convert / fieldmap keep the failing row (False, inline); rowmap / rowmapmany drop it under False
KeepOrDrop == pc = "done" /\ P.policy = "false" =>
   \A r \in 1..P.n : RowFails(r) =>
      IF P.op \in {"convert", "fieldmap"} THEN \E k \in 1..Len(out) : out[k][1] = r /\ "errorvalue" \in {out[k][2], out[k][3]}
      ELSE IF P.op = "rowmap" THEN \A k \in 1..Len(out) : out[k][1] # r
      ELSE \A k \in 1..Len(out) : out[k][1] = r => out[k][3] = "ok"

\* rows excluded by `where` are delivered unchanged and never make the view raise
ExcludedUntouched == \A r \in P.skip : r <= i => \E k \in 1..Len(out) : out[k] = <<r, "raw", "raw">>
Emit == pc \in {"raised", "done"} => PrintT(ToJson([n |-> P.n, fail |-> P.fail, policy |-> P.policy, op |-> P.op, skip |-> P.skip,
                                                     out |-> out, raised |-> pc = "raised", at |-> i]))
=============================================================================
