------------------------------ MODULE Utilities ------------------------------
(***************************************************************************)
(* Specification growth beyond the listed properties: utility functions of *)
(* petl as definitions + laws (evaluated by TLC as ASSUMEs) with case      *)
(* emission for replay.                                                    *)
(*  - validate(table, constraints, header): the problems table             *)
(*  - look / see: how many rows are shown and when the overflow marker     *)
(*    appears (_vis_overflow)                                              *)
(*  - counting: rowlengths, valuecounts, typecounts conserve the row count  *)
(* Cells are naturals; for validate a cell encodes how the constraint on   *)
(* its field judges it: 1 = passes, 2 = the test raises, 3 = the assertion *)
(* is false.                                                               *)
(***************************************************************************)
EXTENDS Naturals, Sequences, FiniteSets, SequencesExt, Json, IOUtils, TLC

CONSTANTS MaxRows

\* ---- validate ------------------------------------------------------------------------------------
\* header of 2 expected fields; constraint c1 = test on field 1, c2 = assertion on field 2, c3 = row-level assertion
\* (the row must not be <<1, 1>>... kept simple: row-level assertion fails iff the row has more than 2 cells)
Flat(ss) == FoldLeft(LAMBDA acc, x : acc \o x, <<>>, ss)
RowProblems(i, row) ==
  (IF Len(row) # 2 THEN << <<"__len__", i, "-", Len(row), "AssertionError">> >> ELSE <<>>)
  \* the row is wrapped in a Record: a field beyond the end of a short row reads as `missing` (None), on which both
  \* constraints pass - so a short row yields only the __len__ problem
  \o (IF Len(row) >= 1 /\ row[1] = 2 THEN << <<"c1", i, "f1", row[1], "ValueError">> >> ELSE <<>>)
  \o (IF Len(row) >= 2 /\ row[2] = 3 THEN << <<"c2", i, "f2", row[2], "AssertionError">> >> ELSE <<>>)
  \o (IF Len(row) > 2 THEN << <<"c3", i, "-", 0, "AssertionError">> >> ELSE <<>>)
Problems(headerOk, rows) ==
  (IF headerOk THEN <<>> ELSE << <<"__header__", 0, "-", 0, "AssertionError">> >>)
  \o Flat([i \in 1..Len(rows) |-> RowProblems(i, rows[i])])
VRows == {<<>>} \cup {<<a>> : a \in 1..3} \cup {<<a, b>> : a \in 1..3, b \in 1..3} \cup {<<1, 1, 1>>}
VTabs == UNION {[1..n -> VRows] : n \in 0..MaxRows}
\* a table whose every row is <<ok, ok>> under the right header has no problems; problems never mention other rows
ASSUME \A t \in VTabs : (\A i \in 1..Len(t) : t[i] \in {<<1, 1>>, <<3, 1>>, <<1, 2>>, <<3, 2>>}) <=> Problems(TRUE, t) = <<>>
ASSUME \A t \in VTabs : \A p \in 1..Len(Problems(TRUE, t)) : Problems(TRUE, t)[p][2] \in 1..Len(t)

\* ---- look / see -------------------------------------------------------------------------------------
\* _vis_overflow: with a limit, at most limit data rows are shown and the marker appears iff there are more
Shown(n, limit) == IF limit = 0 THEN n ELSE IF n < limit THEN n ELSE limit        \* limit = 0: no limit (lookall)
Overflow(n, limit) == limit # 0 /\ n > limit
\* rows pulled from the table (header included) to decide that: limit + 2 at most
Pulled(n, limit) == IF limit = 0 THEN n + 1 ELSE IF n + 1 < limit + 2 THEN n + 1 ELSE limit + 2
ASSUME \A n \in 0..8, l \in 1..5 : Pulled(n, l) <= l + 2 /\ (Overflow(n, l) <=> Shown(n, l) < n)

\* ---- counting ----------------------------------------------------------------------------------------
Count(s, x) == Cardinality({i \in 1..Len(s) : s[i] = x})
CountTable(s) == {<<x, Count(s, x)>> : x \in Range(s)}
ASSUME \A s \in UNION {[1..n -> 0..2] : n \in 0..4} :
          LET RECURSIVE Sum(_)
              Sum(S) == IF S = {} THEN 0 ELSE LET p == CHOOSE p \in S : TRUE IN p[2] + Sum(S \ {p})
          IN Sum(CountTable(s)) = Len(s)

ASSUME ndJsonSerialize(IOEnv.OUT, SetToSeq({[rows |-> t, ok |-> Problems(TRUE, t), badhdr |-> Problems(FALSE, t)] : t \in VTabs}))
ASSUME ndJsonSerialize(IOEnv.OUT2, SetToSeq({[n |-> n, limit |-> l, shown |-> Shown(n, l), overflow |-> Overflow(n, l), pulled |-> Pulled(n, l)] :
                                             n \in 0..8, l \in 0..5}))
VARIABLE x
Init == x = 0
Next == FALSE /\ UNCHANGED x
=============================================================================
