------------------------------ MODULE JoinGen ------------------------------
(***************************************************************************)
(* Definition-level row assembly for the joins (C06/C07) and case emission.*)
(* A case = (layout, op, missing, left rows, right rows) with the header   *)
(* and the rows the relational definition prescribes, in canonical order   *)
(* (key ascending, then left position, then right position).               *)
(*                                                                         *)
(* Layouts (1-based positions):                                            *)
(*   same     LH = (k, a)     RH = (k, b)     key = k                      *)
(*   diff     LH = (k, a)     RH = (b, j)     lkey = k, rkey = j           *)
(*   compound LH = (k, j, a)  RH = (k, j, b)  key = (k, j)                 *)
(* Cells: naturals, 0 = None.  Payload cells (a / b) are row identifiers   *)
(* >= 1000 computed here from the row position.                            *)
(***************************************************************************)
EXTENDS Tables, RelJoin, Sorting, Json, IOUtils, TLC

CONSTANTS KV,        \* key cell values
          MaxRect,   \* rectangular tables: up to MaxRect rows per side
          MaxRag     \* ragged tables: up to MaxRag rows per side

\*   cswap    LH = (k, j, a)  RH = (j, k, b)  key = (k, j)   (key order differs from the right header order)
LHdr(lay) == IF lay \in {"compound", "cswap"} THEN <<"k", "j", "a">> ELSE <<"k", "a">>
RHdr(lay) == CASE lay = "same" -> <<"k", "b">> [] lay = "diff" -> <<"b", "j">> [] lay = "compound" -> <<"k", "j", "b">>
               [] lay = "cswap" -> <<"j", "k", "b">>
LKeyIdx(lay) == IF lay \in {"compound", "cswap"} THEN <<1, 2>> ELSE <<1>>
RKeyIdx(lay) == CASE lay = "same" -> <<1>> [] lay = "diff" -> <<2>> [] lay = "compound" -> <<1, 2>> [] lay = "cswap" -> <<2, 1>>
RValIdx(lay) == CASE lay = "same" -> <<2>> [] lay = "diff" -> <<1>> [] lay = "compound" -> <<3>> [] lay = "cswap" -> <<3>>

Pick(row, idx) == [j \in 1..Len(idx) |-> row[idx[j]]]
Fill(n, v) == [j \in 1..n |-> v]

\* joins square both inputs up first (stack(.., missing)); antijoin reads its inputs as they are
SqAll(t, w, m) == [i \in 1..Len(t) |-> SquareUp(t[i], w, m)]
KeysSq(t, idx) == [i \in 1..Len(t) |-> Pick(t[i], idx)]
\* antijoin: comparable_itemgetter with default None on the raw (possibly short) row
KeysRaw(t, idx) == [i \in 1..Len(t) |-> RawKey(t[i], idx)]

AsOrd(k) == IF Len(k) = 1 THEN CellVal(k[1]) ELSE SeqV([j \in 1..Len(k) |-> CellVal(k[j])])

Assemble(p, lay, L, R, m) ==   \* one output row for the pair p = <<l, r>>
  LET lw == Len(LHdr(lay))  rv == RValIdx(lay) IN
  IF p[2] = 0 THEN L[p[1]] \o Fill(Len(rv), m)
  ELSE IF p[1] = 0
       THEN [j \in 1..lw |->
               IF \E q \in 1..Len(LKeyIdx(lay)) : LKeyIdx(lay)[q] = j
               THEN R[p[2]][RKeyIdx(lay)[CHOOSE q \in 1..Len(LKeyIdx(lay)) : LKeyIdx(lay)[q] = j]]
               ELSE m] \o Pick(R[p[2]], rv)
       ELSE L[p[1]] \o Pick(R[p[2]], rv)

PairKeyOf(p, LK, RK) == IF p[1] # 0 THEN LK[p[1]] ELSE RK[p[2]]
PairLess(p, q, LK, RK) ==
  LET a == AsOrd(PairKeyOf(p, LK, RK))  b == AsOrd(PairKeyOf(q, LK, RK)) IN
  \/ Lt(a, b)
  \/ (~Lt(b, a) /\ (p[1] < q[1] \/ (p[1] = q[1] /\ p[2] < q[2])))

JoinCase(lay, o, m, Lraw, Rraw) ==
  LET anti == o = "anti"
      L == IF anti THEN Lraw ELSE SqAll(Lraw, Len(LHdr(lay)), m)
      R == IF anti THEN Rraw ELSE SqAll(Rraw, Len(RHdr(lay)), m)
      LK == IF anti THEN KeysRaw(L, LKeyIdx(lay)) ELSE KeysSq(L, LKeyIdx(lay))
      RK == IF anti THEN KeysRaw(R, RKeyIdx(lay)) ELSE KeysSq(R, RKeyIdx(lay))
      pairs == SetToSortSeq(RelJoinSet(o, LK, RK), LAMBDA p, q : PairLess(p, q, LK, RK))
  IN [lay |-> lay, op |-> o, missing |-> m, left |-> Lraw, right |-> Rraw,
      hdr |-> IF anti THEN [j \in 1..Len(LHdr(lay)) |-> <<"L", LHdr(lay)[j]>>]
              ELSE [j \in 1..Len(LHdr(lay)) |-> <<"L", LHdr(lay)[j]>>]
                   \o [j \in 1..Len(RValIdx(lay)) |-> <<"R", RHdr(lay)[RValIdx(lay)[j]]>>],
      pairs |-> pairs,
      \* hash joins: rows in the order of the streamed side (right for "right", else left),
      \* partners in table order
      hrows |-> LET hp == SetToSortSeq(RelJoinSet(o, LK, RK), LAMBDA p, q :
                            IF o = "right" THEN p[2] < q[2] \/ (p[2] = q[2] /\ p[1] < q[1])
                            ELSE p[1] < q[1] \/ (p[1] = q[1] /\ p[2] < q[2]))
                IN [i \in 1..Len(hp) |-> IF anti THEN L[hp[i][1]] ELSE Assemble(hp[i], lay, L, R, m)],
      rows |-> [i \in 1..Len(pairs) |->
                  IF anti THEN L[pairs[i][1]] ELSE Assemble(pairs[i], lay, L, R, m)],
      keys |-> [i \in 1..Len(pairs) |-> PairKeyOf(pairs[i], LK, RK)]]

\* ---- input spaces -----------------------------------------------------------------------------
Id(side, i) == 1000 + side * 100 + i
\* rectangular single-key tables: row i = <<k, id>>  (diff layout stores the right row as <<id, k>>)
RectL(ks) == [i \in 1..Len(ks) |-> <<ks[i], Id(1, i)>>]
RectR(ks, lay) == [i \in 1..Len(ks) |-> IF lay = "diff" THEN <<Id(2, i), ks[i]>> ELSE <<ks[i], Id(2, i)>>]
KeySeqs(n) == SeqsUpTo(KV, n)

Ops == {"join", "left", "right", "outer", "anti", "lookup"}

RectCases == {JoinCase(lay, o, 0, RectL(lk), RectR(rk, lay)) :
                 lk \in KeySeqs(MaxRect), rk \in KeySeqs(MaxRect), o \in Ops, lay \in {"same"}}
DiffCases == {JoinCase("diff", o, 0, RectL(lk), RectR(rk, "diff")) :
                 lk \in KeySeqs(2), rk \in KeySeqs(2), o \in Ops}

\* ragged shapes: full, short (payload absent), empty (key absent too), long (extra cell, trimmed)
Shapes(side) == {<<"full", k>> : k \in KV} \cup {<<"short", 1>>, <<"empty", 0>>, <<"long", 2>>}
MkRow(sh, side, i) ==
  CASE sh[1] = "full"  -> <<sh[2], Id(side, i)>>
    [] sh[1] = "short" -> <<sh[2]>>
    [] sh[1] = "empty" -> <<>>
    [] sh[1] = "long"  -> <<sh[2], Id(side, i), 1999>>
RagTables(side) == {[i \in 1..Len(s) |-> MkRow(s[i], side, i)] : s \in SeqsUpTo(Shapes(side), MaxRag)}
\* join() and antijoin() take no `missing` argument (they pad with None)
RagCases == {JoinCase("same", c[1], c[2], L, R) : L \in RagTables(1), R \in RagTables(2),
               c \in {oc \in Ops \X {0, 2} : oc[2] = 0 \/ oc[1] \notin {"join", "anti"}}}

\* compound keys over {0, 1}
CKeys == {<<x, y>> : x, y \in {0, 1}}
CompL(ks) == [i \in 1..Len(ks) |-> <<ks[i][1], ks[i][2], Id(1, i)>>]
CompR(ks) == [i \in 1..Len(ks) |-> <<ks[i][1], ks[i][2], Id(2, i)>>]
CompCases == {JoinCase("compound", o, 0, CompL(lk), CompR(rk)) :
                 lk \in SeqsUpTo(CKeys, 2), rk \in SeqsUpTo(CKeys, 2), o \in Ops}
\* right rows stored as <<j, k, id>>
CompRSwap(ks) == [i \in 1..Len(ks) |-> <<ks[i][2], ks[i][1], Id(2, i)>>]
CSwapCases == {JoinCase("cswap", o, 0, CompL(lk), CompRSwap(rk)) :
                 lk \in SeqsUpTo(CKeys, 2), rk \in SeqsUpTo(CKeys, 2), o \in Ops}

\* crossjoin: cartesian product of the squared-up rows, in nested-loop order
RECURSIVE Cross(_)
Cross(ts) == IF Len(ts) = 0 THEN <<<<>>>>
             ELSE LET rest == Cross(Tail(ts)) IN
                  FoldLeft(LAMBDA acc, row : acc \o [j \in 1..Len(rest) |-> row \o rest[j]], <<>>, Head(ts))
CrossCase(ts, m) == [tables |-> ts, missing |-> m,
                     rows |-> Cross([i \in 1..Len(ts) |-> SqAll(ts[i], 2, m)])]
XTables == {[i \in 1..Len(s) |-> MkRow(s[i], 1, i)] : s \in SeqsUpTo({<<"full", 1>>, <<"short", 1>>, <<"empty", 0>>, <<"long", 2>>}, 2)}
CrossCases == {CrossCase(<<t1, t2>>, m) : t1, t2 \in XTables, m \in {0, 2}}
              \cup {CrossCase(<<t1, t2, t3>>, 0) : t1, t2, t3 \in {<<>>, <<<<1, 1001>>>>, <<<<1>>, <<2, 1002>>>>}}

ASSUME ndJsonSerialize(IOEnv.OUT, SetToSeq(RectCases) \o SetToSeq(DiffCases) \o SetToSeq(RagCases) \o SetToSeq(CompCases) \o SetToSeq(CSwapCases))
ASSUME ndJsonSerialize(IOEnv.OUT2, SetToSeq(CrossCases))

\* lookups (C07): key -> positions of all its rows in table order; dup = some key repeats
PositionsOf(ks, k) == SelectSeq([j \in 1..Len(ks) |-> j], LAMBDA j : ks[j] = k)
LookupCase(ks) == [keys |-> ks,
                   groups |-> SetToSeq({<<k, PositionsOf(ks, k)>> : k \in Range(ks)}),
                   dup |-> \E a, b \in 1..Len(ks) : a # b /\ ks[a] = ks[b]]
ASSUME ndJsonSerialize(IOEnv.OUT3, SetToSeq({LookupCase(ks) : ks \in SeqsUpTo(KV, 4)})
                                   \o SetToSeq({LookupCase(ks) : ks \in SeqsUpTo(CKeys, 3)}))
VARIABLE x
Init == x = 0
Next == FALSE /\ UNCHANGED x
=============================================================================
