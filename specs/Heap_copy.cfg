CONSTANTS NSrc = 3
          Idiom = "copy"
INIT Init
NEXT Next
PROPERTY Immutable
INVARIANT SourcesIntact
