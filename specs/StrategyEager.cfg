CONSTANTS MaxSteps = 6
          MaxRows = 5
          CVariant = "eager"
          Vals = {0, 1, 2}
VIEW ViewNoHist
INIT Init
NEXT Next
INVARIANT NoCacheFresh
INVARIANT ReadsAreCurrent
INVARIANT PassesAreComplete
INVARIANT CacheIsWhole
PROPERTY CacheReplays
