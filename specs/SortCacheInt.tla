---------------------------- MODULE SortCacheInt ----------------------------
(***************************************************************************)
(* Integer abstraction of SortCache.tla (SortView's cache fields shared by  *)
(* several live iterators) for an UNBOUNDED number M of sorted items, every *)
(* cache flag and both paths ("mem" / "file"); its inductive invariant is   *)
(* discharged by Apalache (C01; DESIGN.md section 8).  Every delivery in    *)
(* SortCache appends Len + 1, so del[i] is always <<1..dlen[i]>>: only the  *)
(* length is kept.  SortCacheRef.tla (TLC) shows that SortCache implements  *)
(* this module under  dlen <- [i |-> Len(del[i])].                          *)
(***************************************************************************)
EXTENDS Integers

CONSTANTS
    \* @type: Int;
    M,
    \* @type: Str;
    Path,
    \* @type: Bool;
    CacheFlag,
    \* @type: Str;
    Variant

VARIABLES
    \* @type: Str;
    cstate,
    \* @type: Int -> Str;
    st,
    \* @type: Int -> Str;
    kind,
    \* @type: Int -> Bool;
    bound,
    \* @type: Int -> Int;
    n,
    \* @type: Int -> Int;
    dlen

vars == <<cstate, st, kind, bound, n, dlen>>
Its == 1..3
ConstInit == M \in Nat /\ Path \in {"mem", "file"} /\ CacheFlag \in BOOLEAN /\ Variant = "fixed"

Init == /\ cstate = "none"
        /\ st = [i \in Its |-> "unborn"] /\ kind = [i \in Its |-> "nocache"]
        /\ bound = [i \in Its |-> FALSE] /\ n = [i \in Its |-> 0] /\ dlen = [i \in Its |-> 0]

Iter(i) ==
  /\ st[i] = "unborn" /\ (\A j \in Its : j < i => st[j] # "unborn")
  /\ st' = [st EXCEPT ![i] = "fresh"]
  /\ kind' = [kind EXCEPT ![i] = IF CacheFlag /\ cstate = "mem" THEN "frommem"
                                 ELSE IF CacheFlag /\ cstate = "file" THEN "fromfile" ELSE "nocache"]
  /\ bound' = [bound EXCEPT ![i] = Variant = "fixed" /\ CacheFlag /\ cstate # "none"]
  /\ UNCHANGED <<cstate, n, dlen>>

Deliver(i) == IF dlen[i] < M
              THEN dlen' = [dlen EXCEPT ![i] = @ + 1] /\ st' = [st EXCEPT ![i] = "run"]
              ELSE st' = [st EXCEPT ![i] = "done"] /\ UNCHANGED dlen
Crash(i) == st' = [st EXCEPT ![i] = "crash"] /\ UNCHANGED dlen

NextNoCache(i) ==
  /\ st[i] \in {"fresh", "run"} /\ kind[i] = "nocache"
  /\ n' = [n EXCEPT ![i] = @ + 1]
  /\ cstate' = IF n[i] = 0 THEN "none"
               ELSE IF n[i] = 1 /\ CacheFlag /\ M >= 1 THEN Path
               ELSE cstate
  /\ Deliver(i)
  /\ UNCHANGED <<kind, bound>>

Needs(i) == n[i] <= 1 /\ ~bound[i]
NextFromCache(i) ==
  /\ st[i] \in {"fresh", "run"} /\ kind[i] \in {"frommem", "fromfile"}
  /\ n' = [n EXCEPT ![i] = @ + 1]
  /\ IF Needs(i) /\ cstate # (IF kind[i] = "frommem" THEN "mem" ELSE "file")
     THEN Crash(i) /\ UNCHANGED bound
     ELSE Deliver(i) /\ bound' = [bound EXCEPT ![i] = @ \/ n[i] = 1]
  /\ UNCHANGED <<cstate, kind>>

Drop(i) == /\ st[i] \in {"fresh", "run"}
           /\ st' = [st EXCEPT ![i] = "dropped"]
           /\ UNCHANGED <<cstate, kind, bound, n, dlen>>

Next == \E i \in Its : Iter(i) \/ NextNoCache(i) \/ NextFromCache(i) \/ Drop(i)
Spec == Init /\ [][Next]_vars
----------------------------------------------------------------------------
NoCrash == \A i \in Its : st[i] # "crash"
Independent == \A i \in Its : dlen[i] <= M
ExhaustedIsComplete == \A i \in Its : st[i] = "done" => dlen[i] = M
Safe == NoCrash /\ Independent /\ ExhaustedIsComplete

TypeOK == /\ cstate \in {"none", "mem", "file"}
          /\ st \in [Its -> {"unborn", "fresh", "run", "done", "dropped", "crash"}]
          /\ kind \in [Its -> {"nocache", "frommem", "fromfile"}]
          /\ bound \in [Its -> BOOLEAN] /\ n \in [Its -> Nat] /\ dlen \in [Its -> Nat]
IndInv ==
  /\ TypeOK
  /\ \A i \in Its :
       /\ st[i] # "crash" /\ dlen[i] <= M
       /\ st[i] = "done" => dlen[i] = M
       \* a cache-serving iterator holds its own references from iter() on
       /\ kind[i] \in {"frommem", "fromfile"} /\ st[i] \in {"fresh", "run"} => bound[i]
IndInit == IndInv
=============================================================================
