CONSTANTS NSrc = 3
          Idiom = "carry"
INIT Init
NEXT Next
PROPERTY Immutable
INVARIANT SourcesIntact
