------------------------------ MODULE ExtSort ------------------------------
(***************************************************************************)
(* petl.transform.sorts.SortView: the chunked external sort, transcribed   *)
(* action by action from SortView._iternocache / _iterfrommemcache /       *)
(* _iterfromfilecache and the two merge routines.                          *)
(*                                                                         *)
(* Rows are identified by their input position 1..n; K[i] is the key of    *)
(* row i (a natural; 0 stands for None - on this domain the ordering of    *)
(* C04 restricted to {None} + numbers coincides with < on naturals, which  *)
(* is checked against Ordering.tla by ASSUME below).                       *)
(*                                                                         *)
(* Design-level property (C05): whatever the buffersize, reverse flag,     *)
(* cache flag and pass number, the delivered sequence is THE stable order  *)
(* of the input (Sorting!IsStableOrder).                                   *)
(***************************************************************************)
EXTENDS Naturals, Sequences, FiniteSets, SequencesExt, Sorting

CONSTANTS MaxRows,      \* tables have 0..MaxRows data rows
          Vals,         \* key values (naturals, 0 = None)
          Passes        \* number of passes over the view (1 or 2)

KeyVal(n) == IF n = 0 THEN NoneV ELSE Scalar("num", n)
ASSUME \A x, y \in Vals : (x < y) <=> Lt(KeyVal(x), KeyVal(y))

VARIABLES
  K,          \* input keys, K[i] = key of row i
  B,          \* buffersize; 0 encodes None (everything in memory)
  reverse, cache,
  pc,         \* control point
  pos,        \* number of source rows consumed by this pass
  rows,       \* current chunk (row ids, sorted)
  chunks,     \* this pass's dumped chunk files (sequence of sorted id sequences)
  heads,      \* merge: per chunk, index of the next unread element
  out,        \* rows delivered by the current pass
  pass,       \* pass number
  memcache, filecache, \* the view's cache fields (<<>> / "none" marker via hasmem, hasfile)
  hasmem, hasfile

vars == <<K, B, reverse, cache, pc, pos, rows, chunks, heads, out, pass, memcache, filecache, hasmem, hasfile>>

N == Len(K)
KeysOf(ids) == [i \in 1..Len(ids) |-> KeyVal(K[ids[i]])]
AllKeys == [i \in 1..N |-> KeyVal(K[i])]

\* list.sort(key=getkey, reverse=reverse): stable (Python guarantees it, also with reverse=True)
SortChunk(ids) == Apply(StableOrder(KeysOf(ids), reverse), ids)

\* itertools.islice(it, 0, buffersize): up to B further rows; all remaining rows when B is None
TakeCount == IF B = 0 THEN N - pos ELSE IF N - pos < B THEN N - pos ELSE B
NextChunkIds == [i \in 1..TakeCount |-> pos + i]

Init ==
  /\ K \in UNION {[1..n -> Vals] : n \in 0..MaxRows}
  /\ B \in 0..(MaxRows + 1)
  /\ reverse \in BOOLEAN
  /\ cache \in BOOLEAN
  /\ pc = "iter" /\ pos = 0 /\ rows = <<>> /\ chunks = <<>> /\ heads = <<>> /\ out = <<>>
  /\ pass = 1
  /\ memcache = <<>> /\ filecache = <<>> /\ hasmem = FALSE /\ hasfile = FALSE

\* SortView.__iter__: choose the generator from the cache fields
Iter ==
  /\ pc = "iter"
  /\ IF cache /\ hasmem THEN pc' = "frommem"
     ELSE IF cache /\ hasfile THEN pc' = "fromfile"
     ELSE pc' = "nocache"
  /\ UNCHANGED <<K, B, reverse, cache, pos, rows, chunks, heads, out, pass, memcache, filecache, hasmem, hasfile>>

\* _iternocache: clearcache(), header, first chunk read + sorted
FirstChunk ==
  /\ pc = "nocache"
  /\ hasmem' = FALSE /\ hasfile' = FALSE /\ memcache' = <<>> /\ filecache' = <<>>
  /\ rows' = SortChunk(NextChunkIds)
  /\ pos' = pos + TakeCount
  /\ pc' = "decide"
  /\ UNCHANGED <<K, B, reverse, cache, chunks, heads, out, pass>>

\* `if self.buffersize is None or len(rows) < self.buffersize`: table fits the buffer
DecideMem ==
  /\ pc = "decide"
  /\ (B = 0 \/ Len(rows) < B)
  /\ IF cache THEN hasmem' = TRUE /\ memcache' = rows ELSE UNCHANGED <<hasmem, memcache>>
  /\ out' = rows
  /\ pc' = "passdone"
  /\ UNCHANGED <<K, B, reverse, cache, pos, rows, chunks, heads, pass, filecache, hasfile>>

DecideDisk ==
  /\ pc = "decide"
  /\ ~(B = 0 \/ Len(rows) < B)
  /\ pc' = "dump"
  /\ UNCHANGED <<K, B, reverse, cache, pos, rows, chunks, heads, out, pass, memcache, filecache, hasmem, hasfile>>

\* `while rows:` dump the chunk, grab and sort the next one
DumpChunk ==
  /\ pc = "dump"
  /\ rows # <<>>
  /\ chunks' = Append(chunks, rows)
  /\ rows' = SortChunk(NextChunkIds)
  /\ pos' = pos + TakeCount
  /\ UNCHANGED <<K, B, reverse, cache, pc, heads, out, pass, memcache, filecache, hasmem, hasfile>>

EndDump ==
  /\ pc = "dump"
  /\ rows = <<>>
  /\ IF cache THEN hasfile' = TRUE /\ filecache' = chunks ELSE UNCHANGED <<hasfile, filecache>>
  /\ heads' = [c \in 1..Len(chunks) |-> 1]
  /\ pc' = "merge"
  /\ UNCHANGED <<K, B, reverse, cache, pos, rows, chunks, out, pass, memcache, hasmem>>

(* One step of _mergesorted over the open chunk iterators.                  *)
(* forward: heapq.merge over _Keyed items - smallest key, ties by iterable  *)
(* index.  reverse: _shortlistmergesorted with max(key=...) - the FIRST     *)
(* maximal head in shortlist order.  Both pick the lowest chunk index among *)
(* the extremal heads.                                                      *)
Live == {c \in 1..Len(chunks) : heads[c] <= Len(chunks[c])}
HeadKey(c) == KeyVal(K[chunks[c][heads[c]]])
Extremal(c) == \A d \in Live : IF reverse THEN ~Lt(HeadKey(c), HeadKey(d)) ELSE ~Lt(HeadKey(d), HeadKey(c))
Pick == CHOOSE c \in Live : Extremal(c) /\ \A d \in Live : Extremal(d) => c <= d

MergeStep ==
  /\ pc = "merge"
  /\ Live # {}
  /\ out' = Append(out, chunks[Pick][heads[Pick]])
  /\ heads' = [heads EXCEPT ![Pick] = @ + 1]
  /\ UNCHANGED <<K, B, reverse, cache, pc, pos, rows, chunks, pass, memcache, filecache, hasmem, hasfile>>

EndMerge ==
  /\ pc = "merge"
  /\ Live = {}
  /\ pc' = "passdone"
  /\ UNCHANGED <<K, B, reverse, cache, pos, rows, chunks, heads, out, pass, memcache, filecache, hasmem, hasfile>>

\* _iterfrommemcache
FromMem ==
  /\ pc = "frommem"
  /\ out' = memcache
  /\ pc' = "passdone"
  /\ UNCHANGED <<K, B, reverse, cache, pos, rows, chunks, heads, pass, memcache, filecache, hasmem, hasfile>>

\* _iterfromfilecache: reopen every chunk file and merge again
FromFile ==
  /\ pc = "fromfile"
  /\ chunks' = filecache
  /\ heads' = [c \in 1..Len(filecache) |-> 1]
  /\ pc' = "merge"
  /\ UNCHANGED <<K, B, reverse, cache, pos, rows, out, pass, memcache, filecache, hasmem, hasfile>>

NextPass ==
  /\ pc = "passdone"
  /\ pass < Passes
  /\ pass' = pass + 1
  /\ pc' = "iter" /\ pos' = 0 /\ rows' = <<>> /\ chunks' = <<>> /\ heads' = <<>> /\ out' = <<>>
  /\ UNCHANGED <<K, B, reverse, cache, memcache, filecache, hasmem, hasfile>>

Next == Iter \/ FirstChunk \/ DecideMem \/ DecideDisk \/ DumpChunk \/ EndDump \/ MergeStep \/ EndMerge
        \/ FromMem \/ FromFile \/ NextPass

Spec == Init /\ [][Next]_vars

----------------------------------------------------------------------------
\* C05: every completed pass delivers THE stable order of the input
SortCorrect == pc = "passdone" => IsStableOrder(out, AllKeys, reverse)
\* the constructive definition used for case generation equals the declarative one
DefsAgree == pc = "passdone" => out = StableOrder(AllKeys, reverse)
\* every chunk on disk is individually sorted and chunks partition a prefix of the input
ChunksSorted == \A c \in 1..Len(chunks) : IsStableOrder(StableOrder(KeysOf(chunks[c]), reverse), KeysOf(chunks[c]), reverse)
                                          /\ chunks[c] = SortChunk(chunks[c])
\* the disk path is taken exactly when nrows >= buffersize (boundary clause of C05)
PathRule == pc = "passdone" /\ pass = 1 => ((chunks # <<>>) <=> (B # 0 /\ N >= B))
\* cache serves only what a completed pass stored
CacheRule == (hasmem => cache) /\ (hasfile => cache) /\ ~(hasmem /\ hasfile)
=============================================================================
