----------------------------- MODULE OrderingMC -----------------------------
(* Exhaustive check of the C04 laws over all pairs and triples of the bounded universe. *)
EXTENDS OrderingU
VARIABLES a, b, c, pc
vars == <<a, b, c, pc>>

Init == a \in U /\ b \in U /\ c \in U /\ pc = "pick"
\* every initial state is one (a, b, c) triple; there is nothing to step through
Next == FALSE /\ UNCHANGED vars
Spec == Init /\ [][Next]_vars

InvIrreflexive == Irreflexive(a)
InvAsymmetric == Asymmetric(a, b)
InvTransitive == Transitive(a, b, c)
InvEquivTransitive == EquivTransitive(a, b, c)
InvEquivIsEq == EquivIsEq(a, b)
InvTrichotomy == Trichotomy(a, b)
InvDerived == DerivedConsistent(a, b)
InvNoneMinimal == NoneMinimal(a)
InvNumBelowRest == NumBelowRest(a, b)
InvBytesBeforeText == BytesBeforeText(a, b)
InvNative == NativeWithinClass(a, b)
\* vacuity witnesses: must be *violated* (checked by the harness with a separate cfg)
WitnessSomeLt == ~(Lt(a, b) /\ Lt(b, c) /\ a.c # b.c /\ b.c # c.c)
=============================================================================
