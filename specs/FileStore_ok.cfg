CONSTANTS MaxRows = 2
          MaxOps = 3
          Variant = "ok"
VIEW View
INIT Init
NEXT Next
INVARIANT StoreCorrect
INVARIANT RoundTrip
INVARIANT TeeTransparent
PROPERTY AppendExtends
