---------------------------- MODULE SortCacheRef ----------------------------
(* Refinement: SortCache.tla (sequence level, bound to the code) implements SortCacheInt.tla (integer abstraction whose *)
(* inductive invariant Apalache proves for every M).  Checked by TLC: PROPERTY AbsSpec.                                *)
EXTENDS SortCache
Abs == INSTANCE SortCacheInt WITH dlen <- [i \in Its |-> Len(del[i])]
AbsSpec == Abs!Spec
AbsSafe == Abs!Safe
=============================================================================
