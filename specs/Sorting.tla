------------------------------ MODULE Sorting ------------------------------
(***************************************************************************)
(* Definition-level sorting vocabulary over the Ordering of C04.           *)
(* Keys are Ordering values; sequences of keys are indexed 1..n; a sort    *)
(* result is expressed as a permutation of input positions so that         *)
(* stability and multiplicity are explicit.                                *)
(***************************************************************************)
EXTENDS Ordering, FiniteSets, SequencesExt, Functions

IsPermOf(p, n) == /\ Len(p) = n
                  /\ \A i \in 1..n : p[i] \in 1..n
                  /\ \A i, j \in 1..n : i # j => p[i] # p[j]

Equivalent(x, y) == ~Lt(x, y) /\ ~Lt(y, x)

(* p is THE stable ascending (reverse: descending) order of keys: adjacent   *)
(* elements are in order, and elements with equivalent keys keep their input *)
(* order (also under reverse -- Python's list.sort(reverse=True) and petl's  *)
(* chunk merge both keep ties in input order).                               *)
IsStableOrder(p, keys, reverse) ==
  /\ IsPermOf(p, Len(keys))
  /\ \A i \in 1..(Len(p) - 1) :
        LET x == keys[p[i]]  y == keys[p[i + 1]] IN
        /\ IF reverse THEN ~Lt(x, y) ELSE ~Lt(y, x)
        /\ Equivalent(x, y) => p[i] < p[i + 1]

\* constructive version (insertion of position i into an already stable order)
RECURSIVE InsertPos(_, _, _, _)
InsertPos(p, i, keys, reverse) ==
  \* insert i after every element that must precede it: all elements e with
  \* key(e) <= key(i) (ascending) / key(e) >= key(i) (descending); ties: e < i precede
  IF p = <<>> THEN <<i>>
  ELSE LET e == Head(p)
           before == IF reverse THEN ~Lt(keys[e], keys[i]) ELSE ~Lt(keys[i], keys[e])
       IN IF before THEN <<e>> \o InsertPos(Tail(p), i, keys, reverse)
          ELSE <<i>> \o p

RECURSIVE StableOrderUpTo(_, _, _)
StableOrderUpTo(n, keys, reverse) ==
  IF n = 0 THEN <<>> ELSE InsertPos(StableOrderUpTo(n - 1, keys, reverse), n, keys, reverse)

StableOrder(keys, reverse) == StableOrderUpTo(Len(keys), keys, reverse)

Apply(p, seq) == [i \in 1..Len(p) |-> seq[p[i]]]

IsSortedKeys(keys, reverse, strict) ==
  \A i \in 1..(Len(keys) - 1) :
    LET x == keys[i]  y == keys[i + 1] IN
    IF reverse THEN (IF strict THEN Lt(y, x) ELSE ~Lt(x, y))
               ELSE (IF strict THEN Lt(x, y) ELSE ~Lt(y, x))
=============================================================================
