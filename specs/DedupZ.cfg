CONSTANTS MaxRows = 1
          KeyVals = {0, 1, 2}
          ValVals = {0, 1, 2}
          Variant = "fixed"
INIT Init
NEXT Next
INVARIANT NoCrash
INVARIANT DuplicatesCorrect
INVARIANT UniqueCorrect
INVARIANT DistinctCorrect
INVARIANT CountsCorrect
INVARIANT ConflictsSound
INVARIANT Partition
