------------------------------- MODULE Tables -------------------------------
(***************************************************************************)
(* Table vocabulary shared by the operator specifications.                 *)
(* A row is a sequence of cells; cells are naturals, 0 standing for None   *)
(* (the `missing` default).  Rows may be ragged.  Field positions are      *)
(* 1-based here (Python index + 1).                                        *)
(***************************************************************************)
EXTENDS Naturals, Sequences, FiniteSets, SequencesExt, Ordering

None == 0
CellVal(n) == IF n = None THEN NoneV ELSE Scalar("num", n)

\* _itemgetter_with_default: a cell beyond the end of a short row reads as None
Cell(row, i) == IF i <= Len(row) THEN row[i] ELSE None

\* comparable_itemgetter(*indices): one index -> the cell itself, several -> a tuple
KeyOf(row, idx) ==
  IF Len(idx) = 1 THEN CellVal(Cell(row, idx[1]))
  ELSE SeqV([j \in 1..Len(idx) |-> CellVal(Cell(row, idx[j]))])

\* raw (unwrapped) key as a sequence of cells, for equality-based grouping
RawKey(row, idx) == [j \in 1..Len(idx) |-> Cell(row, idx[j])]

\* rows squared up to `w` cells: padded with `missing`, trimmed if longer (basics.stack / cat)
SquareUp(row, w, missing) == [j \in 1..w |-> IF j <= Len(row) THEN row[j] ELSE missing]

\* all rows of length lo..hi over a cell alphabet
RowsOver(cells, lo, hi) == UNION {[1..n -> cells] : n \in lo..hi}
\* all sequences of 0..n elements of S
SeqsUpTo(S, n) == UNION {[1..k -> S] : k \in 0..n}

\* bag (multiset) of the elements of a sequence, as a function elem -> count
BagOf(seq) == [x \in Range(seq) |-> Cardinality({i \in 1..Len(seq) : seq[i] = x})]
=============================================================================
