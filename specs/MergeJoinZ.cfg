CONSTANTS MaxRows = 1
          Vals = {0, 1, 2}
          Ops = {"join", "left", "right", "outer", "anti", "lookup"}
          Variant = "fixed"
INIT Init
NEXT Next
INVARIANT NoCrash
INVARIANT JoinCorrect
INVARIANT KeyAscending
INVARIANT GroupOrder
