CONSTANTS Cells = {0, 1, 2}
          MaxRows = 2
INIT Init
NEXT Next
