---------------------------- MODULE CacheViewInt ----------------------------
(***************************************************************************)
(* Integer abstraction of CacheView.tla (petl.util.materialise.CacheView)  *)
(* for an UNBOUNDED inner table (M any natural) and an unbounded limit n,  *)
(* discharged with an inductive invariant by Apalache (C01, thorough tier; *)
(* DESIGN.md section 8).  A sequence that is a prefix <<1, .., k>> of the  *)
(* solo pass is represented by its length k and a flag that records        *)
(* whether it ever stopped being such a prefix:                            *)
(*     cache  ->  clen, cbad          del[i]  ->  dlen[i], dbad[i]         *)
(* Appending the value p + 1 to <<1..k>> keeps the prefix shape iff k = p. *)
(* That CacheView.tla implements this module under exactly this mapping is *)
(* checked by TLC (CacheViewRef.cfg: PROPERTY Abs!Spec), so the invariants *)
(* proved here for every M carry over to the sequence-level model that is  *)
(* bound to the code by replay and trace validation.                       *)
(***************************************************************************)
EXTENDS Integers

CONSTANTS
    \* @type: Int;
    M,
    \* @type: Int;
    Limit,
    \* @type: Str;
    Variant

VARIABLES
    \* @type: Int;
    clen,
    \* @type: Bool;
    cbad,
    \* @type: Bool;
    complete,
    \* @type: Int -> Str;
    st,
    \* @type: Int -> Int;
    idx,
    \* @type: Int -> Int;
    ipos,
    \* @type: Int -> Int;
    dlen,
    \* @type: Int -> Bool;
    dbad

vars == <<clen, cbad, complete, st, idx, ipos, dlen, dbad>>
Its == 1..3
States == {"unborn", "p1", "p2", "done", "dropped"}

ConstInit == M \in Nat /\ Limit \in Nat /\ Variant = "fixed"

Init == /\ clen = 0 /\ cbad = FALSE /\ complete = FALSE
        /\ st = [i \in Its |-> "unborn"] /\ idx = [i \in Its |-> 0] /\ ipos = [i \in Its |-> 0]
        /\ dlen = [i \in Its |-> 0] /\ dbad = [i \in Its |-> FALSE]

Iter(i) == /\ st[i] = "unborn" /\ (\A j \in Its : j < i => st[j] # "unborn")
           /\ st' = [st EXCEPT ![i] = "p1"]
           /\ UNCHANGED <<clen, cbad, complete, idx, ipos, dlen, dbad>>

Room == Limit = 0 \/ clen < Limit

\* delivers cache[idx + 1]: the right value (dlen + 1) if the cache is a sound prefix and idx = dlen
NextCached(i) ==
  /\ st[i] = "p1" /\ idx[i] < clen
  /\ dbad' = [dbad EXCEPT ![i] = @ \/ cbad \/ idx[i] # dlen[i]]
  /\ dlen' = [dlen EXCEPT ![i] = @ + 1]
  /\ idx' = [idx EXCEPT ![i] = @ + 1]
  /\ UNCHANGED <<clen, cbad, complete, st, ipos>>

StopComplete(i) ==
  /\ st[i] = "p1" /\ idx[i] = clen /\ complete
  /\ st' = [st EXCEPT ![i] = "done"]
  /\ UNCHANGED <<clen, cbad, complete, idx, ipos, dlen, dbad>>

Appends(p) == Room /\ (Variant = "orig" \/ clen = p)
Pull(i, p) ==
  IF p < M
  THEN /\ clen' = IF Appends(p) THEN clen + 1 ELSE clen
       /\ cbad' = (cbad \/ (Appends(p) /\ clen # p))
       /\ dbad' = [dbad EXCEPT ![i] = @ \/ dlen[i] # p]
       /\ dlen' = [dlen EXCEPT ![i] = @ + 1]
       /\ ipos' = [ipos EXCEPT ![i] = p + 1]
       /\ st' = [st EXCEPT ![i] = "p2"]
       /\ UNCHANGED complete
  ELSE /\ complete' = IF Room THEN TRUE ELSE complete
       /\ st' = [st EXCEPT ![i] = "done"]
       /\ UNCHANGED <<clen, cbad, dlen, dbad, ipos>>

EnterInner(i) ==
  /\ st[i] = "p1" /\ idx[i] = clen /\ ~complete
  /\ Pull(i, clen)
  /\ UNCHANGED idx

NextInner(i) ==
  /\ st[i] = "p2"
  /\ Pull(i, ipos[i])
  /\ UNCHANGED idx

Drop(i) == /\ st[i] \in {"p1", "p2"}
           /\ st' = [st EXCEPT ![i] = "dropped"]
           /\ UNCHANGED <<clen, cbad, complete, idx, ipos, dlen, dbad>>

Next == \E i \in Its : Iter(i) \/ NextCached(i) \/ StopComplete(i) \/ EnterInner(i) \/ NextInner(i) \/ Drop(i)
Spec == Init /\ [][Next]_vars
----------------------------------------------------------------------------
\* the three C01 invariants of CacheView.tla, in the abstraction
Independent == \A i \in Its : ~dbad[i] /\ dlen[i] <= M
CacheSound == ~cbad /\ (complete => clen = M)
ExhaustedIsComplete == \A i \in Its : st[i] = "done" => dlen[i] = M
Safe == Independent /\ CacheSound /\ ExhaustedIsComplete

\* inductive invariant (Variant = "fixed"; every M, every Limit)
TypeOK == /\ clen \in Nat /\ cbad \in BOOLEAN /\ complete \in BOOLEAN
          /\ st \in [Its -> States] /\ idx \in [Its -> Nat] /\ ipos \in [Its -> Nat]
          /\ dlen \in [Its -> Nat] /\ dbad \in [Its -> BOOLEAN]
IndInv ==
  /\ TypeOK
  /\ ~cbad /\ clen <= M /\ (complete => clen = M) /\ (Limit # 0 => clen <= Limit)
  /\ \A i \in Its :
       /\ ~dbad[i] /\ dlen[i] <= M
       /\ st[i] = "unborn" => idx[i] = 0 /\ dlen[i] = 0
       /\ st[i] = "p1" => dlen[i] = idx[i] /\ idx[i] <= clen
       /\ st[i] = "p2" => dlen[i] = ipos[i] /\ ipos[i] <= M /\ (Room => ipos[i] <= clen)
       /\ st[i] = "done" => dlen[i] = M
\* IndInit is IndInv used as an initial predicate: every variable is drawn from its type first
IndInit == IndInv
=============================================================================
