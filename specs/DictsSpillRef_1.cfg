CONSTANTS M = 4
          NIter = 3
          Sample = 1
INIT Init
NEXT Next
PROPERTY AbsSpec
INVARIANT AbsSafe
