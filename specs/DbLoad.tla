------------------------------- MODULE DbLoad -------------------------------
(***************************************************************************)
(* petl.io.db.todb / appenddb over a DB-API 2.0 handle (C17), as the       *)
(* protocol petl runs against the database, with the transaction           *)
(* semantics of the database made explicit:                                *)
(*   durable  - what a fresh connection sees (committed rows)              *)
(*   pending  - what petl's connection sees inside its open transaction    *)
(*   intx     - a transaction is open on petl's connection                 *)
(* Rows are naturals.  prev = table contents before the call, new = data   *)
(* rows of the source.  The source may fail: FailAt = 0 never, 1 at the    *)
(* header, 1 + i at data row i, Len(new) + 2 at exhaustion.                *)
(* Handles: "filename" (petl opens and closes the connection itself),      *)
(* "connection", "cursor", "mkcurs" (a function returning cursors).        *)
(* One action per DB-API call / source pull, in the order of               *)
(* _todb_dbapi_connection / _cursor / _mkcurs.                             *)
(***************************************************************************)
EXTENDS Naturals, Sequences, FiniteSets, Json, TLC

CONSTANTS MaxPrev, MaxNew

VARIABLES prev, new, op, handle, commitFlag, failAt,
          durable, pending, intx, pos, pc, ret, hist
vars == <<prev, new, op, handle, commitFlag, failAt, durable, pending, intx, pos, pc, ret, hist>>
params == <<prev, new, op, handle, commitFlag, failAt>>

Final == IF op = "todb" THEN new ELSE prev \o new
Ev(name) == hist' = Append(hist, [ev |-> name, durable |-> durable'])

Init ==
  /\ prev \in UNION {[1..n -> {7, 8}] : n \in 0..MaxPrev}
  /\ new \in {[i \in 1..n |-> i] : n \in 0..MaxNew}
  /\ op \in {"todb", "appenddb"}
  /\ handle \in {"filename", "connection", "cursor", "mkcurs"}
  /\ commitFlag \in BOOLEAN
  /\ failAt \in 0..(Len(new) + 2)
  /\ durable = prev /\ pending = prev /\ intx = FALSE /\ pos = 0 /\ pc = "header" /\ ret = "running" /\ hist = <<>>

\* the exception leaves petl: a connection petl opened itself is closed on the way out (rolls back)
Fail(name) ==
  /\ IF handle = "filename"
     THEN pending' = durable /\ intx' = FALSE
     ELSE UNCHANGED <<pending, intx>>
  /\ ret' = "raised" /\ pc' = "end"
  /\ UNCHANGED <<durable, pos>>
  /\ Ev(name)

\* it = iter(table); hdr = next(it)
PullHeader ==
  /\ pc = "header"
  /\ IF failAt = 1 THEN Fail("fail_header")
     ELSE /\ pc' = IF op = "todb" THEN "delete" ELSE "insert"
          /\ UNCHANGED <<durable, pending, intx, pos, ret>>
          /\ Ev("pull_header")
  /\ UNCHANGED params

\* cursor.execute('DELETE FROM t')   (todb only; opens the transaction)
Delete ==
  /\ pc = "delete"
  /\ pending' = <<>> /\ intx' = TRUE
  /\ pc' = "insert"
  /\ UNCHANGED <<durable, pos, ret>>
  /\ Ev("execute_delete")
  /\ UNCHANGED params

\* cursor.executemany(insert, it): one source pull + one INSERT per step
InsertNext ==
  /\ pc = "insert" /\ pos < Len(new)
  /\ IF failAt = pos + 2 THEN Fail("fail_row")
     ELSE /\ pending' = Append(pending, new[pos + 1]) /\ intx' = TRUE
          /\ pos' = pos + 1
          /\ UNCHANGED <<durable, pc, ret>>
          /\ Ev("insert_row")
  /\ UNCHANGED params

SourceExhausted ==
  /\ pc = "insert" /\ pos = Len(new)
  /\ IF failAt = Len(new) + 2 THEN Fail("fail_exhaustion")
     ELSE /\ pc' = "commit"
          /\ UNCHANGED <<durable, pending, intx, pos, ret>>
          /\ Ev("source_exhausted")
  /\ UNCHANGED params

\* if commit: connection.commit()     - ONLY reachable after the source ended normally
Commit ==
  /\ pc = "commit"
  /\ IF commitFlag
     THEN durable' = pending /\ intx' = FALSE /\ Ev("commit")
     ELSE UNCHANGED <<durable, intx>> /\ Ev("no_commit")
  /\ pc' = "return"
  /\ UNCHANGED <<pending, pos, ret>>
  /\ UNCHANGED params

\* petl returns; a connection it opened itself is closed in `finally` (uncommitted work is rolled back)
Return ==
  /\ pc = "return"
  /\ IF handle = "filename"
     THEN pending' = durable /\ intx' = FALSE
     ELSE UNCHANGED <<pending, intx>>
  /\ ret' = "returned" /\ pc' = "end"
  /\ UNCHANGED <<durable, pos>>
  /\ Ev("return")
  /\ UNCHANGED params

Next == PullHeader \/ Delete \/ InsertNext \/ SourceExhausted \/ Commit \/ Return
Spec == Init /\ [][Next]_vars
View == <<prev, new, op, handle, commitFlag, failAt, durable, pending, intx, pos, pc, ret>>
----------------------------------------------------------------------------
\* C17: a fresh connection never sees an emptied or partially loaded table
AllOrNothing == durable = prev \/ durable = Final
\* the source failed: nothing is committed
FailureKeepsOld == ret = "raised" => durable = prev
\* normal end with commit: exactly the rows written (todb replaces, appenddb extends)
SuccessIsFinal == ret = "returned" /\ commitFlag => durable = Final
\* commit=False on a handle the caller owns: nothing durable yet, the caller's transaction holds the load
NoCommitLeavesPending == ret = "returned" /\ ~commitFlag /\ handle # "filename" => durable = prev /\ pending = Final
\* durable contents change only by the Commit action (so only after a normal end of the source)
OnlyCommitChangesDurable == [][durable' # durable => pc = "commit" /\ pos = Len(new) /\ failAt # Len(new) + 2]_vars

Emit == pc = "end" => PrintT(ToJson([prev |-> prev, new |-> new, op |-> op, handle |-> handle, commit |-> commitFlag,
                                     failAt |-> failAt, ret |-> ret, durable |-> durable, pending |-> pending, hist |-> hist]))
=============================================================================
