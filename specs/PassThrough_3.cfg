CONSTANTS M = 4
          Batch = 3
          Limit = 2
          Passes = 3
INIT Init
NEXT Next
INVARIANT Transparent
INVARIANT CachePrefix
