------------------------------ MODULE HeapGen ------------------------------
(* Input shapes for C03: every ragged table shape (row lengths) up to MaxRows rows x every prefix length. *)
EXTENDS Naturals, Sequences, FiniteSets, SequencesExt, Json, IOUtils, TLC
CONSTANTS Lens, MaxRows
Shapes == UNION {[1..n -> Lens] : n \in 0..MaxRows}
ASSUME ndJsonSerialize(IOEnv.OUT, SetToSeq({[shape |-> s, k |-> k] : s \in Shapes, k \in 0..(MaxRows + 1)}))
VARIABLE x
Init == x = 0
Next == FALSE /\ UNCHANGED x
=============================================================================
